import Proofs.InterpMono
import Proofs.InterpLaws
import Proofs.InterpScope
import Proofs.InterpQuery
import Proofs.InterpWF
import Proofs.InterpOps
import Proofs.InterpStore
import Proofs.InterpAttr
import Proofs.InterpNav
import Proofs.InterpEffects
import Proofs.InterpBridge
import Proofs.InterpUnroll
import Proofs.InterpExamples
import Proofs.InterpShape
import Proofs.InterpShapeMore

/-!
  C04 — Interpreted OAL computes what the action language defines.
  Property theorems only (helper lemmas: Proofs/Interp*.lean).

  Model: `PyxModel/Interp/Spec.lean` — the reference semantics `Spec`: a definitional big-step interpreter with
  fuel over a plain relational state (`PyxModel/Interp/State.lean`).  The theorems below say that `Spec` IS the
  language's rules (for programs of any size / nesting, populations of any size, any amount of fuel); that the
  implementation computes what `Spec` computes is decided on every run by the correspondence harness
  (harness/prop_C04.py), and `ops_table` ties the operator tables of `interpret.py` (regenerated into
  `Gen/InterpOps.lean`) to the operations `Spec` uses.

  Judgements: `Evals C e c r`, `Execs C s c r`, `BlockExecs`, `ListExecs`, `ElifsExecs`, `ItemsExecs` — "some amount
  of fuel delivers the result r" (r is a value/outcome with the next configuration, or a domain error).
-/
namespace PyxProps.C04
open Pyx.Interp

/-! ## fuel -/

/-- more fuel never changes a defined result (expressions, statements, whole runs) -/
theorem spec_fuel_mono (C : Ctx) {n m : Nat} (h : n ≤ m) :
    (∀ e c r, (run C n).eval e c = some r → (run C m).eval e c = some r) ∧
    (∀ s c r, (run C n).exec s c = some r → (run C m).exec s c = some r) ∧
    (∀ body kw st r, runFunction C n body kw st = some r → runFunction C m body kw st = some r) := by
  have hle := run_mono C h
  refine ⟨fun e c r => hle.1 e c r, fun s c r => hle.2 s c r, ?_⟩
  intro body kw st r hr
  unfold runFunction at hr ⊢
  cases hb : runBody (run C n) body { fr := mkFrame .function kw .none, st := st } with
  | none => rw [hb] at hr; cases hr
  | some x => rw [hb] at hr; rw [runBody_le hle body _ _ hb]; exact hr

/-- hence a program has at most one result, whatever the fuel -/
theorem spec_deterministic (C : Ctx) :
    (∀ e c r r', Evals C e c r → Evals C e c r' → r = r') ∧
    (∀ s c r r', Execs C s c r → Execs C s c r' → r = r') :=
  ⟨fun _ _ _ _ => Evals.det, fun _ _ _ _ => Execs.det⟩

/-! ## the language rules -/

/-- `if` on a true condition runs the then-block, on a false one the elif/else part
    [spec equation: one clause of `execStep`, lifted over fuel] -/
theorem spec_laws_if (C : Ctx) (c : Expr) (thn : Block) (elifs : List (Expr × Block)) (els : Option Block)
    (cfg c1 : Cfg) (r : Except Err (Out × Cfg)) :
    (Evals C c cfg (.ok (.bool true, c1)) → (Execs C (.ifS c thn elifs els) cfg r ↔ BlockExecs C thn c1 r)) ∧
    (Evals C c cfg (.ok (.bool false, c1)) → (Execs C (.ifS c thn elifs els) cfg r ↔ ElifsExecs C elifs els c1 r)) :=
  ⟨fun h => ifS_true h, fun h => ifS_false h⟩

/-- an elif chain is the nested if; the end of the chain is the else block, or nothing
    [spec equation] -/
theorem spec_laws_elif (C : Ctx) (c : Expr) (b : Block) (rest : List (Expr × Block)) (els : Option Block)
    (cfg : Cfg) (r : Except Err (Out × Cfg)) :
    (ElifsExecs C ((c, b) :: rest) els cfg r ↔ Execs C (.ifS c b rest els) cfg r) ∧
    ElifsExecs C [] none cfg (.ok (.normal, cfg)) ∧
    (∀ e, ElifsExecs C [] (some e) cfg r ↔ BlockExecs C e cfg r) :=
  ⟨elif_is_nested_if, elifs_nil_none, fun _ => elifs_nil_else⟩

/-- `while c B` = `if c then (B ; while c B)` with break / continue caught at this loop and return / stop passed on:
    the three rules, and every successful run is an instance of them -/
theorem spec_laws_while (C : Ctx) (c : Expr) (body : Block) (cfg : Cfg) :
    (∀ c1, Evals C c cfg (.ok (.bool false, c1)) → Execs C (.whileS c body) cfg (.ok (.normal, c1))) ∧
    (∀ c1 c2 o r, Evals C c cfg (.ok (.bool true, c1)) → BlockExecs C body c1 (.ok (o, c2)) →
        whileAfter C c body o c2 r → Execs C (.whileS c body) cfg r) ∧
    (∀ o' c', Execs C (.whileS c body) cfg (.ok (o', c')) →
        (Evals C c cfg (.ok (.bool false, c')) ∧ o' = .normal) ∨
        (∃ c1 c2 o, Evals C c cfg (.ok (.bool true, c1)) ∧ BlockExecs C body c1 (.ok (o, c2)) ∧
          whileAfter C c body o c2 (.ok (o', c')))) :=
  ⟨fun _ h => while_false h, fun _ _ _ _ h1 h2 h3 => while_true h1 h2 h3, fun _ _ h => while_inv h⟩

/-- what "go round again / leave the loop" means after one round (`whileAfter`), spelled out
    [spec equation: `whileAfter` unfolded, by definition] -/
theorem spec_laws_while_after (C : Ctx) (c : Expr) (body : Block) (c2 : Cfg) (r : Except Err (Out × Cfg)) :
    (whileAfter C c body .normal c2 r ↔ Execs C (.whileS c body) c2 r) ∧
    (whileAfter C c body .cont c2 r ↔ Execs C (.whileS c body) c2 r) ∧
    (whileAfter C c body .brk c2 r ↔ r = .ok (.normal, c2)) ∧
    (whileAfter C c body .ret c2 r ↔ r = .ok (.ret, c2)) ∧
    (whileAfter C c body .retBare c2 r ↔ r = .ok (.retBare, c2)) ∧
    (whileAfter C c body .stop c2 r ↔ r = .ok (.stop, c2)) :=
  ⟨Iff.rfl, Iff.rfl, Iff.rfl, Iff.rfl, Iff.rfl, Iff.rfl⟩

/-- **loop unrolling, errors included**: the outcome `r` of `while c body` — a completed outcome or a domain error — is
    exactly one of: the condition's error; a non-boolean condition (error); condition false: normal completion; condition
    true and the body's error; condition true, the body completes with outcome `o`, and `r` is what `whileAfter`
    prescribes (normal / continue: the outcome of the same loop started after the body; break: normal; return / stop:
    passed on).  An equivalence, for every amount of fuel. -/
theorem spec_laws_while_unroll (C : Ctx) (c : Expr) (body : Block) (cfg : Cfg) (r : Except Err (Out × Cfg)) :
    Execs C (.whileS c body) cfg r ↔
      (∃ e, Evals C c cfg (.error e) ∧ r = .error e) ∨
      (∃ v c1 e, Evals C c cfg (.ok (v, c1)) ∧ boolOf v = none ∧ asBool v c1 = some (.error e) ∧ r = .error e) ∨
      (∃ c1, Evals C c cfg (.ok (.bool false, c1)) ∧ r = .ok (.normal, c1)) ∨
      (∃ c1 e, Evals C c cfg (.ok (.bool true, c1)) ∧ BlockExecs C body c1 (.error e) ∧ r = .error e) ∨
      (∃ c1 c2 o, Evals C c cfg (.ok (.bool true, c1)) ∧ BlockExecs C body c1 (.ok (o, c2)) ∧
        whileAfter C c body o c2 r) :=
  while_unroll

/-- `for each v in s` reads the set ONCE (a snapshot) and is the sequential composition of the body over its
    elements in set order, the loop variable being assigned in the block that holds the loop
    [spec equation, lifted over fuel] -/
theorem spec_laws_foreach (C : Ctx) (v setv : String) (body : Block) (items : List Inst) (cfg : Cfg)
    (r : Except Err (Out × Cfg)) :
    (selfHit cfg.fr setv = false → envLookup cfg.fr.env setv = some (.set items) →
        (Execs C (.forEach v setv body) cfg r ↔ ItemsExecs C v body items cfg r)) ∧
    ItemsExecs C v body [] cfg (.ok (.normal, cfg)) ∧
    (∀ i rest c2 o,
        BlockExecs C body { cfg with fr := { cfg.fr with env := envInstall cfg.fr.env v (.inst i) } } (.ok (o, c2)) →
        itemsAfter C v body rest o c2 r → ItemsExecs C v body (i :: rest) cfg r) :=
  ⟨fun h0 h => foreach_is_items h0 h, items_nil, fun _ _ _ _ h1 h2 => items_cons h1 h2⟩

/-- [spec equation: `itemsAfter` unfolded, by definition] -/
theorem spec_laws_foreach_after (C : Ctx) (v : String) (body : Block) (rest : List Inst) (c2 : Cfg)
    (r : Except Err (Out × Cfg)) :
    (itemsAfter C v body rest .normal c2 r ↔ ItemsExecs C v body rest c2 r) ∧
    (itemsAfter C v body rest .cont c2 r ↔ ItemsExecs C v body rest c2 r) ∧
    (itemsAfter C v body rest .brk c2 r ↔ r = .ok (.normal, c2)) ∧
    (itemsAfter C v body rest .ret c2 r ↔ r = .ok (.ret, c2)) ∧
    (itemsAfter C v body rest .retBare c2 r ↔ r = .ok (.retBare, c2)) ∧
    (itemsAfter C v body rest .stop c2 r ↔ r = .ok (.stop, c2)) :=
  ⟨Iff.rfl, Iff.rfl, Iff.rfl, Iff.rfl, Iff.rfl, Iff.rfl⟩

/-- sequencing; `break`, `continue`, `return`, `control stop` abort the rest of every enclosing list
    [spec equation] -/
theorem spec_laws_sequence (C : Ctx) (s : Stmt) (rest : List Stmt) (cfg c1 : Cfg) :
    ListExecs C [] cfg (.ok (.normal, cfg)) ∧
    (∀ r, Execs C s cfg (.ok (.normal, c1)) → ListExecs C rest c1 r → ListExecs C (s :: rest) cfg r) ∧
    (∀ o, Execs C s cfg (.ok (o, c1)) → o ≠ .normal → ListExecs C (s :: rest) cfg (.ok (o, c1))) :=
  ⟨list_nil, fun _ h1 h2 => list_cons_normal h1 h2, fun _ h1 h2 => list_cons_abrupt h1 h2⟩

/-- the control statements: their outcome, no effect; `return e` additionally stores the value
    [spec equation] -/
theorem spec_laws_control (C : Ctx) (cfg : Cfg) :
    Execs C .brk cfg (.ok (.brk, cfg)) ∧ Execs C .cont cfg (.ok (.cont, cfg)) ∧
    Execs C .stop cfg (.ok (.stop, cfg)) ∧ Execs C (.ret none) cfg (.ok (.retBare, cfg)) ∧
    (∀ e v c1, Evals C e cfg (.ok (v, c1)) →
        Execs C (.ret (some e)) cfg (.ok (.ret, { c1 with fr := { c1.fr with ret := v } }))) :=
  ⟨exec_break, exec_continue, exec_stop, exec_return_bare, fun _ _ _ h => exec_return_value h⟩

/-- a block is its statement list between entering and leaving a block of variables; it passes the outcome on
    [spec equation] -/
theorem spec_laws_block (C : Ctx) (b : Block) (cfg c' : Cfg) (o : Out) :
    BlockExecs C b cfg (.ok (o, c')) ↔
      ∃ c2, ListExecs C b { cfg with fr := { cfg.fr with env := [] :: cfg.fr.env } } (.ok (o, c2)) ∧
            c' = { c2 with fr := { c2.fr with env := c2.fr.env.tail } } :=
  block_iff

/-- block scoping: whatever a block does and however it is left, afterwards every enclosing block holds exactly
    the variable names it held before (block-local variables vanish, outer variables survive) … -/
theorem spec_laws_block_scope (C : Ctx) (n : Nat) (b : Block) (c c' : Cfg) (o : Out)
    (h : execBlock (run C n) b c = some (.ok (o, c'))) : envNames c'.fr.env = envNames c.fr.env :=
  rblk_execBlock (rfr_run C n) (rsh_run C n) b c o c' h

/-- … and a statement changes no NAME in the blocks that enclose the one it runs in (a variable first assigned in a
    nested block is created in that innermost block; an existing variable is updated where it lives) -/
theorem spec_laws_stmt_scope (C : Ctx) (n : Nat) (s : Stmt) (c c' : Cfg) (o : Out)
    (h : (run C n).exec s c = some (.ok (o, c'))) (hne : c.fr.env ≠ []) :
    c'.fr.env ≠ [] ∧ envNames c'.fr.env.tail = envNames c.fr.env.tail :=
  rsh_run C n s c o c' h hne

/-- assignment and lookup
    [spec equation + the two lookup laws of `envInstall`] -/
theorem spec_laws_assign (C : Ctx) (x : String) (e : Expr) (cfg c1 : Cfg) (v : Val)
    (he : Evals C e cfg (.ok (v, c1))) :
    Execs C (.assignVar x e) cfg (.ok (.normal, { c1 with fr := { c1.fr with env := envInstall c1.fr.env x v } })) ∧
    envLookup (envInstall c1.fr.env x v) x = some v ∧
    (∀ y, y ≠ x → envLookup (envInstall c1.fr.env x v) y = envLookup c1.fr.env y) :=
  ⟨exec_assign he, envLookup_install_self _ _ _, fun _ hy => envLookup_install_other _ _ _ _ hy⟩

/-- `select … where` is a filter: if the clause evaluates for candidate i (with `selected` bound to i) to `p i`
    and leaves the configuration alone, `select many` yields the satisfying candidates without duplicates in
    encounter order and `select any/one` the first of them -/
theorem spec_laws_select_where (rec : Oracle) (wh : Expr) (p : Inst → Bool) (c : Cfg) (cands : List Inst)
    (hp : ∀ i ∈ cands, evalWhere rec wh i c = some (.ok (p i, c))) :
    selectResult rec true cands (some wh) c = some (.ok (.set (dedup (cands.filter p)), c)) ∧
    selectResult rec false cands (some wh) c =
      some (.ok ((match cands.find? p with | none => Val.none | some i => .inst i), c)) :=
  ⟨select_many_where cands hp, select_any_where cands hp⟩

/-- [spec equation + the laws of `dedup`] -/
theorem spec_laws_select_plain (rec : Oracle) (cands : List Inst) (c : Cfg) :
    selectResult rec true cands none c = some (.ok (.set (dedup cands), c)) ∧
    selectResult rec false cands none c = some (.ok ((match cands with | [] => Val.none | i :: _ => .inst i), c)) ∧
    (dedup cands).Nodup ∧ (∀ y, y ∈ dedup cands ↔ y ∈ cands) ∧ (cands.Nodup → dedup cands = cands) :=
  ⟨rfl, rfl, dedup_nodup _, mem_dedup _, dedup_of_nodup _⟩

/-- chain navigation is the relational composition of its steps; a direct step is the image under the
    association's pair list -/
theorem spec_laws_navigation (C : Ctx) (st : State) (steps : List NavStep) (start res : List Inst)
    (h : navChain C st start steps = .ok res) (y : Inst) :
    (y ∈ res ↔ ∃ x ∈ start, PathRel C st steps x y) ∧
    (∀ (l : LinkRef) (i : Inst),
      y ∈ follow st l i ↔ (if l.toSource then (y, i) ∈ st.links l.k else (i, y) ∈ st.links l.k)) :=
  ⟨mem_navChain h y, fun l i => mem_follow st l i y⟩

/-- cardinality / empty / not_empty
    [spec equation] -/
theorem spec_laws_cardinality (i : Inst) (l : List Inst) :
    unop .card .none = .ok (.int 0) ∧ unop .card (.inst i) = .ok (.int 1) ∧ unop .card (.set l) = .ok (.int l.length) ∧
    unop .empty .none = .ok (.bool true) ∧ unop .empty (.inst i) = .ok (.bool false) ∧
    unop .empty (.set l) = .ok (.bool l.isEmpty) ∧
    (∀ v b, unop .empty v = .ok (.bool b) → unop .notEmpty v = .ok (.bool (!b))) :=
  ⟨rfl, rfl, rfl, rfl, rfl, rfl, notEmpty_is_not_empty⟩

/-- arithmetic: `/` truncates toward zero — exactly what the interpreter's `divide` computes on integers for a non-zero
    divisor — and is an error on a zero divisor; `%` is the remainder of that division (`(x / y) * y + x % y = x`, sign of
    the dividend) — exactly what the interpreter's `modulo` computes on integers for a non-zero divisor —, an error on
    a zero divisor, and coincides with every other convention (floor, Euclid) on non-negative
    operands; `+` on strings concatenates; `and` / `or` / `not` are the boolean operations -/
theorem spec_laws_arithmetic (x y : Int) (s t : String) (a b : Bool) :
    (y ≠ 0 → binop .div (.int x) (.int y) = .ok (.int (Int.tdiv x y))) ∧
    (y ≠ 0 → pyDivide x y = Int.tdiv x y) ∧
    (∃ e, binop .div (.int x) (.int 0) = .error e) ∧
    (y ≠ 0 → binop .mod (.int x) (.int y) = .ok (.int (Int.tmod x y))) ∧
    (y ≠ 0 → pyModulo x y = Int.tmod x y) ∧
    (∃ e, binop .mod (.int x) (.int 0) = .error e) ∧
    Int.tdiv x y * y + Int.tmod x y = x ∧
    (0 ≤ x → 0 < y → Int.tmod x y = x % y ∧ Int.tmod x y = Int.fmod x y) ∧
    binop .add (.str s) (.str t) = .ok (.str (s ++ t)) ∧
    binop .add (.int x) (.int y) = .ok (.int (x + y)) ∧
    binop .and (.bool a) (.bool b) = .ok (.bool (a && b)) ∧
    binop .or (.bool a) (.bool b) = .ok (.bool (a || b)) ∧
    unop .not (.bool a) = .ok (.bool (!a)) := by
  refine ⟨fun hy => by simp [binop, hy], pyDivide_eq_tdiv x y, ⟨_, by simp [binop]; rfl⟩, fun hy => by simp [binop, hy],
    pyModulo_eq_tmod x y, ⟨_, by simp [binop]; rfl⟩, tdiv_tmod_identity x y, ?_, rfl, rfl, rfl, rfl, rfl⟩
  intro hx hy
  have := mod_conventions_agree x y hx hy
  exact ⟨this.1.symm, this.1.symm.trans this.2⟩

/-- `relate a to b across R using l` is two relates; `unrelate … using` two unrelates
    [spec equation] -/
theorem spec_laws_relate_using (C : Ctx) (x y w : Inst) (rel phrase : String) (st : State) :
    relateUsing C x y w rel phrase st = (relate C x w rel phrase st).bind (relate C w y rel phrase) ∧
    unrelateUsing C x y w rel phrase st = (unrelate C x w rel phrase st).bind (unrelate C w y rel phrase) := by
  constructor
  · unfold relateUsing; cases relate C x w rel phrase st <;> rfl
  · unfold unrelateUsing; cases unrelate C x w rel phrase st <;> rfl

/-! ## the relational state stays well-formed -/

/-- any program run from a well-formed relational state (links only between live instances, no duplicate pairs,
    duplicate-free instance lists below the creation counter) ends in one -/
theorem exec_preserves_wf (C : Ctx) (fuel : Nat) (body : Block) (kw : List (String × Val)) (st st' : State) (v : Val)
    (h : runFunction C fuel body kw st = some (.ok (v, st'))) (wf : WF st) : WF st' :=
  runFunction_wf C fuel body kw st st' v h wf

/-- … and so does every single statement and expression -/
theorem exec_preserves_wf_stmt (C : Ctx) (n : Nat) :
    (∀ s c o c', (run C n).exec s c = some (.ok (o, c')) → WF c.st → WF c'.st) ∧
    (∀ e c v c', (run C n).eval e c = some (.ok (v, c')) → WF c.st → WF c'.st) :=
  ⟨fun s c o c' h => (rwf_run C n).2 s c o c' h, fun e c v c' h => (rwf_run C n).1 e c v c' h⟩

/-! ## the relational store of `Spec` is an abstraction of the mechanism of xtuml/meta.py

  `Pyx.Meta` (PyxModel/Meta.lean, property C02) models the store the code really keeps: instances are global creation
  indices; an association is TWO directed link maps with cardinality-checked `connect`, resolved by `_find_link` over
  kinds and phrase; a rejected relate is undone; delete unrelates every partner.  `Refines kname ι s st` relates a
  mechanism state `s` and a `Spec` state `st` under a naming of classes (`kname`, injective) and of instances
  (`ι`: global index ↦ (class, index in class)): same pools in the same order; the pair list of every association
  holds exactly the linked pairs, once each; and BOTH projections of the pair list give every instance its partners in
  the order of its directed link set — what navigation observes is identical, order included.
  (A relation, not a function: `Spec` keeps one insertion-ordered list per association, whose global order the two
  directed maps do not determine.)  Hypotheses: the invariants `AllInv` of C02 and its schema condition `SchemaOk`. -/

section Store
open Pyx.Meta (AllInv SchemaOk)
variable {kname : Nat → String} {ι : Nat → Inst} {s : Pyx.Meta.State} {st : State}

/-- the initial states correspond -/
theorem store_init (kname : Nat → String) (ι : Nat → Inst) : Refines kname ι Pyx.Meta.init initState :=
  refines_init kname ι

/-- (a) `new` commutes with the abstraction: Spec creates ⟨class, next index of the class⟩ and the extended naming refines -/
theorem store_new (hk : Function.Injective kname) (kinds : List Nat) (sch : Pyx.Meta.Schema)
    (R : Refines kname ι s st) (A : AllInv sch s) (k : Nat) (hkin : k ∈ kinds) (hasId : Bool) :
    ∃ st', newInst (ctxOf kname kinds sch) (kname k) st = .ok (⟨kname k, st.next (kname k)⟩, st') ∧
      Refines kname (extend ι s.count ⟨kname k, st.next (kname k)⟩) (Pyx.Meta.new s k hasId).1 st' :=
  new_refines hk kinds sch R A k hkin hasId

/-- (b) `relate` of any two CREATED instances: accepted by the mechanism (both connects, or already related) ⇒ accepted by
    Spec with corresponding results; rejected (RelateException after the undo or because an instance is deleted — the
    mechanism keeps the instances it deletes in `deleted` —, UnknownLink) ⇒ rejected by Spec, and neither state changes -/
theorem store_relate (hk : Function.Injective kname) (kinds : List Nat) (sch : Pyx.Meta.Schema)
    (R : Refines kname ι s st) (A : AllInv sch s) {x y : Nat}
    (hx : x < s.count) (hy : y < s.count) (rel phrase : String) :
    ((Pyx.Meta.relate sch s x y rel phrase).2 = .ok →
      ∃ st', relate (ctxOf kname kinds sch) (ι x) (ι y) rel phrase st = .ok st' ∧
        Refines kname ι (Pyx.Meta.relate sch s x y rel phrase).1 st') ∧
    ((Pyx.Meta.relate sch s x y rel phrase).2 ≠ .ok →
      (Pyx.Meta.relate sch s x y rel phrase).1 = s ∧
        ∃ e, relate (ctxOf kname kinds sch) (ι x) (ι y) rel phrase st = .error e) :=
  relate_refines' hk kinds sch R A hx hy rel phrase

/-- (c) `unrelate` of created instances, accepted and rejected (UnrelateException, UnknownLink) alike -/
theorem store_unrelate (hk : Function.Injective kname) (kinds : List Nat) (sch : Pyx.Meta.Schema)
    (R : Refines kname ι s st) (A : AllInv sch s) {x y : Nat} (hx : x < s.count) (hy : y < s.count)
    (rel phrase : String) :
    ((Pyx.Meta.unrelate sch s x y rel phrase).2 = .ok →
      ∃ st', unrelate (ctxOf kname kinds sch) (ι x) (ι y) rel phrase st = .ok st' ∧
        Refines kname ι (Pyx.Meta.unrelate sch s x y rel phrase).1 st') ∧
    ((Pyx.Meta.unrelate sch s x y rel phrase).2 ≠ .ok →
      (Pyx.Meta.unrelate sch s x y rel phrase).1 = s ∧
        ∃ e, unrelate (ctxOf kname kinds sch) (ι x) (ι y) rel phrase st = .error e) :=
  unrelate_refines hk kinds sch R A hx hy rel phrase

/-- (d) `delete`: the mechanism's loop of unrelates over every link of the class leaves exactly what Spec's delete
    leaves (instance out of its pool, all its pairs gone, every other partner list in its old order); a dead
    instance is rejected on both sides -/
theorem store_delete (hk : Function.Injective kname) {sch : Pyx.Meta.Schema} (hok : SchemaOk sch)
    (R : Refines kname ι s st) (A : AllInv sch s) {x : Nat} (hx : x < s.count) :
    ((Pyx.Meta.delete sch s x).2 = .ok →
      ∃ st', deleteInst (ι x) st = .ok st' ∧ Refines kname ι (Pyx.Meta.delete sch s x).1 st') ∧
    ((Pyx.Meta.delete sch s x).2 ≠ .ok →
      (Pyx.Meta.delete sch s x).1 = s ∧ ∃ e, deleteInst (ι x) st = .error e) :=
  delete_refines hk hok R A hx

/-- what an accepted delete leaves behind in the mechanism, exactly -/
theorem store_delete_mechanism {sch : Pyx.Meta.Schema} (hok : SchemaOk sch) (A : AllInv sch s) {x : Nat}
    (hx : Pyx.Meta.live s x) :
    (Pyx.Meta.delete sch s x).2 = .ok ∧
    (Pyx.Meta.delete sch s x).1.pool = Pyx.Meta.upd s.pool (s.kindOf x) ((s.pool (s.kindOf x)).erase x) ∧
    (∀ j z, ((Pyx.Meta.delete sch s x).1.links j).src z = ((s.links j).src z).filter (fun w => decide (w ≠ x ∧ z ≠ x))) ∧
    (∀ j z, ((Pyx.Meta.delete sch s x).1.links j).tgt z = ((s.links j).tgt z).filter (fun w => decide (w ≠ x ∧ z ≠ x))) :=
  ⟨(delete_char hok A hx).1, (delete_char hok A hx).2.2.2.1, (delete_char hok A hx).2.2.2.2.1, (delete_char hok A hx).2.2.2.2.2⟩

/-- (e) one navigation step over a direct link (`Query.navigate`, C09) returns exactly the Spec image, in order -/
theorem store_navigate (hk : Function.Injective kname) (kinds : List Nat) (sch : Pyx.Meta.Schema)
    (R : Refines kname ι s st) {x : Nat} (hx : x < s.count)
    (hd : Pyx.Query.KeysDistinct (Pyx.Query.linkEntriesFrom (s.kindOf x) 0 sch))
    (toKind : Nat) (rel phrase : String) (e : Pyx.Query.LinkEntry)
    (h : Pyx.Query.lookupKey (Pyx.Query.linkDict sch (s.kindOf x)) toKind rel phrase = some e) :
    Pyx.Query.navigate sch s x toKind rel phrase = some (Pyx.Query.followEntry s e x) ∧
    navStep (ctxOf kname kinds sch) st (ι x) ⟨kname toKind, rel, phrase⟩ = .ok ((Pyx.Query.followEntry s e x).map ι) :=
  navigate_refines hk kinds sch R hx hd toKind rel phrase e h

/-- (f) every history of new / relate / unrelate / delete in the domain (`Dom'`: relate on live instances, unrelate and
    delete on created ones, new on a known class), run by the mechanism and — operation by operation on the named
    instances — by Spec (`specRun`: a rejected operation changes nothing), ends in corresponding states -/
theorem store_refines (hk : Function.Injective kname) (kinds : List Nat) {sch : Pyx.Meta.Schema} (hok : SchemaOk sch)
    (ι0 : Nat → Inst) (ops : List Pyx.Meta.Op) (hd : Dom' kinds sch Pyx.Meta.init ops) :
    Refines kname (specRun kname (ctxOf kname kinds sch) sch ops Pyx.Meta.init ι0 initState).1
      (Pyx.Meta.run sch ops)
      (specRun kname (ctxOf kname kinds sch) sch ops Pyx.Meta.init ι0 initState).2 :=
  Pyx.Interp.store_refines hk kinds hok ι0 ops hd

/-- … and corresponding states are observed alike: same liveness, same pools, same partners in the same order -/
theorem store_observations {sch : Pyx.Meta.Schema} (R : Refines kname ι s st) (A : AllInv sch s) :
    (∀ x, x < s.count → (st.isLive (ι x) = true ↔ Pyx.Meta.live s x)) ∧
    (∀ k, st.live (kname k) = (s.pool k).map (fun x => (ι x).idx)) ∧
    (∀ i x, x < s.count → srcProj (st.links i) (ι x) = ((s.links i).src x).map ι) ∧
    (∀ i y, y < s.count → tgtProj (st.links i) (ι y) = ((s.links i).tgt y).map ι) ∧
    (∀ i, (st.links i).Nodup) :=
  ⟨fun _ hx => live_iff R A.pool hx, R.pool, R.srcOrd, R.tgtOrd, R.nodup⟩

/-! ### attribute values in the refinement (Proofs/InterpAttr.lean)

  The mechanism keeps the class's own id attribute in `Pyx.Meta.State.idOf`, resolves referential attributes through the
  links (`Pyx.Meta.getAttr`, C02's `getAttr_own` / `getAttr_single`, reused) and the plain attributes in the instances'
  dicts (`MDict`); `mGet` / `mSet` / `mNewDict` are getattr / setattr / the defaults of `MetaClass.new`.
  `RefinesA` = `Refines` + equal plain values + id attribute = idOf + equal id generators. -/

/-- reads agree: a plain attribute, the id attribute, and a referential attribute formalised by one association (the
    identifier of the related instance, nothing when there is none) -/
theorem attr_reads {decl : Nat → List AttrDecl} {at_ : Pyx.Meta.Attrs} {sch : Pyx.Meta.Schema} {d : MDict}
    (hk : Function.Injective kname) (kinds : List Nat)
    (R : RefinesA kname decl at_ sch ι s d st) (A : AllInv sch s) {x : Nat} (hx : Pyx.Meta.live s x)
    (hkin : s.kindOf x ∈ kinds) {name : String} {a : AttrDecl}
    (hfa : (decl (s.kindOf x)).find? (fun a => a.name = name) = some a) (fuel : Nat) :
    (a.referential = false → isPlain sch at_ (s.kindOf x) name →
        getAttr (ctxOfA kname decl kinds sch) (ι x) name st = .ok (mGet sch at_ s d fuel x name)) ∧
    (DeclOk decl at_ sch (s.kindOf x) → at_.idName (s.kindOf x) = some name →
        getAttr (ctxOfA kname decl kinds sch) (ι x) name st = .ok (mGet sch at_ s d (fuel + 1) x name) ∧
        mGet sch at_ s d (fuel + 1) x name = .int (s.idOf x)) ∧
    (∀ i pk, a.referential = true → Pyx.Meta.formalFrom (s.kindOf x) name 0 sch = [(i, pk)] →
        (∀ o, o ∈ (s.links i).tgt x → s.kindOf o ∈ kinds ∧ DeclOk decl at_ sch (s.kindOf o) ∧
          at_.idName (s.kindOf o) = some pk) →
        getAttr (ctxOfA kname decl kinds sch) (ι x) name st = .ok (mGet sch at_ s d (fuel + 3) x name)) :=
  ⟨fun hnr hpl => read_plain hk kinds R A hx hkin hfa hnr hpl fuel,
   fun D hid => read_id hk kinds R A hx hkin D hid fuel,
   fun _ _ hr hform hpk => read_ref hk kinds R A hx hkin hfa hr hform hpk fuel⟩

/-- writes: `x.attr = v` on a plain attribute is accepted on both sides with corresponding results; on a referential
    attribute it is rejected on both sides (MetaException / Spec error); on the class's own id attribute with a
    non-negative integer (the mechanism model keeps ids as naturals) it is accepted on both sides, the mechanism
    updating `idOf`, and the states correspond again -/
theorem attr_writes {decl : Nat → List AttrDecl} {at_ : Pyx.Meta.Attrs} {sch : Pyx.Meta.Schema} {d : MDict}
    (hk : Function.Injective kname) (kinds : List Nat)
    (R : RefinesA kname decl at_ sch ι s d st) (A : AllInv sch s) {x : Nat} (hx : Pyx.Meta.live s x)
    (hkin : s.kindOf x ∈ kinds) {name : String} {a : AttrDecl} (v : Val)
    (hfa : (decl (s.kindOf x)).find? (fun a => a.name = name) = some a) :
    (a.referential = false → tyMatches a.ty v = true → isPlain sch at_ (s.kindOf x) name →
        ∃ st' d', setAttr (ctxOfA kname decl kinds sch) (ι x) name v st = .ok st' ∧
          mSet sch at_ s d x name v = some (s, d') ∧ RefinesA kname decl at_ sch ι s d' st') ∧
    (a.referential = true → Pyx.Meta.formalFrom (s.kindOf x) name 0 sch ≠ [] →
        (∃ e, setAttr (ctxOfA kname decl kinds sch) (ι x) name v st = .error e) ∧ mSet sch at_ s d x name v = none) ∧
    (∀ i : Int, v = .int i → 0 ≤ i → a.referential = false → tyMatches a.ty (.int i) = true →
        Pyx.Meta.formalFrom (s.kindOf x) name 0 sch = [] → at_.idName (s.kindOf x) = some name →
        ∃ st', setAttr (ctxOfA kname decl kinds sch) (ι x) name (.int i) st = .ok st' ∧
          mSet sch at_ s d x name (.int i) = some ({ s with idOf := Pyx.Meta.upd s.idOf x i.toNat }, d) ∧
          RefinesA kname decl at_ sch ι { s with idOf := Pyx.Meta.upd s.idOf x i.toNat } d st') :=
  ⟨fun hnr hty hpl => write_plain hk kinds R A hx hkin hfa hnr hty hpl,
   fun hr hform => write_ref hk kinds R A hx hkin v hfa hr hform,
   fun i _ hi hnr hty hform hid => write_id hk kinds R A hx hkin hfa hnr hty hform hid hi⟩

/-- `new` with attributes: the same defaults on both sides (id attribute = next id of the equal generators) -/
theorem attr_new {decl : Nat → List AttrDecl} {at_ : Pyx.Meta.Attrs} {sch : Pyx.Meta.Schema} {d : MDict}
    (hk : Function.Injective kname) (kinds : List Nat)
    (R : RefinesA kname decl at_ sch ι s d st) (A : AllInv sch s) (k : Nat) (hkin : k ∈ kinds)
    (D : DeclOk decl at_ sch k) (hasId : Bool) (hhas : hasId = (at_.idName k).isSome) :
    ∃ st', newInst (ctxOfA kname decl kinds sch) (kname k) st = .ok (⟨kname k, st.next (kname k)⟩, st') ∧
      RefinesA kname decl at_ sch (extend ι s.count ⟨kname k, st.next (kname k)⟩) (Pyx.Meta.new s k hasId).1
        ⟨mNewDict s.count (at_.idName k) (decl k) d.vals⟩ st' :=
  new_refinesA hk kinds R A k hkin D hasId hhas

/-- every history of new / relate / unrelate / delete AND attribute writes in the domain refines: corresponding stores
    and corresponding valuations at the end (so every later read agrees, by `attr_reads`) -/
theorem attr_refines {decl : Nat → List AttrDecl} {at_ : Pyx.Meta.Attrs} {sch : Pyx.Meta.Schema}
    (hk : Function.Injective kname) (kinds : List Nat) (hok : SchemaOk sch)
    (ι0 : Nat → Inst) (d0 : MDict) (ops : List AOp) (hd : DomA decl at_ sch kinds Pyx.Meta.init d0 ops) :
    RefinesA kname decl at_ sch (specRunA kname decl at_ (ctxOfA kname decl kinds sch) sch ops Pyx.Meta.init d0 ι0 initState).1
      (mRunA decl at_ sch ops Pyx.Meta.init d0).1 (mRunA decl at_ sch ops Pyx.Meta.init d0).2
      (specRunA kname decl at_ (ctxOfA kname decl kinds sch) sch ops Pyx.Meta.init d0 ι0 initState).2 :=
  Pyx.Interp.attr_refines hk kinds hok ι0 d0 ops hd

/-! ### program execution meets the mechanism (Proofs/InterpEffects.lean, Proofs/InterpBridge.lean) -/

/-- whatever a program does to the relational state is a history of state operations: a run — any statements, nesting,
    loops, calls, any fuel — that ends normally reaches its final state from the initial one through a finite list of
    successful `create` / `delete` / `relate` / `unrelate` / attribute-write operations on named instances
    (`relate … using` / `unrelate … using` are two of them); the same for one statement and one expression -/
theorem program_effects (C : Ctx) (fuel : Nat) :
    (∀ body kw st st' v, runFunction C fuel body kw st = some (.ok (v, st')) → ∃ es, applyEffs C es st = .ok st') ∧
    (∀ s c c' o, (run C fuel).exec s c = some (.ok (o, c')) → ∃ es, applyEffs C es c.st = .ok c'.st) ∧
    (∀ e c c' v, (run C fuel).eval e c = some (.ok (v, c')) → ∃ es, applyEffs C es c.st = .ok c'.st) :=
  ⟨fun body kw st st' v h => runFunction_effects C fuel body kw st st' v h,
   fun s c c' o h => exec_effects C fuel s c c' o h, fun e c c' v h => eval_effects C fuel e c c' v h⟩

/-- **a history of Spec operations is the image of a mechanism history** (the strong form: for EVERY history `es`, nothing
    hidden): let the `Spec` state `st` correspond to the mechanism state `(s, d)` (`RefinesA`: both initial, or both after
    any history of the domain).  Every list `es` of successful state operations from `st` to `st'` whose writes to a
    class's own identifying id attribute carry non-negative integers (`IdWritesNonneg`; the mechanism model keeps ids
    as naturals) IS the image of a history `ops` of MECHANISM operations (`Meta.new` / `relate` / `unrelate` / `delete`,
    `setattr`) of the refinement's domain — `specRunA … ops`, Spec run operation by operation on the named instances,
    ends in that very `st'` — and the mechanism state after `ops` corresponds to `st'`: pools in creation order, both
    directions of every association in link order, attribute values, the id counter.
    (`Closed`: instances live only in classes the context declares — true initially, kept by every operation.) -/
theorem history_refines {decl : Nat → List AttrDecl} {at_ : Pyx.Meta.Attrs} {sch : Pyx.Meta.Schema} {d : MDict}
    (hk : Function.Injective kname) (kinds : List Nat) (hok : SchemaOk sch)
    (hD : ∀ k ∈ kinds, DeclOk decl at_ sch k)
    (R : RefinesA kname decl at_ sch ι s d st) (A : AllInv sch s) (hc : Closed kname kinds st)
    (es : List Eff) (st' : State) (hes : applyEffs (ctxOfA kname decl kinds sch) es st = .ok st')
    (hid : ∀ e ∈ es, IdWritesNonneg kname at_ e) :
    ∃ ops, DomA decl at_ sch kinds s d ops ∧
      (specRunA kname decl at_ (ctxOfA kname decl kinds sch) sch ops s d ι st).2 = st' ∧
      RefinesA kname decl at_ sch (specRunA kname decl at_ (ctxOfA kname decl kinds sch) sch ops s d ι st).1
        (mRunA decl at_ sch ops s d).1 (mRunA decl at_ sch ops s d).2 st' ∧
      Closed kname kinds st' :=
  effs_refine hk kinds hok hD es ι s d st st' R A hc hes hid

/-- **program execution meets the mechanism** (nothing hidden in the premise): a program whose attribute assignments —
    at any depth of blocks, ifs, loops — never name a class's own identifying attribute (`StmtOk`, a condition on the
    program TEXT), run from a `Spec` state that corresponds to a mechanism state and ending normally in `st'`, reaches
    `st'` through a history `es` of successful state operations that is the image of a history `ops` of mechanism
    operations of the domain, and the mechanism state after `ops` corresponds to `st'`.  (Programs that do assign id
    attributes: `program_effects` yields their history, `history_refines` applies to it when the assigned values are
    non-negative.) -/
theorem program_refines {decl : Nat → List AttrDecl} {at_ : Pyx.Meta.Attrs} {sch : Pyx.Meta.Schema} {d : MDict}
    (hk : Function.Injective kname) (kinds : List Nat) (hok : SchemaOk sch)
    (hD : ∀ k ∈ kinds, DeclOk decl at_ sch k)
    (R : RefinesA kname decl at_ sch ι s d st) (A : AllInv sch s) (hc : Closed kname kinds st)
    (fuel : Nat) (body : Block) (hbody : ∀ s ∈ body, StmtOk (fun name => ∀ k, at_.idName k ≠ some name) s)
    (kw : List (String × Val)) (v : Val) (st' : State)
    (h : runFunction (ctxOfA kname decl kinds sch) fuel body kw st = some (.ok (v, st'))) :
    ∃ es ops, applyEffs (ctxOfA kname decl kinds sch) es st = .ok st' ∧
      DomA decl at_ sch kinds s d ops ∧
      (specRunA kname decl at_ (ctxOfA kname decl kinds sch) sch ops s d ι st).2 = st' ∧
      RefinesA kname decl at_ sch (specRunA kname decl at_ (ctxOfA kname decl kinds sch) sch ops s d ι st).1
        (mRunA decl at_ sch ops s d).1 (mRunA decl at_ sch ops s d).2 st' :=
  program_refines_syntactic hk kinds hok hD R A hc fuel body hbody kw v st' h

/-- for a model without identifying id attributes the condition is void; and the initial states qualify -/
theorem program_refines_noid {decl : Nat → List AttrDecl} {at_ : Pyx.Meta.Attrs} {sch : Pyx.Meta.Schema} {d : MDict}
    (hk : Function.Injective kname) (kinds : List Nat) (hok : SchemaOk sch)
    (hD : ∀ k ∈ kinds, DeclOk decl at_ sch k) (hid : ∀ k, at_.idName k = none)
    (R : RefinesA kname decl at_ sch ι s d st) (A : AllInv sch s) (hc : Closed kname kinds st)
    (fuel : Nat) (body : Block) (kw : List (String × Val)) (v : Val) (st' : State)
    (h : runFunction (ctxOfA kname decl kinds sch) fuel body kw st = some (.ok (v, st'))) :
    (∃ ops ι', DomA decl at_ sch kinds s d ops ∧
      RefinesA kname decl at_ sch ι' (mRunA decl at_ sch ops s d).1 (mRunA decl at_ sch ops s d).2 st') ∧
    Closed kname kinds initState :=
  ⟨Pyx.Interp.program_refines_noid hk kinds hok hD hid R A hc fuel body kw v st' h, closed_init kinds⟩

/-! ### chain navigation over the refined store (Proofs/InterpNav.lean) -/

/-- one navigation step — the direct link, or the two-hop `_find_assoc_links` through an association class with its
    ordered-set union — returns on the named instance the named result in the same order; an unknown link is rejected
    on both sides.  Guard: distinct link keys per class. -/
theorem nav_step {sch : Pyx.Meta.Schema} (hk : Function.Injective kname) (kinds : List Nat)
    (R : Refines kname ι s st) (A : AllInv sch s)
    (hd : ∀ k, Pyx.Query.KeysDistinct (Pyx.Query.linkEntriesFrom k 0 sch)) {x : Nat} (hx : x < s.count)
    (stp : Pyx.Query.Step) :
    (∀ l, Pyx.Query.navigate sch s x stp.toKind stp.rel stp.phrase = some l →
        navStep (ctxOf kname kinds sch) st (ι x) (toStep kname stp) = .ok (l.map ι) ∧ ∀ y ∈ l, y < s.count) ∧
    (Pyx.Query.navigate sch s x stp.toKind stp.rel stp.phrase = none →
        ∃ e, navStep (ctxOf kname kinds sch) st (ι x) (toStep kname stp) = .error e) :=
  navigate_step_refines hk kinds R A hd hx stp

/-- a chain `h->K1[R1]->K2[R2]…` (`Pyx.Query.navSeq`, C09) over a handle of created instances: the Spec chain returns
    the named result in the same order, duplicates included; and `select many` de-duplicates alike -/
theorem nav_chain {sch : Pyx.Meta.Schema} (hk : Function.Injective kname) (kinds : List Nat)
    (R : Refines kname ι s st) (A : AllInv sch s)
    (hd : ∀ k, Pyx.Query.KeysDistinct (Pyx.Query.linkEntriesFrom k 0 sch))
    (steps : List Pyx.Query.Step) (h r : List Nat) (hl : ∀ x ∈ h, x < s.count)
    (hq : Pyx.Query.navSeq sch s h steps = some r) :
    navChain (ctxOf kname kinds sch) st (h.map ι) (steps.map (toStep kname)) = .ok (r.map ι) ∧
    (navChain (ctxOf kname kinds sch) st (h.map ι) (steps.map (toStep kname))).map dedup =
      .ok ((Pyx.Query.dedupFirst r).map ι) :=
  ⟨navChain_refines hk kinds R A hd steps h r hl hq, navMany_refines hk kinds R A hd steps h r hl hq⟩

end Store

/-! ## the operator tables of interpret.py -/

open Pyx.Gen.InterpOps in
/-- every entry of the two operator dict literals (as they are in the source NOW) denotes the operation `Spec`
    uses for that lexeme; the tables hold exactly the 13 + 6 lexemes the decoder knows; keys are normalised by
    `.lower()`; the operands are evaluated left then right and passed in that order -/
theorem ops_table :
    (∀ e ∈ binary, denoteBin helpers e = binOfLexeme e.lexeme ∧ (binOfLexeme e.lexeme).isSome = true) ∧
    (∀ e ∈ unary, denoteUn e = unOfLexeme e.lexeme ∧ (unOfLexeme e.lexeme).isSome = true) ∧
    binary.map (·.lexeme) = ["+", "-", "*", "/", "%", "<", "<=", ">", ">=", "!=", "==", "or", "and"] ∧
    unary.map (·.lexeme) = ["-", "+", "not", "cardinality", "empty", "not_empty"] ∧
    binaryKey = "node.operator.lower()" ∧ unaryKey = "node.operator.lower()" ∧
    binaryApply = "ops[operator](left_value, right_value)" ∧ unaryApply = "ops[operator](value)" ∧
    binaryOperands = ["left_value = self.accept(node.left).fget()", "right_value = self.accept(node.right).fget()"] ∧
    unaryOperands = ["value = self.accept(node.operand).fget()"] := by
  decide +kernel

/-- the decoder's lexeme tables are closed under the case normalisation the interpreter applies -/
theorem ops_table_lexemes_lower :
    (∀ op ∈ ["+", "-", "*", "/", "%", "<", "<=", ">", ">=", "!=", "==", "or", "and"], asciiLower op = op) ∧
    (∀ op ∈ ["-", "+", "not", "cardinality", "empty", "not_empty"], asciiLower op = op) := by
  decide +kernel

/-! ## non-vacuity: concrete programs meet the hypotheses -/

def C0 : Ctx :=
  { classes := [⟨"A", [⟨"n", .integer, false⟩]⟩, ⟨"B", [⟨"n", .integer, false⟩]⟩],
    assocs := [{ rel := "R1", src := "B", tgt := "A", srcPhrase := "", tgtPhrase := "", srcMany := true, tgtMany := false }] }

def st0 : State :=
  { live := fun c => if c = "A" then [0, 1] else [], next := fun c => if c = "A" then 2 else 0,
    attr := fun i _ => .int i.idx, links := fun _ => [], nextId := 1 }

def valOf (r : Option (Except Err (Val × State))) : Option Val :=
  match r with | some (.ok (v, _)) => some v | _ => none

/-- `i = 0; s = 0; while (i < 3) i = i + 1; if (i == 2) continue; end if; s = s + i; end while; return s;` -/
def progWhile : Block := [
  .assignVar "i" (.int 0), .assignVar "s" (.int 0),
  .whileS (.bin .lt (.var "i") (.int 3)) [
    .assignVar "i" (.bin .add (.var "i") (.int 1)),
    .ifS (.bin .eq (.var "i") (.int 2)) [.cont] [] none,
    .assignVar "s" (.bin .add (.var "s") (.var "i"))],
  .ret (some (.var "s"))]

example : valOf (runFunction C0 12 progWhile [] st0) = some (.int 4) := by decide +kernel
/-- fuel monotonicity has something to say: the same program is undefined with too little fuel -/
example : runFunction C0 3 progWhile [] st0 = none := by decide +kernel

/-- `select many as from instances of A where (selected.n >= 1); for each a in as create object instance b of B;
    relate b to a across R1; end for; select many bs from instances of B; return cardinality bs - 7 / -2;` -/
def progSelect : Block := [
  .selectFrom true "as" "A" (some (.bin .ge (.field .selected "n") (.int 1))),
  .forEach "a" "as" [.create (some "b") "B", .relate "b" "a" "R1" ""],
  .selectRelated true "bs" (.var "as") [⟨"B", "R1", ""⟩] none,
  .ret (some (.bin .sub (.un .card (.var "bs")) (.bin .div (.int 7) (.un .neg (.int 2)))))]

example : valOf (runFunction C0 12 progSelect [] st0) = some (.int 4) := by decide +kernel

/-- the initial state of the examples is well-formed, so `exec_preserves_wf` applies to them -/
example : WF st0 := by
  refine ⟨fun k s t h => by simp [st0] at h, fun k => by simp [st0], fun c => ?_, fun c n h => ?_⟩
  · show (if c = "A" then [0, 1] else ([] : List Nat)).Nodup
    by_cases hc : c = "A"
    · rw [if_pos hc]; decide
    · rw [if_neg hc]; exact List.nodup_nil
  · have h' : n ∈ (if c = "A" then [0, 1] else ([] : List Nat)) := h
    show n < (if c = "A" then 2 else 0)
    by_cases hc : c = "A"
    · rw [if_pos hc] at h' ⊢
      simp at h'; omega
    · rw [if_neg hc] at h'; cases h'

/-- a where clause with `selected` bound per candidate: the select finds the second instance -/
def checkSelect : Bool :=
  match (run C0 6).exec (.selectFrom false "a" "A" (some (.bin .eq (.field .selected "n") (.int 1))))
      { fr := mkFrame .function [] .none, st := st0 } with
  | some (.ok (_, c')) => decide (envLookup c'.fr.env "a" = some (.inst ⟨"A", 1⟩))
  | _ => false

example : checkSelect = true := by decide +kernel

/-- store / attribute refinement, non-vacuity (Proofs/InterpExamples.lean): the 1:M schema `schS` is `SchemaOk`, the class
    names `knameS` are injective, the history `histS` (an accepted relate, a rejected relate, an unrelate, a delete) is in
    the domain, the declarations `declS` are consistent with the schema (`DeclOk`) -/
example : Pyx.Meta.SchemaOk schS ∧ Dom' [0, 1] schS Pyx.Meta.init histS := schS_ok
example : Function.Injective knameS := knameS_inj
example : DeclOk declS atS schS 0 ∧ DeclOk declS atS schS 1 := declS_ok

/-- program execution meets the mechanism, non-vacuity — EVERY premise discharged: on the context of `schS` / `declS`
    (classes `K`, `KK`, id attribute `ID`) the program
    `create object instance a of K; create object instance b of KK; create object instance c of KK; relate a to b across R2;
     a.n = 5; unrelate a from b across R2; relate a to c across R2; delete object instance b; return a.n;`
    assigns no id attribute (`StmtOk`, proved statement by statement), run from the initial state it ends normally
    (value 5), so `program_refines` yields — unconditionally — the mechanism history and the correspondence -/
def progS : Block := [
  .create (some "a") "K", .create (some "b") "KK", .create (some "c") "KK",
  .relate "a" "b" "R2" "", .assignField (.var "a") "n" (.int 5),
  .unrelate "a" "b" "R2" "", .relate "a" "c" "R2" "", .delete "b",
  .ret (some (.field (.var "a") "n"))]

example : ∃ st' ops ι', runFunction (ctxOfA knameS declS [0, 1] schS) 12 progS [] initState = some (.ok (.int 5, st')) ∧
    DomA declS atS schS [0, 1] Pyx.Meta.init ⟨fun _ _ => .none⟩ ops ∧
    RefinesA knameS declS atS schS ι' (mRunA declS atS schS ops Pyx.Meta.init ⟨fun _ _ => .none⟩).1
      (mRunA declS atS schS ops Pyx.Meta.init ⟨fun _ _ => .none⟩).2 st' := by
  have ok_of_valOf : ∀ {r : Option (Except Err (Val × State))} {v : Val}, valOf r = some v →
      ∃ st', r = some (.ok (v, st')) := by
    intro r v h
    unfold valOf at h
    split at h
    · rename_i w st'; cases h; exact ⟨st', rfl⟩
    · cases h
  obtain ⟨st', h⟩ := ok_of_valOf (r := runFunction (ctxOfA knameS declS [0, 1] schS) 12 progS [] initState)
    (v := .int 5) (by decide +kernel)
  have hbody : ∀ s ∈ progS, StmtOk (fun name => ∀ k, atS.idName k ≠ some name) s := by
    intro s hs
    simp only [progS, List.mem_cons, List.not_mem_nil, or_false] at hs
    rcases hs with rfl | rfl | rfl | rfl | rfl | rfl | rfl | rfl | rfl
    all_goals first
      | exact StmtOk.create _ _
      | exact StmtOk.relate _ _ _ _
      | exact StmtOk.unrelate _ _ _ _
      | exact StmtOk.delete _
      | exact StmtOk.ret _
      | exact StmtOk.assignField _ _ _ (fun k => by simp [atS])
  obtain ⟨es, ops, _, hdom, _, R'⟩ := program_refines knameS_inj [0, 1] schS_ok.1 declS_all
    (refinesA_init knameS declS atS schS (fun _ => ⟨"", 0⟩) ⟨fun _ _ => .none⟩) (Pyx.Meta.allInv_init schS)
    (closed_init [0, 1]) 12 progS hbody [] (.int 5) st' h
  exact ⟨st', ops, _, h, hdom, R'⟩

/-- `history_refines`, every premise discharged, WITH a write to an id attribute: the explicit history
    new K, new KK, `KK#0.ID = 77`, relate, `K#0.n = 5`, unrelate succeeds from the initial state; its only id write
    carries 77 ≥ 0; so it is the image of a mechanism history and the end states correspond -/
def histE : List Eff := [
  .new "K", .new "KK", .set ⟨"KK", 0⟩ "ID" (.int 77), .relate ⟨"K", 0⟩ ⟨"KK", 0⟩ "R2" "",
  .set ⟨"K", 0⟩ "n" (.int 5), .unrelate ⟨"K", 0⟩ ⟨"KK", 0⟩ "R2" ""]

example : ∃ st' ops, applyEffs (ctxOfA knameS declS [0, 1] schS) histE initState = .ok st' ∧
    DomA declS atS schS [0, 1] Pyx.Meta.init ⟨fun _ _ => .none⟩ ops ∧
    RefinesA knameS declS atS schS
      (specRunA knameS declS atS (ctxOfA knameS declS [0, 1] schS) schS ops Pyx.Meta.init ⟨fun _ _ => .none⟩ (fun _ => ⟨"", 0⟩) initState).1
      (mRunA declS atS schS ops Pyx.Meta.init ⟨fun _ _ => .none⟩).1
      (mRunA declS atS schS ops Pyx.Meta.init ⟨fun _ _ => .none⟩).2 st' := by
  have hok : ∃ st', applyEffs (ctxOfA knameS declS [0, 1] schS) histE initState = .ok st' := by
    have : (applyEffs (ctxOfA knameS declS [0, 1] schS) histE initState).toBool = true := by decide +kernel
    cases h : applyEffs (ctxOfA knameS declS [0, 1] schS) histE initState with
    | ok st' => exact ⟨st', rfl⟩
    | error e => rw [h] at this; cases this
  obtain ⟨st', hes⟩ := hok
  have hid : ∀ e ∈ histE, IdWritesNonneg knameS atS e := by
    intro e he
    simp only [histE, List.mem_cons, List.not_mem_nil, or_false] at he
    rcases he with rfl | rfl | rfl | rfl | rfl | rfl
    · trivial
    · trivial
    · intro k _ _; exact ⟨77, rfl, by decide⟩
    · trivial
    · intro k _ hidn; simp [atS] at hidn
    · trivial
  obtain ⟨ops, hdom, _, R', _⟩ := history_refines knameS_inj [0, 1] schS_ok.1 declS_all
    (refinesA_init knameS declS atS schS (fun _ => ⟨"", 0⟩) ⟨fun _ _ => .none⟩) (Pyx.Meta.allInv_init schS)
    (closed_init [0, 1]) histE st' hes hid
  exact ⟨st', ops, hes, hdom, R'⟩

end PyxProps.C04

/-! ==========================================================================================================
  SOURCE TIE OF THE HANDLERS' STATEMENT STRUCTURE (builder interp-shape) — appended section
  translator/gen_interpshape.py re-reads, with `ast`, the bodies of `ActionWalker.accept_*` of bridgepoint/interpret.py into
  Gen/InterpShape.lean: one statement list per handler over named calls (find / install symbol, accept child [.fget()],
  domain.new / select_many / select_any, xtuml.relate / unrelate / delete, enter / leave block and scope, raise, try / except,
  if node.<flag>, the Python loops, the where closures, the operand evaluation and `ops[operator](…)`).
  Proofs/InterpShape.lean defines ONE generic interpreter of that IR over Spec's configurations (`Pyx.IShape.iCall / iStmt /
  iStmts`, for any IR value; a `Node` says what accepting each child does).  The theorems below state that the clauses of `Spec`
  ARE the interpretation of the IR generated from the current source — for every context, oracle (= every sub-result, every
  amount of fuel), configuration — so swapping the two relate calls of accept_RelateUsingNode, relating another pair, dropping
  leave_block in a where closure, testing another field than `node.many`, evaluating the right operand first, passing the
  operands the other way round, catching ContinueException outside the loop, or re-ordering expression and target of an
  assignment changes the IR and breaks these theorems before any test runs; a statement outside the translated fragment makes
  the generator raise (broken tie).  What is NOT in these equations: the meaning of the atoms (find_symbol = lookupVar, relate =
  State.relate, …: hand-modelled, digest-checked environment, validated by correspondence), accept_SelectRelated(Where)Node and
  the SymbolTable methods (their IR is generated and compared, no equation is proved about it).
  ========================================================================================================== -/
namespace PyxProps.C04
open Pyx.Interp Pyx.IShape Pyx.Gen.InterpShape

/-- relate / unrelate (+ using): which variables are looked up, in which order, WHICH PAIRS are related and in which order
    (using: first (from, using), then (using, to)), the phrase without its ticks.  Up to the text of a domain error (`noMsg`:
    the source looks all variables up before it uses the first, `Spec` checks each handle as it is looked up; an error result
    carries no configuration) -/
theorem relate_unrelate_as_in_source (C : Ctx) (rec : Oracle) (a b rel ph u : String) (c : Cfg) :
    noMsg (execStep C rec (.relate a b rel (stripTicks ph)) c) = noMsg (handlerS C (relNode a b rel ph "") accept_RelateNode c) ∧
    noMsg (execStep C rec (.unrelate a b rel (stripTicks ph)) c) =
      noMsg (handlerS C (relNode a b rel ph "") accept_UnrelateNode c) ∧
    noMsg (execStep C rec (.relateUsing a b rel (stripTicks ph) u) c) =
      noMsg (handlerS C (relNode a b rel ph u) accept_RelateUsingNode c) ∧
    noMsg (execStep C rec (.unrelateUsing a b rel (stripTicks ph) u) c) =
      noMsg (handlerS C (relNode a b rel ph u) accept_UnrelateUsingNode c) :=
  ⟨relate_eq C rec a b rel ph c, unrelate_eq C rec a b rel ph c, relateUsing_eq C rec a b rel ph u c,
   unrelateUsing_eq C rec a b rel ph u c⟩

/-- select from instances (+ where): `node.many` dispatches select_many / select_any; the where closure enters a block,
    installs `selected`, evaluates the clause, LEAVES the block and returns the clause's value; the result is installed under
    the variable name -/
theorem select_from_as_in_source (C : Ctx) (rec : Oracle) (many : Bool) (v cls : String) (wh : Expr) :
    execStep C rec (.selectFrom many v cls none) = handlerS C (selectFromNode many v cls none) accept_SelectFromNode ∧
    execStep C rec (.selectFrom many v cls (some wh)) =
      handlerS C (selectFromNode many v cls (some (rec.eval wh))) accept_SelectFromWhereNode :=
  ⟨selectFrom_eq C rec many v cls, selectFromWhere_eq C rec many v cls wh⟩

/-- break / continue / control stop / return: the exception raised; `return e` evaluates, stores the value in the walker's
    register, then raises; a bare `return` only raises -/
theorem control_as_in_source (C : Ctx) (rec : Oracle) (e : Expr) :
    execStep C rec .brk = handlerS C {} accept_BreakNode ∧
    execStep C rec .cont = handlerS C {} accept_ContinueNode ∧
    execStep C rec .stop = handlerS C {} accept_ControlNode ∧
    execStep C rec (.ret none) = handlerS C (returnNode none) accept_ReturnNode ∧
    execStep C rec (.ret (some e)) = handlerS C (returnNode (some (rec.eval e))) accept_ReturnNode :=
  ⟨break_eq C rec, continue_eq C rec, stop_eq C rec, returnBare_eq C rec, return_eq C rec e⟩

/-- statement list = the children in order, an exception ends it; block = enter_block, the list, leave_block — where the
    source SKIPS leave_block when an exception passes and `Spec` pops the block (`unwindBlock`: the one documented place where
    `Spec` states the language rule instead of the mechanism) -/
theorem sequence_block_as_in_source (C : Ctx) (rec : Oracle) (b : Block) :
    execList rec b = handlerS C { children := b.map (stmtChild rec) } accept_StatementListNode ∧
    execBlock rec b = unwindBlock (handlerS C (blockNode rec b) accept_BlockNode) :=
  ⟨execList_eq C rec b, execBlock_eq C rec b⟩

/-- body and invocation: enter_scope, the block with ReturnException and StopException caught (and nothing else: a break or
    continue that no loop caught leaves the walker), leave_scope; a callable runs in a new walker without any scope -/
theorem body_as_in_source (C : Ctx) (rec : Oracle) (kind : WalkerKind) (body : Block) (kw : List (String × Val)) (self : Val) :
    invoke rec kind body kw self = iInvoke C rec kind body kw self ∧
    iRunBody C rec body = (do M.setEnv [[]]; runBody rec body; M.setEnv []) :=
  ⟨invoke_eq C rec kind body kw self, iRunBody_eq C rec body⟩

/-- while: the condition is re-evaluated before every round; ContinueException and BreakException are caught around the
    block INSIDE the loop (continue: next round, break: leave the loop), every other exception passes; the next round is the
    oracle's (Spec's fuel) -/
theorem while_as_in_source (C : Ctx) (rec : Oracle) (c : Expr) (body : Block) :
    execStep C rec (.whileS c body) = handlerS C (whileNode rec c body) accept_WhileNode :=
  while_eq C rec c body

/-- for each: the set variable is looked up once, the loop variable installed per element, the block run with
    ContinueException / BreakException caught inside the loop -/
theorem for_each_as_in_source (C : Ctx) (rec : Oracle) (v setv : String) (body : Block) :
    execStep C rec (.forEach v setv body) = handlerS C (forEachNode rec v setv body) accept_ForEachNode :=
  forEach_eq C rec v setv body

/-- if / elif / else: the first true branch only; accept_ElIfListNode stops at the first child that returns True,
    accept_ElIfNode returns True exactly when its condition held, the else clause runs iff no branch was taken -/
theorem if_as_in_source (C : Ctx) (rec : Oracle) (c : Expr) (thn : Block) (elifs : List (Expr × Block)) (els : Option Block) :
    execStep C rec (.ifS c thn elifs els) = handlerS C (ifNode C rec c thn elifs els) accept_IfNode ∧
    (∀ cb, handlerT C (elifNode rec cb) accept_ElIfNode = elifSem rec cb) ∧
    (do let x ← elifListSem C rec elifs
        afterElifs rec els x) = execElifs rec elifs els :=
  ⟨if_eq C rec c thn elifs els, elif_eq C rec, elifList_then C rec elifs els⟩

/-- create (with / without variable) and delete -/
theorem create_delete_as_in_source (C : Ctx) (rec : Oracle) (x cls : String) :
    execStep C rec (.create (some x) cls) =
      handlerS C (strNode [("key_letter", cls), ("variable_name", x)]) accept_CreateObjectNode ∧
    execStep C rec (.create none cls) = handlerS C (strNode [("key_letter", cls)]) accept_CreateObjectNoVariableNode ∧
    execStep C rec (.delete x) = handlerS C (strNode [("variable_name", x)]) accept_DeleteNode :=
  ⟨create_eq C rec x cls, createNoVariable_eq C rec cls, delete_eq C rec x⟩

/-- assignment: the expression is evaluated BEFORE the target (whose handle, for `h.attr = e`, is evaluated then), the value
    goes through the target's setter -/
theorem assignment_as_in_source (C : Ctx) (rec : Oracle) (x : String) (h : Expr) (name : String) (e : Expr) :
    execStep C rec (.assignVar x e) = handlerS C (assignNode (rec.eval e) (pure (.var x))) accept_AssignmentNode ∧
    execStep C rec (.assignField h name e) =
      handlerS C (assignNode (rec.eval e) (fieldAccess rec h name)) accept_AssignmentNode :=
  ⟨assignVar_eq C rec x e, assignField_eq C rec h name e⟩

/-- operators: LEFT operand, then right, then `ops[operator](left_value, right_value)` (no short circuit: both operands are
    always evaluated); unary alike; `selected` is the symbol 'selected' -/
theorem operators_as_in_source (C : Ctx) (rec : Oracle) (bop : BinOp) (uop : UnOp) (l r : Expr) :
    evalStep C rec (.bin bop l r) = handlerE C (binNode bop (rec.eval l) (rec.eval r)) accept_BinaryOperationNode ∧
    evalStep C rec (.un uop l) = handlerE C (unNode uop (rec.eval l)) accept_UnaryOperationNode ∧
    evalStep C rec .selected = handlerE C {} accept_SelectedAccessNode :=
  ⟨binary_eq C rec bop l r, unary_eq C rec uop l, selected_eq C rec⟩

/-! non-vacuity: the generic interpreter RUNS the generated IR on concrete configurations and produces the links, the selected
    instance, the loop count and the value; and it is not a renaming of `Spec` — on statement structures OTHER than the
    generated ones (the mutations named above) it computes other results, so the equalities above are not equalities that any
    IR would satisfy -/

/-- a reflexive association: the pair list shows the ORDER of the relates -/
def CK : Ctx :=
  { classes := [⟨"K", []⟩],
    assocs := [{ rel := "R1", src := "K", tgt := "K", srcPhrase := "", tgtPhrase := "", srcMany := true, tgtMany := true }] }
def stK : State :=
  { live := fun c => if c = "K" then [0, 1, 2] else [], next := fun c => if c = "K" then 3 else 0,
    attr := fun i _ => .int i.idx, links := fun _ => [], nextId := 1 }
def cfgK : Cfg :=
  { fr := { mkFrame .function [] .none with
            env := [[("a", .inst ⟨"K", 0⟩), ("b", .inst ⟨"K", 1⟩), ("l", .inst ⟨"K", 2⟩), ("n", .int 0)]] }, st := stK }
def linksAfter (r : Res Out) : Option (List (Nat × Nat)) :=
  match r with | some (.ok (_, c)) => some ((c.st.links 0).map (fun p => (p.1.idx, p.2.idx))) | _ => none
def varAfter {α : Type} (r : Res α) (x : String) : Option Val :=
  match r with | some (.ok (_, c)) => envLookup c.fr.env x | _ => none
def depthAfter {α : Type} (r : Res α) : Option Nat :=
  match r with | some (.ok (_, c)) => some c.fr.env.length | _ => none
def errAfter {α : Type} (r : Res α) : Option String :=
  match r with | some (.error e) => some e.msg | _ => none

/-- `relate a to b across R1 using l`: (a, l) first, then (l, b) — as the theorem's two sides; the two calls swapped, or the
    pair (from, to) related, give another store -/
example : linksAfter (handlerS CK (relNode "a" "b" "R1" "''" "l") accept_RelateUsingNode cfgK) = some [(2, 0), (1, 2)] ∧
    linksAfter (execStep CK (run CK 0) (.relateUsing "a" "b" "R1" (stripTicks "''") "l") cfgK) = some [(2, 0), (1, 2)] ∧
    linksAfter (handlerS CK (relNode "a" "b" "R1" "" "l")
      [.assign "from_inst" (.findSymbol (.field "from_variable_name")), .assign "to_inst" (.findSymbol (.field "to_variable_name")),
       .assign "using_inst" (.findSymbol (.field "using_variable_name")),
       .expr (.relate "using_inst" "to_inst" (.field "rel_id") (.fieldNoTicks "phrase")),
       .expr (.relate "from_inst" "using_inst" (.field "rel_id") (.fieldNoTicks "phrase"))] cfgK) = some [(1, 2), (2, 0)] ∧
    linksAfter (handlerS CK (relNode "a" "b" "R1" "" "l")
      [.assign "from_inst" (.findSymbol (.field "from_variable_name")), .assign "to_inst" (.findSymbol (.field "to_variable_name")),
       .assign "using_inst" (.findSymbol (.field "using_variable_name")),
       .expr (.relate "from_inst" "to_inst" (.field "rel_id") (.fieldNoTicks "phrase")),
       .expr (.relate "using_inst" "to_inst" (.field "rel_id") (.fieldNoTicks "phrase"))] cfgK) = some [(1, 0), (1, 2)] := by
  decide +kernel

/-- `select any x from instances of K where (selected == b)`: the generated closure finds the second instance and leaves the
    scope as deep as it was; without `leave_block` every candidate tested leaves a block behind; testing `node.cardinality`
    (a field that is not the flag `many`) selects one instance where the program asked for many -/
def whSel : M Val := do
  let s ← lookupVar CK "selected"
  let b ← lookupVar CK "b"
  M.liftE (binop .eq s b)
example : varAfter (handlerS CK (selectFromNode false "x" "K" (some whSel)) accept_SelectFromWhereNode cfgK) "x" = some (.inst ⟨"K", 1⟩) ∧
    depthAfter (handlerS CK (selectFromNode false "x" "K" (some whSel)) accept_SelectFromWhereNode cfgK) = some 1 ∧
    depthAfter (handlerS CK (selectFromNode false "x" "K" (some whSel))
      [.defClosure "where" "selected" [.expr .enterBlock, .expr (.installSymbol (.lit "selected") "selected"),
         .assign "value" (.accept "where_clause"), .ret (.fget "value")],
       .ifNode "many" [.assign "handle" (.selectMany (.field "key_letter") (some "where"))]
         [.assign "handle" (.selectAny (.field "key_letter") (some "where"))],
       .expr (.installSymbol (.field "variable_name") "handle")] cfgK) = some 3 ∧
    varAfter (handlerS CK (selectFromNode true "x" "K" none) accept_SelectFromNode cfgK) "x" =
      some (.set [⟨"K", 0⟩, ⟨"K", 1⟩, ⟨"K", 2⟩]) ∧
    varAfter (handlerS CK (selectFromNode true "x" "K" none)
      [.ifNode "cardinality" [.assign "handle" (.selectMany (.field "key_letter") none)]
         [.assign "handle" (.selectAny (.field "key_letter") none)],
       .expr (.installSymbol (.field "variable_name") "handle")] cfgK) "x" = some (.inst ⟨"K", 0⟩) := by
  decide +kernel

/-- a loop body that counts and then continues: `for each` over three instances runs it three times; with ContinueException
    caught OUTSIDE the loop the first `continue` ends the loop -/
def countAndContinue : M (Out × Bool) := do
  let n ← lookupVar CK "n"
  let m ← M.liftE (binop .add n (.int 1))
  install "n" m
  pure (.cont, false)
def forNode : Node :=
  { str := fun f => ([("instance_variable_name", "k"), ("set_variable_name", "ks")].lookup f).getD ""
    acceptS := stmtChildAt "block" countAndContinue }
def cfgKs : Cfg := { cfgK with fr := { cfgK.fr with env := [[("ks", .set [⟨"K", 0⟩, ⟨"K", 1⟩, ⟨"K", 2⟩]), ("n", .int 0)]] } }
example : varAfter (handlerS CK forNode accept_ForEachNode cfgKs) "n" = some (.int 3) ∧
    varAfter (handlerS CK forNode
      [.assign "set_handle" (.findSymbol (.field "set_variable_name")),
       .tryExcept [.forIn "handle" "set_handle" [.expr (.installSymbol (.field "instance_variable_name") "handle"),
                                                  .expr (.accept "block")]]
         [(.continueExc, [.pass]), (.breakExc, [.pass])]] cfgKs) "n" = some (.int 1) := by
  decide +kernel

/-- operators: the LEFT operand is evaluated first (of two failing operands the left one's error is reported) and is the
    FIRST argument (5 - 3 = 2); right-first evaluation, or the arguments the other way round, are visible -/
example : errAfter (handlerE CK (binNode .sub (M.fail "left") (M.fail "right")) accept_BinaryOperationNode cfgK) = some "left" ∧
    errAfter (handlerE CK (binNode .sub (M.fail "left") (M.fail "right"))
      [.assign "ops" (.opsTable "binary"), .assign "operator" (.lowerField "operator"),
       .assign "right_value" (.acceptFget "right"), .assign "left_value" (.acceptFget "left"),
       .assign "value" (.applyOp "ops" "operator" ["left_value", "right_value"]), .ret (.property "value")] cfgK) = some "right" ∧
    (match handlerE CK (binNode .sub (pure (.int 5)) (pure (.int 3))) accept_BinaryOperationNode cfgK with
      | some (.ok (v, _)) => some v | _ => none) = some (.int 2) ∧
    (match handlerE CK (binNode .sub (pure (.int 5)) (pure (.int 3)))
      [.assign "ops" (.opsTable "binary"), .assign "operator" (.lowerField "operator"),
       .assign "left_value" (.acceptFget "left"), .assign "right_value" (.acceptFget "right"),
       .assign "value" (.applyOp "ops" "operator" ["right_value", "left_value"]), .ret (.property "value")] cfgK with
      | some (.ok (v, _)) => some v | _ => none) = some (.int (-2)) := by
  decide +kernel

/-- the theorems applied: on the concrete configuration the clause of `Spec` and the interpreted source agree on the store
    (relate … using), and a whole `if` with an elif list and an else clause is the interpreted accept_IfNode -/
example : noMsg (execStep CK (run CK 0) (.relateUsing "a" "b" "R1" (stripTicks "'x'") "l") cfgK) =
    noMsg (handlerS CK (relNode "a" "b" "R1" "'x'" "l") accept_RelateUsingNode cfgK) :=
  (relate_unrelate_as_in_source CK (run CK 0) "a" "b" "R1" "'x'" "l" cfgK).2.2.1
example : execStep CK (run CK 3) (.ifS (.bool false) [.brk] [(.bool false, [.cont]), (.bool true, [.stop])] (some [.brk])) =
    handlerS CK (ifNode CK (run CK 3) (.bool false) [.brk] [(.bool false, [.cont]), (.bool true, [.stop])] (some [.brk]))
      accept_IfNode :=
  (if_as_in_source CK (run CK 3) (.bool false) [.brk] [(.bool false, [.cont]), (.bool true, [.stop])] (some [.brk])).1

end PyxProps.C04

/-! ==========================================================================================================
  SOURCE TIE, second part (builder interp-shape): select related by, and the SymbolTable — appended section
  ========================================================================================================== -/
namespace PyxProps.C04
open Pyx.Interp Pyx.IShape Pyx.Gen.InterpShape

/-- select … related by (+ where): the handle is evaluated, `node.many` dispatches navigate_many / navigate_one (the kind of
    chain decides set / first when the chain is called), the loop `for step in self.accept(node.navigation_chain): chain =
    step(chain)` is `Spec`'s chain navigation (`navChain`; induction on the chain, for every continuation that reads the locals
    `chain` and `where` only), the where closure (enter_block, install 'selected', the clause, leave_block), the result of
    calling the chain is installed under the variable name -/
theorem select_related_as_in_source (C : Ctx) (rec : Oracle) (many : Bool) (v : String) (h : Expr) (chain : List NavStep)
    (wh : Expr) :
    execStep C rec (.selectRelated many v h chain none) =
      handlerS C (selRelNode many v (rec.eval h) chain none) accept_SelectRelatedNode ∧
    execStep C rec (.selectRelated many v h chain (some wh)) =
      handlerS C (selRelNode many v (rec.eval h) chain (some (rec.eval wh))) accept_SelectRelatedWhereNode :=
  ⟨selectRelated_eq C rec many v h chain, selectRelatedWhere_eq C rec many v h chain wh⟩

/-- the invariant that makes the source's symbol table and `Spec`'s agree: a name is held by at most one block of the scope
    (`install_symbol` overwrites a visible symbol where it is and creates a name only when NO block of the scope holds it).
    It holds when a body starts, and EVERY statement — any nesting, loops, where clauses, calls, any fuel — and every body
    keeps it (the induction of Proofs/InterpScope.lean carried out for an arbitrary preorder respected by install, pushBlock,
    popBlock, setRet: Proofs/InterpEnvInv.lean) -/
theorem scope_names_unique (C : Ctx) (n : Nat) :
    (∀ kind kw self, EnvUnique (mkFrame kind kw self).env) ∧
    (∀ s c o c', (run C n).exec s c = some (.ok (o, c')) → EnvUnique c.fr.env → EnvUnique c'.fr.env) ∧
    (∀ body c c', runBody (run C n) body c = some (.ok ((), c')) → EnvUnique c.fr.env → EnvUnique c'.fr.env) ∧
    (∀ env x v, EnvUnique env → EnvUnique (envInstall env x v)) :=
  ⟨unique_start, fun s c o c' => unique_run C n s c o c', fun body c c' => unique_body C n body c c', envInstall_unique⟩

/-- find_symbol: the source scans the blocks of the scope head in ENTRY order (outermost first: `symtab.findSearch`), `Spec`
    innermost first; under the invariant they find the same binding, and a miss goes to the domain's constants.  (Scanning in
    the other order is, under the invariant, the same function; the record's order is stated so that such a change is seen.) -/
theorem lookup_as_in_source (C : Ctx) (x : String) (c : Cfg) (hu : EnvUnique c.fr.env) :
    envLookup c.fr.env x = pyFind symtab c.fr.env.reverse x ∧
    lookupVar C x c = pyLookupVar symtab C x c ∧
    symtab.findSearch = .firstToLast ∧ symtab.installSearch = symtab.findSearch ∧ symtab.findMiss = .domainConstant :=
  ⟨envLookup_eq _ x hu, lookupVar_eq C x c hu, rfl, rfl, rfl⟩

/-- install_symbol: the first block IN ENTRY ORDER that holds the name is overwritten in place; a name no block holds is
    created in the LAST block (the innermost).  Under the invariant, on a scope with at least one block (without one Python
    raises IndexError and `Spec` creates a block: outside the guard), this is `Spec`'s envInstall -/
theorem install_as_in_source (env : Env) (x : String) (v : Val) (hu : EnvUnique env) (hne : env ≠ []) :
    (envInstall env x v).reverse = pyInstall symtab env.reverse x v :=
  envInstall_eq env x v hu hne

/-- enter_block appends a block, leave_block pops the last one, a new scope starts with one block -/
theorem blocks_as_in_source (env : Env) :
    (([] : List (String × Val)) :: env).reverse = pyEnterBlock symtab env.reverse ∧
    env.tail.reverse = pyLeaveBlock symtab env.reverse ∧
    (mkFrame .function [] .none).env.reverse = pyNewScope symtab :=
  blocks_eq env

/-! non-vacuity -/

/-- select many ks related by a->K[R1]: the interpreted source navigates the chain and installs the set; with navigate_one
    where the source says navigate_many the variable holds an instance instead of the set -/
def stKL : State := { stK with links := fun k => if k = 0 then [(⟨"K", 1⟩, ⟨"K", 0⟩), (⟨"K", 2⟩, ⟨"K", 0⟩)] else [] }
def cfgKL : Cfg := { cfgK with st := stKL }
example : varAfter (handlerS CK (selRelNode true "ks" (lookupVar CK "a") [⟨"K", "R1", ""⟩] none) accept_SelectRelatedNode cfgKL) "ks" =
      some (.set [⟨"K", 1⟩, ⟨"K", 2⟩]) ∧
    varAfter (handlerS CK (selRelNode true "ks" (lookupVar CK "a") [⟨"K", "R1", ""⟩] none)
      [.assign "handle" (.acceptFget "handle"),
       .ifNode "many" [.assign "chain" (.navigateOne "handle")] [.assign "chain" (.navigateMany "handle")],
       .forAccept "step" "navigation_chain" [.assign "chain" (.callLocal "step" ["chain"])],
       .expr (.installSymbolCall (.field "variable_name") "chain" [])] cfgKL) "ks" = some (.inst ⟨"K", 1⟩) := by
  decide +kernel

/-- the invariant is needed and the record matters: on a scope in which TWO blocks hold `x` (no run of `Spec` reaches one)
    the two search orders differ; creating a new name in the FIRST block instead of the last, or scanning last-to-first, is
    another table; on the scope of the examples (names unique) the theorems apply -/
def envXX : Env := [[("x", .int 1)], [("y", .int 0)], [("x", .int 2)]]
example : envLookup envXX "x" = some (.int 1) ∧ pyFind symtab envXX.reverse "x" = some (.int 2) ∧ ¬ EnvUnique envXX ∧
    pyFind { symtab with findSearch := .lastToFirst } envXX.reverse "x" = some (.int 1) ∧
    pyInstall symtab [[("y", .int 0)], []] "z" (.int 7) = [[("y", .int 0)], [("z", .int 7)]] ∧
    pyInstall { symtab with installMissAt := .first } [[("y", .int 0)], []] "z" (.int 7) = [[("z", .int 7), ("y", .int 0)], []] ∧
    pyInstall symtab [[("y", .int 0)], []] "y" (.int 7) = [[("y", .int 7)], []] := by
  refine ⟨by decide, by decide, by unfold EnvUnique; decide, by decide, by decide, by decide, by decide⟩
example : EnvUnique cfgK.fr.env ∧ cfgK.fr.env ≠ [] := ⟨by unfold EnvUnique; decide, by decide⟩
example : envLookup cfgK.fr.env "l" = pyFind symtab cfgK.fr.env.reverse "l" :=
  (lookup_as_in_source CK "l" cfgK (by unfold EnvUnique; decide)).1
example : (envInstall cfgK.fr.env "q" (.int 1)).reverse = pyInstall symtab cfgK.fr.env.reverse "q" (.int 1) :=
  install_as_in_source _ _ _ (by unfold EnvUnique; decide) (by decide)

end PyxProps.C04

/-! ==========================================================================================================
  SOURCE TIE, third part (builder interp-shape): literals, variable / field access, navigation step, and the WRAPPER
  `ActionWalker.accept` that catches xtuml.MetaException — appended section
  ========================================================================================================== -/
namespace PyxProps.C04
open Pyx.Interp Pyx.IShape Pyx.Gen.InterpShape

/-- literals: `int(node.value)`; `node.value[1:-1]` (the quotes are stripped: first and last character);
    `node.value.upper() == 'TRUE'` (any letter case) — the normalisations PyxModel/Interp/Decode.lean applies when it builds
    `Expr.int / .str / .bool` from the node (accept_RealNode is in the IR; reals are not modelled, no equation) -/
theorem literals_as_in_source (C : Ctx) (rec : Oracle) (v : String) :
    (∀ i, v.toInt? = some i → evalStep C rec (.int i) = handlerE C (strNode [("value", v)]) accept_IntegerNode) ∧
    evalStep C rec (.str (String.ofList ((v.toList.drop 1).dropLast))) = handlerE C (strNode [("value", v)]) accept_StringNode ∧
    evalStep C rec (.bool (asciiUpper v == "TRUE")) = handlerE C (strNode [("value", v)]) accept_BooleanNode :=
  ⟨fun i h => integer_eq C rec v i h, string_eq C rec v, boolean_eq C rec v⟩

/-- accept_VariableAccessNode is LAZY: the handler touches nothing and returns a property whose getter is
    `find_symbol(name)` and whose setter `install_symbol(name, ·)`; reading the variable is the getter called, assigning to it
    the setter called after the expression was evaluated -/
theorem variable_access_as_in_source (C : Ctx) (rec : Oracle) (x : String) (e : Expr) :
    handlerP C (strNode [("variable_name", x)]) accept_VariableAccessNode =
      pure (.lazy (lookupVar C x) (fun v => install x v)) ∧
    evalStep C rec (.var x) = (handlerP C (strNode [("variable_name", x)]) accept_VariableAccessNode >>= propGet) ∧
    execStep C rec (.assignVar x e) = (do
      let v ← rec.eval e
      let p ← handlerP C (strNode [("variable_name", x)]) accept_VariableAccessNode
      propSet v p
      pure .normal) :=
  ⟨variableAccess_eq C x, variableRead_eq C rec x, variableWrite_eq C rec x e⟩

/-- accept_FieldAccessNode evaluates the handle at once and returns a property; `getattr(handle, node.name)` /
    `setattr(handle, node.name, value)` run when fget / fset is called (atoms: `Spec`'s readField / writeField, which include the
    return_value register rule of the DerivedAttributeWalker override).  An EMPTY handle: `Spec` leaves the domain ("empty
    instance handle"); the source raises AttributeError, which is NOT an xtuml.MetaException, so the wrapper below does not
    swallow it: the run ends -/
theorem field_access_as_in_source (C : Ctx) (rec : Oracle) (h : Expr) (name : String) (e : Expr) :
    handlerP C (fieldNode C rec (rec.eval h) name) accept_FieldAccessNode = (do
      let hv ← rec.eval h
      pure (.lazy (do let i ← asInst hv; readField C rec i name) (fun v => do let i ← asInst hv; writeField C i name v))) ∧
    evalStep C rec (.field h name) = (handlerP C (fieldNode C rec (rec.eval h) name) accept_FieldAccessNode >>= propGet) ∧
    execStep C rec (.assignField h name e) = (do
      let v ← rec.eval e
      let p ← handlerP C (fieldNode C rec (rec.eval h) name) accept_FieldAccessNode
      propSet v p
      pure .normal) :=
  ⟨fieldAccess_eq C rec (rec.eval h) name, fieldRead_eq C rec h name, fieldWrite_eq C rec h name e⟩

/-- accept_NavigationStepNode: the closure navigates to `node.key_letter` across `node.rel_id` with the phrase WITHOUT its
    ticks — the `NavStep` Decode.lean builds and `select_related_as_in_source` folds over -/
theorem navigation_step_as_in_source (C : Ctx) (kl rel ph : String) :
    handlerP C (strNode [("key_letter", kl), ("rel_id", rel), ("phrase", ph)]) accept_NavigationStepNode =
      pure (.step ⟨kl, rel, stripTicks ph⟩) :=
  navigationStep_eq C kl rel ph

/-- the wrapper, IN THE DOMAIN: when the handler raises no xtuml.MetaException `self.accept(child)` is the child's handler, so
    the children the theorems above are stated with are the children the source runs (`wrappedChild … = stmtChild …`); and
    `default_accept` (a node without handler) only logs: None, configuration untouched -/
theorem accept_in_domain_as_in_source (rec : Oracle) (s : Stmt) (m : M Out) (disp : M (WRes Out)) :
    iWs (inDomain m) ActionWalker_accept = inDomain m ∧
    wrappedChild (inDomain (rec.exec s)) = stmtChild rec s ∧
    iWs disp ActionWalker_default_accept = pure .next :=
  ⟨accept_inDomain m, wrappedChild_inDomain rec s, default_accept_eq disp⟩

/-- the wrapper, OUT OF THE DOMAIN (what `Spec` does not model: it ends in a domain error there, and the harness drops or
    only error-compares such programs): a handler that raises an xtuml.MetaException (`WRes.raised`, in the configuration c' it
    had reached) makes `self.accept` return None IN c' — nothing propagates — and the statement list GOES ON with the next
    child: `swallowList` (a raised child counts as completed) is exactly the interpreted accept_StatementListNode over
    wrapped children -/
theorem accept_swallows_meta_exception (C : Ctx) (disp : M (WRes Out)) (ds : List (M (WRes Out))) (c c' : Cfg)
    (h : disp c = some (.ok (.raised, c'))) :
    iWs disp ActionWalker_accept c = some (.ok (.next, c')) ∧
    handlerS C { children := ds.map wrappedChild } accept_StatementListNode = swallowList ds ∧
    swallowList (disp :: ds) c = swallowList ds c' :=
  ⟨accept_meta disp c c' h, statementList_swallows C ds, by
    show (disp >>= _) c = _
    rw [bnd_ok h]⟩

/-! non-vacuity -/

/-- "'ab'" gives ab (without the slice the quotes stay); TrUe is true -/
example : (match handlerE CK (strNode [("value", "'ab'")]) accept_StringNode cfgK with | some (.ok (v, _)) => some v | _ => none) =
      some (.str "ab") ∧
    (match handlerE CK (strNode [("value", "'ab'")]) [.assign "value" (.fieldVal "value"), .ret (.property "value")] cfgK with
      | some (.ok (v, _)) => some v | _ => none) = some (.str "'ab'") ∧
    (match handlerE CK (strNode [("value", "TrUe")]) accept_BooleanNode cfgK with | some (.ok (v, _)) => some v | _ => none) =
      some (.bool true) := by
  decide +kernel

/-- a step that ignores the phrase is another step -/
example : (match handlerP CK (strNode [("key_letter", "K"), ("rel_id", "R1"), ("phrase", "'x'")]) accept_NavigationStepNode cfgK with
      | some (.ok (.step s, _)) => some s | _ => none) = some ⟨"K", "R1", "x"⟩ ∧
    (match handlerP CK (strNode [("key_letter", "K"), ("rel_id", "R1"), ("phrase", "'x'")])
        [.ret (.navClosure [(.field "key_letter"), (.field "rel_id"), (.lit "")])] cfgK with
      | some (.ok (.step s, _)) => some s | _ => none) = some ⟨"K", "R1", ""⟩ := by
  decide +kernel

/-- `n = n + 1; <a statement whose handler raises a MetaException after n = n + 1>; n = n + 1`: through the source's wrapper
    all three run (n = 3); a wrapper that does not catch (`except` another class) stops the list at the failure -/
def bump : M Unit := do
  let n ← lookupVar CK "n"
  let m ← M.liftE (binop .add n (.int 1))
  install "n" m
def okStmt : M (WRes Out) := do bump; pure (.ret .normal)
def failingStmt : M (WRes Out) := do bump; pure .raised
example : varAfter (swallowList [okStmt, failingStmt, okStmt] cfgK) "n" = some (.int 3) ∧
    varAfter (handlerS CK { children := [okStmt, failingStmt, okStmt].map wrappedChild } accept_StatementListNode cfgK) "n" =
      some (.int 3) ∧
    (match iWs failingStmt ActionWalker_accept cfgK with | some (.ok (.next, c')) => envLookup c'.fr.env "n" | _ => none) =
      some (.int 1) ∧
    (match iWs failingStmt [.tryExcept [.returnDispatch] "KeyError" [.logError]] cfgK with
      | some (.ok (.raised, _)) => true | _ => false) = true := by
  decide +kernel

end PyxProps.C04

/-! ==========================================================================================================
  SOURCE TIE, fourth part (builder 8): the handlers that no theorem above NAMED — the generator accept_NavigationListNode (the
  generic interpreter extended, additively, by children whose handlers return a step closure: `Node.pchildren`, `PV.pchild`),
  accept_BodyNode / accept_ElseNode / accept_ElIfListNode as equations of their own, accept_RealNode, the inventory of the
  translated handlers — and relate / unrelate (+ using) as EXACT equations (error text included) — appended section
  ========================================================================================================== -/
namespace PyxProps.C04
open Pyx.Interp Pyx.IShape Pyx.Gen.InterpShape

/-- accept_NavigationListNode (`for child in node.children: yield self.accept(child)`), every child a NavigationStepNode run
    through the interpreted accept_NavigationStepNode: for EVERY list of raw steps (key letter, rel id, phrase with its ticks)
    the generator yields, in the order of the children, one step closure per child, the phrase without its ticks — and it is
    `pure`: no configuration is touched, so Python's lazy interleaving of the generator with the consumer's loop is not
    observable.  Second clause: what it yields IS the field `steps "navigation_chain"` of the node `select_related_as_in_source`
    is stated with (so that theorem's chain is the chain the source delivers for the decoded steps) -/
theorem navigation_list_as_in_source (C : Ctx) (raws : List RawStep) (many : Bool) (v : String) (h : M Val) (wh : Option (M Val)) :
    handlerG C (navListNode C raws) accept_NavigationListNode = pure (raws.map (fun r => PV.step (decodeStep r))) ∧
    handlerG C (navListNode C raws) accept_NavigationListNode =
      pure (((selRelNode many v h (raws.map decodeStep) wh).steps "navigation_chain").map PV.step) ∧
    (∀ r : RawStep, decodeStep r = ⟨r.1, r.2.1, stripTicks r.2.2⟩) := by
  refine ⟨navigationList_eq C raws, ?_, fun _ => rfl⟩
  rw [navigationList_eq]
  simp only [selRelNode, ↓reduceIte, List.map_map]
  rfl

/-- accept_BodyNode, for every body and configuration: enter_scope (the scope head becomes one empty block), the block;
    ReturnException and StopException — and nothing else — are caught, then leave_scope; a BreakException / ContinueException
    that no loop caught passes through and leave_scope is NOT reached (`bodySem`; `body_as_in_source` says what `Spec` makes of
    that: a domain error) -/
theorem body_node_as_in_source (C : Ctx) (rec : Oracle) (body : Block) :
    handlerS C (bodyNode rec body) accept_BodyNode = (do
      M.setEnv [[]]
      let o ← execBlock rec body
      match o with
      | .brk => pure .brk
      | .cont => pure .cont
      | _ => do
        M.setEnv []
        pure .normal) :=
  bodyNode_eq C rec body

/-- accept_ElseNode is its block, with the block's outcome -/
theorem else_as_in_source (C : Ctx) (rec : Oracle) (b : Block) :
    handlerS C { acceptS := stmtChildAt "block" (blockChild rec b) } accept_ElseNode = execBlock rec b :=
  else_eq C rec b

/-- accept_ElIfListNode over children that are the interpreted accept_ElIfNode, as an equation of its own, for every chain:
    the children IN ORDER; the first whose condition holds runs its block and ends the search with True (later conditions are
    not evaluated); a control exception from a condition's block leaves the list; no condition true: None (`firstTaken`,
    spelled out in the second and third clause) -/
theorem elif_list_as_in_source (C : Ctx) (rec : Oracle) (cb : Expr × Block) (elifs : List (Expr × Block)) :
    elifListSem C rec elifs = firstTaken rec elifs ∧
    firstTaken rec [] = pure (.normal, false) ∧
    firstTaken rec (cb :: elifs) = (do
      let x ← elifSem rec cb
      match x.1 with
      | .normal => if x.2 then pure (.normal, true) else firstTaken rec elifs
      | o => pure (o, false)) :=
  ⟨elifList_eq C rec elifs, rfl, rfl⟩

/-- accept_RealNode (`float(node.value)`) is in the IR and OUTSIDE the modelled subset (`Val` has no reals, Decode.lean builds no
    real literal): the error ending is the content — on every node and configuration the interpretation is the domain error
    "reals are not modelled", nothing else -/
theorem real_literal_as_in_source (C : Ctx) (nd : Node) (c : Cfg) :
    handlerE C nd accept_RealNode c = some (.error ⟨"reals are not modelled"⟩) := by
  rw [real_eq]; rfl

/-- the handlers the translator found in the source NOW are exactly these 36 (a handler added to / removed from the translated
    classes changes the lists), each named by a theorem of this file -/
theorem handlers_inventory_as_in_source :
    handlerNames ++ handlerNames2 =
      ["accept_BodyNode", "accept_BlockNode", "accept_StatementListNode", "accept_ReturnNode", "accept_BreakNode",
       "accept_ContinueNode", "accept_ControlNode", "accept_CreateObjectNode", "accept_CreateObjectNoVariableNode",
       "accept_DeleteNode", "accept_RelateNode", "accept_RelateUsingNode", "accept_UnrelateNode", "accept_UnrelateUsingNode",
       "accept_SelectFromNode", "accept_SelectFromWhereNode", "accept_SelectRelatedNode", "accept_SelectRelatedWhereNode",
       "accept_SelectedAccessNode", "accept_ForEachNode", "accept_IfNode", "accept_ElIfListNode", "accept_ElIfNode",
       "accept_ElseNode", "accept_WhileNode", "accept_AssignmentNode", "accept_BinaryOperationNode", "accept_UnaryOperationNode",
       "accept_IntegerNode", "accept_RealNode", "accept_StringNode", "accept_BooleanNode", "accept_VariableAccessNode",
       "accept_FieldAccessNode", "accept_NavigationStepNode", "accept_NavigationListNode"] := by
  decide

/-- relate / unrelate (+ using) EXACTLY, the text of a domain error included (the upgrade of `relate_unrelate_as_in_source`,
    which holds up to that text).  The source looks ALL variables up before it checks the first handle, `Spec` checks each
    handle as it is looked up; so the two report different errors exactly when an earlier variable holds a non-instance and a
    later one is not set.  Hypotheses (`HoldsInst C c x`: IF x is found, it holds an instance handle): two variables — the
    from variable, needed only when the to variable is not set; using — the from variable when the to or the using variable is
    not set, and the to variable (the source relates (from, using) BEFORE it checks the to handle).  Without them the equation
    is false: see the example below -/
theorem relate_unrelate_exact_as_in_source (C : Ctx) (rec : Oracle) (a b rel ph u : String) (c : Cfg) :
    (((∃ e, lookupVar C b c = some (.error e)) → HoldsInst C c a) →
      execStep C rec (.relate a b rel (stripTicks ph)) c = handlerS C (relNode a b rel ph "") accept_RelateNode c ∧
      execStep C rec (.unrelate a b rel (stripTicks ph)) c = handlerS C (relNode a b rel ph "") accept_UnrelateNode c) ∧
    ((((∃ e, lookupVar C b c = some (.error e)) ∨ (∃ e, lookupVar C u c = some (.error e))) → HoldsInst C c a) →
      HoldsInst C c b →
      execStep C rec (.relateUsing a b rel (stripTicks ph) u) c = handlerS C (relNode a b rel ph u) accept_RelateUsingNode c ∧
      execStep C rec (.unrelateUsing a b rel (stripTicks ph) u) c =
        handlerS C (relNode a b rel ph u) accept_UnrelateUsingNode c) :=
  ⟨fun h => ⟨relate_exact C rec a b rel ph c h, unrelate_exact C rec a b rel ph c h⟩,
   fun ha hb => ⟨relateUsing_exact C rec a b rel ph u c ha hb, unrelateUsing_exact C rec a b rel ph u c ha hb⟩⟩

/-! non-vacuity -/

def stepsOf (r : Res (List PV)) : Option (List (Option NavStep)) :=
  match r with
  | some (.ok (l, _)) => some (l.map (fun p => match p with | .step s => some s | _ => none))
  | _ => none

/-- `->K[R1.'x']->KK[R2]`: two steps in the order of the children, the phrase without its ticks; a generator that breaks after
    its first yield, or one that yields nothing, is another chain -/
example : stepsOf (handlerG CK (navListNode CK [("K", "R1", "'x'"), ("KK", "R2", "")]) accept_NavigationListNode cfgK) =
      some [some ⟨"K", "R1", "x"⟩, some ⟨"KK", "R2", ""⟩] ∧
    stepsOf (handlerG CK (navListNode CK [("K", "R1", "'x'"), ("KK", "R2", "")])
      [.forChildren "child" [.yield_ (.acceptLocal "child"), .break_]] cfgK) = some [some ⟨"K", "R1", "x"⟩] ∧
    stepsOf (handlerG CK (navListNode CK [("K", "R1", "'x'"), ("KK", "R2", "")])
      [.forChildren "child" [.expr (.acceptLocal "child")]] cfgK) = some [] := by
  decide +kernel

/-- a body whose block ends with an uncaught `break`: the scope is still open (one block) — leave_scope was not reached; a body
    that returns leaves the scope -/
example : depthAfter (handlerS CK (bodyNode (run CK 3) [.brk]) accept_BodyNode cfgK) = some 1 ∧
    depthAfter (handlerS CK (bodyNode (run CK 3) [.ret none]) accept_BodyNode cfgK) = some 0 := by
  decide +kernel

/-- the hypotheses of `relate_unrelate_exact_as_in_source` are met on the configuration of the examples (`a`, `b` hold
    instances), and they are NEEDED: `relate n to zz across R1` with `n` an integer and `zz` not set — `Spec` reports the
    handle, the source the missing variable -/
def okValOf (r : Res Val) : Option Val := match r with | some (.ok (v, _)) => some v | _ => none
example : HoldsInst CK cfgK "a" ∧ HoldsInst CK cfgK "b" := by
  have ha : okValOf (lookupVar CK "a" cfgK) = some (.inst ⟨"K", 0⟩) := by decide +kernel
  have hb : okValOf (lookupVar CK "b" cfgK) = some (.inst ⟨"K", 1⟩) := by decide +kernel
  constructor
  · intro v h; rw [h] at ha; exact ⟨_, Option.some.inj ha⟩
  · intro v h; rw [h] at hb; exact ⟨_, Option.some.inj hb⟩
example : errAfter (execStep CK (run CK 0) (.relate "n" "zz" "R1" "") cfgK) = some "an instance handle is required" ∧
    errAfter (handlerS CK (relNode "n" "zz" "R1" "" "") accept_RelateNode cfgK) = some "variable zz is not set" := by
  decide +kernel

end PyxProps.C04
