import Proofs.LoadPerm
import Proofs.LoadApiRun
import Proofs.LoadClone
import Proofs.LoadDomain
import Proofs.LoadDecisions
import Proofs.LoadPhrase
import Proofs.LoadFuelBuilt
import Proofs.LoadDangling
import Proofs.LoadShapes
import Proofs.LoadShapesMore
import Gen.Sharing

/-!
# C03 — Loading links exactly the key-matching pairs, independent of input order

All statements are about the model `Pyx.Load` (PyxModel/Load.lean) of `xtuml/load.py` + `xtuml/meta.py`;
they quantify over every association, every population (any number of rows, any values) and every
statement list.  Guards, all explicit:

* `KeysOk a` — no attribute name is repeated inside one key list of the association (with repeats
  `dict(zip(..))` collapses pairs and "corresponding" is ambiguous); key lists may have any length,
  including zero.
* `build ss = some m` — the code does not raise (`accepted`, preserved by permutations: `accepted_perm`).
* `UniqNamesOk ss` — an identifier name is defined once per class; `InferAgree ss` — the INSERTs of a kind
  without CREATE TABLE all infer the same class (the property's inferred-schema domain).
-/

namespace PyxProps.C03
open Pyx.Load

/-- the property's predicate: all referential values of `s` are non-null and equal the corresponding
    identifying values of `t` -/
def Matches (a : AssocStmt) (s t : Row) : Prop :=
  ∀ p ∈ a.srcKeys.zip a.tgtKeys, isNull (s.get p.1) = false ∧ s.get p.1 = t.get p.2

theorem matchesB_iff_Matches (a : AssocStmt) (s t : Row) : matchesB a s t = true ↔ Matches a s t :=
  matchesB_iff a s t

/-- the null values: unset, the id 0, the empty string — not the integer 0, the real 0.0 or `False` -/
theorem isNull_spec (v : Val) : isNull v = true ↔ v = .none ∨ v = .id 0 ∨ v = .str "" := by
  cases v <;> simp [isNull]

/-- **tyName_case**: type names are case-insensitive, as the code's `.upper()` makes them: two spellings that agree
    after upper-casing denote the same type (or are both unknown) -/
theorem tyName_case (cs1 cs2 : List Char) (h : cs1.map upperChar = cs2.map upperChar) :
    Ty.ofChars cs1 = Ty.ofChars cs2 := by
  unfold Ty.ofChars
  rw [h]

example : Ty.ofChars ['u', 'n', 'i', 'q', 'u', 'e', '_', 'i', 'd'] = some .uniqueId ∧
    Ty.ofChars ['U', 'n', 'i', 'q', 'u', 'e', '_', 'I', 'd'] = some .uniqueId ∧
    Ty.ofChars ['s', 't', 'r', 'i', 'n', 'g'] = some .string ∧ Ty.ofChars ['S', 't', 'r', 'i', 'n', 'g'] = some .string ∧
    Ty.ofChars ['b', 'O', 'O', 'L', 'E', 'A', 'N'] = some .boolean ∧
    Ty.ofChars ['u', 'n', 'i', 'q', 'u', 'e', 'i', 'd'] = none := by decide

/-- **join_exact**: the loader's hashed index join links source row `i` and target row `j` — in both
    link directions — exactly when the key predicate holds for them; no other pair, no pair missed. -/
theorem join_exact (a : AssocStmt) (h : KeysOk a) (S T : List Row) (i j : Nat) :
    (j ∈ (hashJoin a S T).tgt i ↔ ∃ s t, S[i]? = some s ∧ T[j]? = some t ∧ Matches a s t) ∧
    (i ∈ (hashJoin a S T).src j ↔ ∃ s t, S[i]? = some s ∧ T[j]? = some t ∧ Matches a s t) := by
  rw [hashJoin_eq_nested a h]
  simp only [← matchesB_iff_Matches]
  exact ⟨mem_nestedJoin_tgt a S T i j, mem_nestedJoin_src a S T i j⟩

/-- **join_order**: partner lists are duplicate-free and in storage order (bucket order = target storage
    order; per-target source order = source storage order). -/
theorem join_order (a : AssocStmt) (h : KeysOk a) (S T : List Row) (z : Nat) :
    ((hashJoin a S T).tgt z).Pairwise (· < ·) ∧ ((hashJoin a S T).src z).Pairwise (· < ·) := by
  rw [hashJoin_eq_nested a h]
  exact ⟨nestedJoin_tgt_sorted a S T z, nestedJoin_src_sorted a S T z⟩

/-- **join_eq_nested**: hash join = nested-loop join, as ordered partner lists in both directions. -/
theorem join_eq_nested (a : AssocStmt) (h : KeysOk a) (S T : List Row) :
    hashJoin a S T = nestedJoin a S T :=
  hashJoin_eq_nested a h S T

/-- **cache_transparent**: sharing one index between all associations with the same target class and the
    same *set* of key attribute names (as `populate_connections` does) changes nothing: whatever valid
    cache the loop starts from, every association gets its nested-loop join. -/
theorem cache_transparent (rows : String → List Row) (c : Cache) (as : List AssocStmt)
    (hc : CacheOk rows c) (hk : ∀ a ∈ as, KeysOk a) :
    connectAll rows c as = as.map (fun a => nestedJoin a (rows a.srcKind) (rows a.tgtKind)) :=
  connectAll_eq_nested rows c as hc hk

/-- **build_links**: in a built metamodel every association, in definition order, carries exactly the
    nested-loop join of its source and target classes' instances. -/
theorem build_links (ss : List Stmt) (m : Model) (hb : build ss = some m)
    (hk : ∀ a ∈ popAssocs ss, KeysOk a) :
    m.assocs = (popAssocs ss).map (fun a =>
      (a, nestedJoin a (rowsOf m.classes a.srcKind) (rowsOf m.classes a.tgtKind))) := by
  unfold build at hb
  by_cases hacc : accepted ss
  · simp only [hacc, if_true, Option.some.injEq] at hb
    subst hb
    exact buildCore_assocs ss hk
  · simp [hacc] at hb

/-- linked(x, y) over association `a` in a built metamodel, on row *values* -/
def LinkedVals (m : Model) (a : AssocStmt) (x y : Row) : Prop :=
  ∃ L i j, (a, L) ∈ m.assocs ∧ (rowsOf m.classes a.srcKind)[i]? = some x ∧
    (rowsOf m.classes a.tgtKind)[j]? = some y ∧ j ∈ L.tgt i ∧ i ∈ L.src j

/-- **build_linked_iff**: a referring row and a referred row of a built metamodel are linked (in both
    directions) exactly when the association is defined, both rows exist and the key predicate holds. -/
theorem build_linked_iff (ss : List Stmt) (m : Model) (hb : build ss = some m)
    (hk : ∀ a ∈ popAssocs ss, KeysOk a) (a : AssocStmt) (x y : Row) :
    LinkedVals m a x y ↔
      a ∈ popAssocs ss ∧ x ∈ rowsOf m.classes a.srcKind ∧ y ∈ rowsOf m.classes a.tgtKind ∧ Matches a x y := by
  have hl := build_links ss m hb hk
  unfold LinkedVals
  rw [hl]
  simp only [List.mem_map, Prod.mk.injEq, ← matchesB_iff_Matches]
  constructor
  · rintro ⟨L, i, j, ⟨b, hb1, rfl, rfl⟩, hx, hy, ht, _⟩
    refine ⟨hb1, List.mem_of_getElem? hx, List.mem_of_getElem? hy, ?_⟩
    obtain ⟨s, t, hs, ht', hm⟩ := (mem_nestedJoin_tgt b _ _ i j).mp ht
    rw [hx] at hs; rw [hy] at ht'
    cases hs; cases ht'
    exact hm
  · rintro ⟨ha, hx, hy, hm⟩
    obtain ⟨i, hi⟩ := List.getElem?_of_mem hx
    obtain ⟨j, hj⟩ := List.getElem?_of_mem hy
    exact ⟨_, i, j, ⟨a, ha, rfl, rfl⟩, hi, hj,
      (mem_nestedJoin_tgt a _ _ i j).mpr ⟨x, y, hi, hj, hm⟩,
      (mem_nestedJoin_src a _ _ i j).mpr ⟨x, y, hi, hj, hm⟩⟩

/-- **build_perm**: statement lists that are permutations of each other are rejected together, and when
    accepted build equal classes (same attributes; the same identifiers and the same rows up to order),
    the same associations as a multiset, and the same link relation on rows. -/
theorem build_perm (s1 s2 : List Stmt) (hp : s1.Perm s2) (hu : UniqNamesOk s1) (hi : InferAgree s1)
    (hk : ∀ a ∈ popAssocs s1, KeysOk a) :
    (build s1).isSome = (build s2).isSome ∧
    ∀ m1 m2, build s1 = some m1 → build s2 = some m2 →
      (∀ k, ClsEquiv (findCls m1.classes k) (findCls m2.classes k)) ∧
      (m1.assocs.map (·.1)).Perm (m2.assocs.map (·.1)) ∧
      (∀ a x y, LinkedVals m1 a x y ↔ LinkedVals m2 a x y) := by
  have hacc := accepted_perm hp
  constructor
  · unfold build
    rw [hacc]
    by_cases h : accepted s2 <;> simp [h]
  · intro m1 m2 h1 h2
    have hk2 : ∀ a ∈ popAssocs s2, KeysOk a := fun a ha => hk a ((popAssocs_perm hp).mem_iff.mpr ha)
    have hl1 := build_linked_iff s1 m1 h1 hk
    have hl2 := build_linked_iff s2 m2 h2 hk2
    have ha1 := build_links s1 m1 h1 hk
    have ha2 := build_links s2 m2 h2 hk2
    unfold build at h1 h2
    by_cases hacc1 : accepted s1
    · have hacc2 : accepted s2 = true := by rw [← hacc]; exact hacc1
      simp only [hacc1, hacc2, if_true, Option.some.injEq] at h1 h2
      subst h1; subst h2
      refine ⟨?_, ?_, ?_⟩
      · intro k
        rw [findCls_buildCore, findCls_buildCore]
        exact clsSpec_perm hp hacc1 hu hi k
      · rw [ha1, ha2]
        simp only [List.map_map]
        have e : ∀ (s : List Stmt), ((fun p : AssocStmt × Links => p.1) ∘ fun a =>
            (a, nestedJoin a (rowsOf (buildCore s).classes a.srcKind) (rowsOf (buildCore s).classes a.tgtKind))) = id := by
          intro s; funext a; rfl
        rw [e, e, List.map_id, List.map_id]
        exact popAssocs_perm hp
      · intro a x y
        rw [hl1, hl2]
        have hr := fun k => rowsOf_perm hp hacc1 hu hi k
        rw [(popAssocs_perm hp).mem_iff, (hr a.srcKind).mem_iff, (hr a.tgtKind).mem_iff]
    · simp [hacc1] at h1

/-- **inDomain_perm**: the domain on which the model is claimed faithful to the code (`Pyx.Load.inDomain`, evaluated
    by the driver on every compared case) is closed under the permutations of `build_perm`. -/
theorem inDomain_perm (s1 s2 : List Stmt) (hp : s1.Perm s2) : inDomain s1 = inDomain s2 :=
  Pyx.Load.inDomain_perm hp

/-- **inDomain_guards**: the model's domain predicate — the one the driver evaluates on every compared case —
    implies the hypotheses of `build_perm` / `build_perm_ordered` / `join_exact`: identifier names unique per class,
    INSERTs of a kind without CREATE TABLE agree on the inferred class, no key list repeats an attribute name, and
    the statements are accepted. -/
theorem inDomain_guards (ss : List Stmt) (h : inDomain ss = true) :
    UniqNamesOk ss ∧ InferAgree ss ∧ (∀ a ∈ popAssocs ss, KeysOk a) ∧ (build ss).isSome = true := by
  obtain ⟨h1, h2, h3, h4⟩ := guards_of_inDomain ss h
  exact ⟨h1, h2, h3, by simp [build, h4]⟩

/-- ... so every K-compared case and each of its permutations satisfies `build_perm`'s conclusion outright -/
theorem build_perm_inDomain (s1 s2 : List Stmt) (hp : s1.Perm s2) (hd : inDomain s1 = true) :
    ∃ m1 m2, build s1 = some m1 ∧ build s2 = some m2 ∧
      (∀ k, ClsEquiv (findCls m1.classes k) (findCls m2.classes k)) ∧
      (m1.assocs.map (·.1)).Perm (m2.assocs.map (·.1)) ∧
      (∀ a x y, LinkedVals m1 a x y ↔ LinkedVals m2 a x y) := by
  obtain ⟨hu, hi, hk, hb⟩ := inDomain_guards s1 hd
  obtain ⟨hsome, hall⟩ := build_perm s1 s2 hp hu hi hk
  obtain ⟨m1, hm1⟩ := Option.isSome_iff_exists.mp hb
  obtain ⟨m2, hm2⟩ := Option.isSome_iff_exists.mp (by rw [← hsome]; exact hb)
  exact ⟨m1, m2, hm1, hm2, hall m1 m2 hm1 hm2⟩

/-- **build_perm_ordered**: if moreover the permutation keeps the relative order of the INSERTs of every
    class, the instances of every class are in the same order and every association carries the same
    ordered partner lists (instances named by their position). -/
theorem build_perm_ordered (s1 s2 : List Stmt) (hp : s1.Perm s2)
    (hord : ∀ k, insOf s1 k = insOf s2 k) (hk : ∀ a ∈ popAssocs s1, KeysOk a)
    (m1 m2 : Model) (h1 : build s1 = some m1) (h2 : build s2 = some m2) :
    (∀ k, rowsOf m1.classes k = rowsOf m2.classes k) ∧
    (∀ a L1 L2, (a, L1) ∈ m1.assocs → (a, L2) ∈ m2.assocs → L1 = L2) := by
  have hk2 : ∀ a ∈ popAssocs s2, KeysOk a := fun a ha => hk a ((popAssocs_perm hp).mem_iff.mpr ha)
  have ha1 := build_links s1 m1 h1 hk
  have ha2 := build_links s2 m2 h2 hk2
  have hacc := accepted_perm hp
  unfold build at h1 h2
  by_cases hacc1 : accepted s1
  · have hacc2 : accepted s2 = true := by rw [← hacc]; exact hacc1
    simp only [hacc1, hacc2, if_true, Option.some.injEq] at h1 h2
    subst h1; subst h2
    have hrows : ∀ k, rowsOf (buildCore s1).classes k = rowsOf (buildCore s2).classes k :=
      fun k => rowsOf_eq_of_order hp hacc1 k (hord k)
    refine ⟨hrows, ?_⟩
    intro a L1 L2 hm1 hm2
    rw [ha1] at hm1
    rw [ha2] at hm2
    simp only [List.mem_map, Prod.mk.injEq] at hm1 hm2
    obtain ⟨b1, _, rfl, rfl⟩ := hm1
    obtain ⟨b2, _, hb2, rfl⟩ := hm2
    subst hb2
    rw [hrows, hrows]
  · simp [hacc1] at h1

/-- **input_split**: the statements a loader has accumulated over any sequence of `input` calls are the
    concatenation of the parts, whatever the partition; so two partitions of the same sequence build the
    same metamodel, and (with `build_perm`) any distribution of the statements over calls / files /
    directory trees / zip members read in any order builds an equivalent one. -/
theorem input_split (l : Loader) (parts : List (List Stmt)) :
    Loader.inputs l parts = l ++ parts.flatten := by
  unfold Loader.inputs
  induction parts generalizing l with
  | nil => simp
  | cons p ps ih => simp [List.foldl_cons, ih, Loader.input, List.append_assoc]

theorem input_split_build (parts1 parts2 : List (List Stmt)) (h : parts1.flatten = parts2.flatten) :
    build (Loader.inputs [] parts1) = build (Loader.inputs [] parts2) := by
  rw [input_split, input_split, h]

theorem input_split_perm (parts1 parts2 : List (List Stmt)) (h : parts1.flatten.Perm parts2.flatten) :
    (Loader.inputs [] parts1).Perm (Loader.inputs [] parts2) := by
  rw [input_split, input_split]
  simpa using h

/-- **api_equiv**: the rows created through `MetaModel.new` with their referential values (model `apiBuild` of
    `MetaClass.new`, its batch relate, `relate`, `_find_link` and the cardinality-checked `Link.connect`, as the
    code is now) raise nothing and yield exactly the links — same ordered partner lists, both directions — and the
    same stored rows as loading the schema followed by the INSERTs of the same rows, under the guards `ApiGuards`:
    referred rows first — ROW-wise: when a row of a referred class is created, no row created before it refers
    to it (any topological order of the rows; class by class is a special case, `referredFirst_of_classwise`);
    no cardinality-violating duplicates (the API relates with the cardinality check, the loader connects unchecked); key lists non-empty (`new` never relates over an empty key list), without
    repeats; no reflexive association; CHAINED KEYS allowed — an identifying attribute that is itself referential in
    its class is read through the chain of referential properties — provided on the loaded metamodel every read
    ends within `readBound ss` steps, the number of (class, attribute) pairs plus the number of classes
    (`readsTerminate`: a schema-only sufficient condition for "no cyclic chain of key attributes") and the
    identifying values of every referred row that some row refers to can be read back (`resolved`: the referred
    row's own references are not dangling — the guard the open finding `api-dangling-chained-key` violates, see
    `dangling_key_exact`; the cardinality guards are the ones `api-cardinality-rejected` violates, see
    `cardinality_exact`); without chained keys both hold (`reads_of_noChain`); and
    `_find_link(referred, referring, rel, link.phrase)` answering with the association itself (`ResolvesAt`) —
    the guard that the open finding `api-phrased-direction` violates for associations whose ends carry
    different phrases. -/
theorem api_equiv (ss : List Stmt) (order : List (String × List Val)) (g : ApiGuards ss order) :
    (apiBuild ss order).2 = order.map (fun _ => Outcome.ok) ∧
    (apiBuild ss order).1.assocs = (buildCore (ss ++ insertsOf order)).assocs ∧
    (∀ k, rowsOf (apiBuild ss order).1.classes k =
      (rowsOf (buildCore (ss ++ insertsOf order)).classes k).map (stripRow (referential (popAssocs ss) k))) := by
  obtain ⟨m', hrun, inv⟩ := apiRun_spec ss order g order [] (schemaModel ss) rfl (apiInv_init ss)
  have hb : apiBuild ss order = (m', order.map (fun _ => Outcome.ok)) := hrun
  have hk : ∀ a ∈ popAssocs (ss ++ insertsOf order), KeysOk a := by
    intro a ha
    rw [popAssocs_append, popAssocs_inserts, List.append_nil] at ha
    exact (g.keys a ha).1
  refine ⟨by rw [hb], ?_, ?_⟩
  · rw [hb, buildCore_assocs _ hk, popAssocs_append, popAssocs_inserts, List.append_nil]
    simp only [inv.assocs, rowsOf_loaded ss order g]
  · intro k
    rw [hb, rowsOf_loaded ss order g]
    exact inv.rows k

/-- **clone_equiv**: load the schema and the INSERTs of the rows, then clone every loaded instance — in the order
    of the rows, named by (kind, position in the class's storage) — into an empty metamodel with the same schema
    (model `cloneBuild`: `getattr` of every attribute through the chain of referential properties that
    `Association.formalize` installs, then `new` with the values read).  Under the guards of `api_equiv` nothing
    is raised and the clone carries exactly the loader's links, same ordered partner lists in both directions.
    (A dangling or null referential value reads `None` on the loaded instance; `readVal_spec` shows that this
    never changes which pairs match.) -/
theorem clone_equiv (ss : List Stmt) (order : List (String × List Val)) (g : ApiGuards ss order) :
    (cloneBuild (ss ++ insertsOf order) (positions order)).2 = order.map (fun _ => Outcome.ok) ∧
    (cloneBuild (ss ++ insertsOf order) (positions order)).1.assocs = (buildCore (ss ++ insertsOf order)).assocs := by
  have hclone : cloneBuild (ss ++ insertsOf order) (positions order) = apiBuild ss (readOrder ss order) := by
    unfold cloneBuild apiBuild positions readOrder
    rw [schemaModel_append_inserts]
    exact cloneRun_eq ss order g order [] _ rfl
  have g' := apiGuards_readOrder ss order g
  obtain ⟨m', hrun, inv⟩ := apiRun_spec ss (readOrder ss order) g' (readOrder ss order) [] (schemaModel ss) rfl
    (apiInv_init ss)
  have hb : apiBuild ss (readOrder ss order) = (m', (readOrder ss order).map (fun _ => Outcome.ok)) := hrun
  rw [hclone, hb]
  refine ⟨?_, ?_⟩
  · have hlen : (readOrder ss order).length = order.length := by
      have := congrArg List.length (relabelFrom_map_fst (readArgs ss order) order [])
      simpa [readOrder] using this
    simp only
    rw [List.map_const', List.map_const', hlen]
  · simp only
    rw [inv.assocs]
    have := loaded_assocs ss order g
    unfold loaded at this
    rw [this]
    apply List.map_congr_left
    intro a ha
    rw [nestedJoin_readOrder ss order g a ha]

/-- creating the rows class by class, referred classes first, is a special case of the row-wise guard -/
theorem referredFirst_of_classwise (ss : List Stmt) (order : List (String × List Val)) (a : AssocStmt)
    (h : ∀ pre o suf, order = pre ++ o :: suf → o.1 = a.srcKind → ∀ r ∈ suf, r.1 ≠ a.tgtKind) :
    ∀ pre o suf, order = pre ++ o :: suf → o.1 = a.tgtKind →
      ∀ s ∈ rawRows ss pre a.srcKind, matchesB a s (rawRow ss o) = false := by
  intro pre o suf hord hk s hs
  exfalso
  unfold rawRows at hs
  obtain ⟨r, hr, _⟩ := List.mem_map.mp hs
  obtain ⟨hrm, hrk⟩ := List.mem_filter.mp hr
  obtain ⟨p1, p2, hp⟩ := List.append_of_mem hrm
  have hord' : order = p1 ++ r :: (p2 ++ o :: suf) := by rw [hord, hp]; simp
  exact h p1 r (p2 ++ o :: suf) hord' (by simpa using hrk) o (by simp) hk

/-- a sufficient condition for the guard `resolves`: relationship numbers are not reused and both ends of
    every association carry the same phrase (e.g. none) -/
theorem resolves_of_plain (as : List AssocStmt) (hrel : (as.map (·.rel)).Nodup)
    (hph : ∀ a ∈ as, a.srcPhrase = a.tgtPhrase) :
    ∀ n a, as[n]? = some a → ResolvesAt as n a := by
  intro n a hn
  unfold ResolvesAt findLink
  have key : ∀ (l : List AssocStmt) (k : Nat), (l.map (·.rel)).Nodup → (∀ b ∈ l, b.srcPhrase = b.tgtPhrase) →
      ∀ n, l[n]? = some a →
      findLinkFrom a.tgtKind a.srcKind a.rel a.srcPhrase k l = some (k + n, false) := by
    intro l
    induction l with
    | nil => intro k _ _ n hn; simp at hn
    | cons b rest ih =>
      intro k hnd hp n hn
      cases n with
      | zero =>
        simp only [List.getElem?_cons_zero, Option.some.injEq] at hn
        subst hn
        simp [findLinkFrom, hp b List.mem_cons_self]
      | succ n =>
        simp only [List.getElem?_cons_succ] at hn
        have ha : a ∈ rest := List.mem_of_getElem? hn
        simp only [List.map_cons, List.nodup_cons, List.mem_map, not_exists, not_and] at hnd
        have hne : b.rel ≠ a.rel := fun e => hnd.1 a ha e.symm
        simp only [findLinkFrom, ne_eq, hne, not_false_eq_true, if_true]
        rw [ih (k + 1) hnd.2 (fun c hc => hp c (List.mem_cons_of_mem _ hc)) n hn]
        congr 2
        omega
  have := key as 0 hrel hph n hn
  simpa using this

/-! ### the open finding `api-phrased-direction`, as a proved statement about the model

`MetaClass.new` relates the new instance by `relate(other_inst, inst, link.rel_id, link.phrase)` with the phrase of
the link that STARTS at the new instance's class, while `_find_link` compares the phrase with the link that starts
at the FIRST argument's class.  The statements below say exactly for which associations that resolves wrongly. -/

/-- **phrased_direction_exact**: on a schema inside the domain (in particular: no two links of a class filed under
    the same (class, relationship, phrase) key) the guard `resolves` of `api_equiv` holds for an association if and
    only if its two ends carry the SAME phrase — so the API route is proved equal to the loader exactly on the
    same-phrase associations, and ... -/
theorem phrased_direction_exact (ss : List Stmt) (hd : inDomain ss = true) (n : Nat) (a : AssocStmt)
    (hn : (popAssocs ss)[n]? = some a) :
    ResolvesAt (popAssocs ss) n a ↔ a.srcPhrase = a.tgtPhrase :=
  resolves_iff_same_phrase _ (linkKeysOk_of_inDomain ss hd) n a hn

theorem phrased_direction_schema (ss : List Stmt) (hd : inDomain ss = true) :
    (∀ n a, (popAssocs ss)[n]? = some a → ResolvesAt (popAssocs ss) n a) ↔
      ∀ a ∈ popAssocs ss, a.srcPhrase = a.tgtPhrase :=
  resolves_all_iff _ (linkKeysOk_of_inDomain ss hd)

/-- ... a REFLEXIVE association can never be resolved (its two links are filed under the same classes and number,
    so inside the domain its phrases differ); alone with its relationship number, every `relate` that `new` makes
    for it connects the pair the wrong way round — the referred instance `j` as the referring one -/
theorem phrased_direction_reflexive (m : Model) (hk : LinkKeysOk (m.assocs.map (·.1))) (n : Nat) (a : AssocStmt)
    (L : Links) (hn : m.assocs[n]? = some (a, L)) (hrefl : a.srcKind = a.tgtKind)
    (honly : ∀ k b, (m.assocs.map (·.1))[k]? = some b → b.rel = a.rel → k = n) (j i : Nat) :
    ¬ ResolvesAt (m.assocs.map (·.1)) n a ∧
    relate m a.tgtKind j a.srcKind i a.rel a.srcPhrase =
      ({ m with assocs := updateAt m.assocs n (fun p => (p.1, (relateAt a L i j).1)) },
       if (relateAt a L i j).2 then .ok else .relateError) :=
  ⟨reflexive_not_resolved _ hk n a (by simp [hn]) hrefl, relate_reflexive_reversed m hk n a L hn hrefl honly j i⟩

/-- ... and a NON-reflexive association with different phrases, alone with its relationship number, makes every
    such `relate` raise UnknownLinkException (with another association of the same number between the same classes
    the link can instead land on that one: `phrased_witness_twin`) -/
theorem phrased_direction_unknown (m : Model) (n : Nat) (a : AssocStmt)
    (hn : (m.assocs.map (·.1))[n]? = some a) (hnr : a.srcKind ≠ a.tgtKind) (hph : a.srcPhrase ≠ a.tgtPhrase)
    (honly : ∀ k b, (m.assocs.map (·.1))[k]? = some b → b.rel = a.rel → k = n) (j i : Nat) :
    relate m a.tgtKind j a.srcKind i a.rel a.srcPhrase = (m, .unknownLink) :=
  relate_phrased_unknown m n a hn hnr hph honly j i

/-! negation witnesses: three schemas inside the domain on which `new` and the loader differ -/

/-- reflexive: P(2) refers to P(1) as its parent -/
def phReflSchema : List Stmt :=
  [ .cls "P" [("Id", .integer), ("Parent", .integer)],
    .assoc ⟨"R1", "P", true, true, ["Parent"], "child", "P", false, true, ["Id"], "parent"⟩ ]
def phReflOrder : List (String × List Val) := [("P", [.int 1, .int 0]), ("P", [.int 2, .int 1])]

/-- **phrased_witness_reflexive**: the loader links row 1 (the child) to row 0 (its parent); `new` raises nothing
    and links row 0 to row 1 — the reverse direction -/
theorem phrased_witness_reflexive :
    inDomain (phReflSchema ++ insertsOf phReflOrder) = true ∧
    (apiBuild phReflSchema phReflOrder).2 = [.ok, .ok] ∧
    ((buildCore (phReflSchema ++ insertsOf phReflOrder)).assocs.map (fun p => (p.2.tgt 0, p.2.tgt 1, p.2.src 0, p.2.src 1)))
      = [([], [0], [1], [])] ∧
    ((apiBuild phReflSchema phReflOrder).1.assocs.map (fun p => (p.2.tgt 0, p.2.tgt 1, p.2.src 0, p.2.src 1)))
      = [([1], [], [], [0])] := by decide

def phUnkSchema : List Stmt :=
  [ .cls "A" [("Id", .integer), ("B_Id", .integer)], .cls "B" [("Id", .integer)],
    .assoc ⟨"R1", "A", true, true, ["B_Id"], "owns", "B", false, true, ["Id"], "is owned by"⟩ ]
def phUnkOrder : List (String × List Val) := [("B", [.int 1]), ("A", [.int 5, .int 1])]

/-- **phrased_witness_unknown**: different phrases, non-reflexive: the loader links the pair, `new` raises
    UnknownLinkException -/
theorem phrased_witness_unknown :
    inDomain (phUnkSchema ++ insertsOf phUnkOrder) = true ∧
    (apiBuild phUnkSchema phUnkOrder).2 = [.ok, .unknownLink] ∧
    ((buildCore (phUnkSchema ++ insertsOf phUnkOrder)).assocs.map (fun p => (p.2.tgt 0, p.2.src 0))) = [([0], [0])] ∧
    ((apiBuild phUnkSchema phUnkOrder).1.assocs.map (fun p => (p.2.tgt 0, p.2.src 0))) = [([], [])] := by decide

/-- two associations with the same number between the same classes, phrases crossed -/
def phTwinSchema : List Stmt :=
  [ .cls "A" [("Id", .integer), ("B1", .integer), ("B2", .integer)], .cls "B" [("Id", .integer)],
    .assoc ⟨"R1", "A", true, true, ["B1"], "x", "B", false, true, ["Id"], "y"⟩,
    .assoc ⟨"R1", "A", true, true, ["B2"], "y", "B", false, true, ["Id"], "x"⟩ ]
def phTwinOrder : List (String × List Val) := [("B", [.int 1]), ("B", [.int 2]), ("A", [.int 5, .int 1, .int 2])]

/-- **phrased_witness_twin**: nothing is raised, but each link lands on the OTHER association -/
theorem phrased_witness_twin :
    inDomain (phTwinSchema ++ insertsOf phTwinOrder) = true ∧
    (apiBuild phTwinSchema phTwinOrder).2 = [.ok, .ok, .ok] ∧
    ((buildCore (phTwinSchema ++ insertsOf phTwinOrder)).assocs.map (fun p => p.2.tgt 0)) = [[0], [1]] ∧
    ((apiBuild phTwinSchema phTwinOrder).1.assocs.map (fun p => p.2.tgt 0)) = [[1], [0]] := by decide

/-! ### the fuel of attribute reads -/

/-- **fuel_sufficient**: a read of an attribute through the chain of referential properties is the iteration of a
    deterministic step on (class, instance, attribute); a read that ends never visits a state twice, and on a
    metamodel with well-formed links every state after the first is one of the (class, row, attribute) triples of
    the metamodel — so a read that ends with SOME fuel ends with `fuelOf m`, the fuel the model runs with: the
    model's `recursionError` stands for a read that never ends (a cyclic chain), nothing else.  (CPython itself
    gives up at its recursion limit — about 300 hops with the default limit of 1000 frames — also on an acyclic
    chain that long; the model does not limit the depth, and the generated populations stay far below it.) -/
theorem fuel_sufficient (m : Model) (hwf : LinksWf m) (n : Nat) (k : String) (i : Nat) (x : String) (v : Val)
    (h : readAttr m n k i x = some v) : readAttr m (fuelOf m) k i x = some v :=
  fuelOf_sufficient m hwf n k i x v h

/-- every metamodel the loader builds has well-formed links (the source metamodel of `clone`) -/
theorem fuel_sufficient_built (ss : List Stmt) (hb : (build ss).isSome = true) (hk : ∀ a ∈ popAssocs ss, KeysOk a)
    (n : Nat) (k : String) (i : Nat) (x : String) (v : Val) (h : readAttr (buildCore ss) n k i x = some v) :
    readAttr (buildCore ss) (fuelOf (buildCore ss)) k i x = some v := by
  have hacc : accepted ss = true := by
    unfold build at hb
    by_cases ha : accepted ss
    · exact ha
    · simp [ha] at hb
  exact fuelOf_sufficient_built ss hacc hk n k i x v h

/-- the audit's schema: acyclic, two classes, a read of four steps — inside the guard's bound `readBound` (6) -/
def fuelSchema : List Stmt :=
  [ .cls "A" [("x", .integer), ("z", .integer)], .cls "B" [("y", .integer), ("w", .integer)],
    .assoc ⟨"R1", "A", true, true, ["x"], "", "B", false, true, ["y"], ""⟩,
    .assoc ⟨"R2", "B", true, true, ["y"], "", "A", false, true, ["z"], ""⟩,
    .assoc ⟨"R3", "A", true, true, ["z"], "", "B", false, true, ["w"], ""⟩ ]
def fuelOrder : List (String × List Val) :=
  [ ("B", [.int 0, .int 7]), ("A", [.int 0, .int 7]), ("B", [.int 7, .int 0]), ("A", [.int 7, .int 0]) ]
example : inDomain (fuelSchema ++ insertsOf fuelOrder) = true := by decide
example : readBound fuelSchema = 6 ∧ (popClasses fuelSchema).length = 2 := by decide
/-- `fuel_sufficient_built` applied: the four-step read of the audit's schema ends with the model's own fuel -/
example : readAttr (buildCore (fuelSchema ++ insertsOf fuelOrder)) (fuelOf (buildCore (fuelSchema ++ insertsOf fuelOrder)))
    "A" 1 "x" = some (.int 7) :=
  fuel_sufficient_built (fuelSchema ++ insertsOf fuelOrder) (by decide)
    (inDomain_guards _ (by decide)).2.2.1 4 "A" 1 "x" (.int 7) (by decide)
example : readAttr (loaded fuelSchema fuelOrder) 3 "A" 1 "x" = none ∧
    readAttr (loaded fuelSchema fuelOrder) 4 "A" 1 "x" = some (.int 7) := by decide

/-! ### the open findings `api-dangling-chained-key` and `api-cardinality-rejected`, as statements about the model -/

/-- **dangling_key_exact**: on a metamodel the loader built, let `x` be an attribute of class `K` that is
    referential (and, for a chain of depth one, read through stored identifying attributes).  A row created with a
    non-null value for `x` reads that value back IF AND ONLY IF some association using `x` links the row; otherwise
    it reads `None` (`dangling_reads_none`).  So a referred row whose OWN reference is dangling (or null) cannot be
    found through the identifying attribute `x`: `new` relates no referring row to it (`dangling_not_related`) while
    the loader, which compares the values the rows were created with, links them. -/
theorem dangling_key_exact (ss : List Stmt) (hk : ∀ a ∈ popAssocs ss, KeysOk a) (K : String) (j : Nat) (r : Row)
    (hr : (rowsOf (buildCore ss).classes K)[j]? = some r) (x : String) (hx : x ∈ referential (popAssocs ss) K)
    (hdepth : ∀ b ∈ popAssocs ss, b.srcKind = K → ∀ tk, (x, tk) ∈ keyPairs b → tk ∉ referential (popAssocs ss) b.tgtKind)
    (hnn : isNull (r.get x) = false) (n : Nat) :
    readAttr (buildCore ss) (n + 2) K j x = some (r.get x) ↔
      ∃ b ∈ popAssocs ss, b.srcKind = K ∧ x ∈ (keyPairs b).map (·.1) ∧
        (nestedJoin b (rowsOf (buildCore ss).classes b.srcKind) (rowsOf (buildCore ss).classes b.tgtKind)).tgt j ≠ [] :=
  chained_key_read_iff (buildCore ss) (popAssocs ss) (buildCore_assocs ss hk) K j r hr x hx hdepth hnn n

theorem dangling_reads_none (ss : List Stmt) (hk : ∀ a ∈ popAssocs ss, KeysOk a) (K : String) (j : Nat) (x : String)
    (hx : x ∈ referential (popAssocs ss) K)
    (hun : ∀ b ∈ popAssocs ss, b.srcKind = K → x ∈ (keyPairs b).map (·.1) →
      (nestedJoin b (rowsOf (buildCore ss).classes b.srcKind) (rowsOf (buildCore ss).classes b.tgtKind)).tgt j = [])
    (n : Nat) : readAttr (buildCore ss) (n + 1) K j x = some .none :=
  unlinked_reads_none (buildCore ss) (popAssocs ss) (buildCore_assocs ss hk) K j x hx hun n

/-- the query of `new` answers "no" for a row one of whose identifying attributes reads `None` -/
theorem dangling_not_related (m : Model) (fuel : Nat) (kind : String) (j : Nat) (kwargs : List (String × Val))
    (hreads : ∀ kv ∈ kwargs, (readAttr m fuel kind j kv.1).isSome = true)
    (kv : String × Val) (hkv : kv ∈ kwargs) (hnone : readAttr m fuel kind j kv.1 = some .none)
    (hv : kv.2 ≠ .none) : rowMatches m fuel kind j kwargs = some false :=
  rowMatches_none_false m fuel kind j kwargs hreads kv hkv hnone hv

/-- **cardinality_exact**: `relate` refuses (RelateException) exactly when the pair would give a single-valued end a
    second partner — while the loader's `connect(check=False)` adds every matching pair -/
theorem cardinality_exact (a : AssocStmt) (L : Links) (t s : Nat) :
    ((relateAt a L t s).2 = false ↔
      (s ∉ L.src t ∧ L.src t ≠ [] ∧ a.srcMany = false) ∨ (t ∉ L.tgt s ∧ L.tgt s ≠ [] ∧ a.tgtMany = false)) ∧
    s ∈ (connect L.src t s) t ∧ t ∈ (connect L.tgt s t) s := by
  refine ⟨relateAt_refuses_iff a L t s, ?_, ?_⟩
  · by_cases h : s ∈ L.src t <;> simp [connect, osetAdd, h]
  · by_cases h : t ∈ L.tgt s <;> simp [connect, osetAdd, h]

/-- two A rows refer to the same B row across an association whose A end is single-valued -/
def cardSchema : List Stmt :=
  [ .cls "A" [("Id", .integer), ("B_Id", .integer)], .cls "B" [("Id", .integer)],
    .assoc ⟨"R1", "A", false, true, ["B_Id"], "", "B", false, true, ["Id"], ""⟩ ]
def cardOrder : List (String × List Val) := [("B", [.int 1]), ("A", [.int 1, .int 1]), ("A", [.int 2, .int 1])]

/-- **cardinality_witness**: the loader links both A rows to the B row; `new` raises RelateException for the second
    and leaves it unrelated -/
theorem cardinality_witness :
    inDomain (cardSchema ++ insertsOf cardOrder) = true ∧
    (apiBuild cardSchema cardOrder).2 = [.ok, .ok, .relateError] ∧
    ((buildCore (cardSchema ++ insertsOf cardOrder)).assocs.map (fun p => (p.2.src 0, p.2.tgt 0, p.2.tgt 1))) = [([0, 1], [0], [0])] ∧
    ((apiBuild cardSchema cardOrder).1.assocs.map (fun p => (p.2.src 0, p.2.tgt 0, p.2.tgt 1))) = [([0], [0], [])] := by
  decide

/-! ### the decisions of the batch loader, translated from the source (Gen/LoadDecisions.lean, by
    translator/gen_loaddecisions.py): a changed null rule, key order or side choice breaks one of these -/

/-- **null_rule_generated**: the model's `isNull` is the decision chain translated from `_is_null` (truthy -> not
    null; None -> null; then by the upper-cased declared type: UNIQUE_ID -> value == 0, STRING -> len(value) == 0,
    anything else not null) on every value that has the declared type of its attribute or is `None`. -/
theorem null_rule_generated (ty : Ty) (v : Val) (h : v.hasTy ty = true ∨ v = .none) :
    Pyx.Gen.LoadDecisions.isNull v.truthy v.isNone ty.upperChars v.eqZero v.lenZero = isNull v :=
  isNull_eq_generated ty v h

/-- the upper-cased names the translated rule compares with are the names the model's types are parsed from -/
theorem null_rule_type_names (ty : Ty) : Ty.ofUpper ty.upperChars = some ty := ofUpper_upperChars ty

/-- **lookup_key_generated** / **index_key_generated**: the model's two key computations are the translated
    `compute_lookup_key` (over `key_map.items()`: null test and value on the referential attribute, component named
    by the identifying attribute) and `compute_index_key` (over `key_map.values()`), both frozensets of pairs. -/
theorem lookup_key_generated (a : AssocStmt) (s : Row) :
    lookupKey a s = evalKey Pyx.Gen.LoadDecisions.lookupKey (keyMap a) s := lookupKey_eq_generated a s

theorem index_key_generated (a : AssocStmt) (t : Row) :
    indexKey (keyNames a) t = evalKey Pyx.Gen.LoadDecisions.indexKey (keyMap a) t := indexKey_eq_generated a t

/-- **batch_direction_generated**: `populate_connections` indexes the instances of the referred (target) class by
    the source link's index key, shares the index per (class, set of the source link's identifying attribute names),
    and lets the instances of the referring (source) class probe it with the source link's lookup key — as
    `hashJoin` / `connectAll` do. -/
theorem batch_direction_generated :
    Pyx.Gen.LoadDecisions.indexedSide = .target ∧ Pyx.Gen.LoadDecisions.probingSide = .source ∧
    Pyx.Gen.LoadDecisions.cacheLink = .sourceLink ∧ Pyx.Gen.LoadDecisions.cacheNames = .values ∧
    Pyx.Gen.LoadDecisions.indexKeyLink = .sourceLink ∧ Pyx.Gen.LoadDecisions.lookupKeyLink = .sourceLink :=
  direction_eq_generated

/-- **batch_connects_generated**: for a probing row `i` and a referred row `j` of its bucket the model makes exactly
    the `connect` calls of the source, in their order, with their argument order and `check` flag, each decided by
    the translated `Link.connect` (Gen/LinkDecisions.lean). -/
theorem batch_connects_generated (a : AssocStmt) (L : Links) (i j : Nat) :
    (⟨connect L.src j i, connect L.tgt i j⟩ : Links) =
      Pyx.Gen.LoadDecisions.connects.foldl (fun L c => applyConnect a c L i j) L :=
  connectStep_eq_generated a L i j

/-- ... in particular a second match on a link that is not `many` is connected as well (`check=False`) -/
theorem second_match_connected :
    (∀ c ∈ Pyx.Gen.LoadDecisions.connects, c.2.2 = false) ∧
    Pyx.Gen.LinkDecisions.connect false true false false = .mutate := by decide

/-- **new_null_rule_generated**: the batch relate of `MetaClass.new` has its OWN null test (an expression over
    `ref_value is None`, the upper-cased declared type, `ref_value == 0`, `ref_value == ''`); translated from the
    source it is the model's `isNull` on every value of the attribute's declared type. -/
theorem new_null_rule_generated (ty : Ty) (v : Val) (h : v.hasTy ty = true ∨ v = .none) :
    Pyx.Gen.LoadDecisions.newIsNull v.isNone ty.upperChars v.eqZero v.lenZero = isNull v :=
  newIsNull_eq_generated ty v h

/-- **new_relate_generated**: the model's `relateLink` (one link of the batch relate of `new`) takes the translated
    decisions: the link is attempted only if every name of `key_map.values()` was given; ONE null value drops the
    whole link (`kwargs = None; break` — not just that value); the query maps the other class's key attribute to
    the given value; an empty query relates nothing; and `relate` is called with the found instance first. -/
theorem new_relate_generated (refs : List (String × Val)) (km : List (String × String))
    (okind kind : String) (i : Nat) (rel phrase : String) (m : Model) :
    relateLink refs km okind kind i rel phrase m =
      relateLinkBy Pyx.Gen.LoadDecisions.newGivenNames Pyx.Gen.LoadDecisions.newOnNull
        Pyx.Gen.LoadDecisions.newQueryName Pyx.Gen.LoadDecisions.newValueFrom refs km okind kind i rel phrase m ∧
    Pyx.Gen.LoadDecisions.newRelateArgs = [.other, .inst, .relId, .phrase] :=
  ⟨relateLink_eq_generated refs km okind kind i rel phrase m, newRelateArgs_eq_generated⟩

/-- **association_args_generated** (table check): `populate_associations` hands each field of the CREATE ROP statement to
    the parameter of `define_association` of the same name, `source_many` / `target_many` being `'M' in` and
    `source_conditional` / `target_conditional` being `'C' in` the statement's cardinality strings — the reading of a
    statement that `AssocStmt` (srcMany, srcCond, tgtMany, tgtCond) and the harness's encoder fix. -/
theorem association_args_generated :
    Pyx.Gen.LoadDecisions.defineAssociationParams.zip Pyx.Gen.LoadDecisions.defineAssociationArgs =
      [("rel_id", "stmt.rel_id"), ("source_kind", "stmt.source_kind"), ("source_keys", "stmt.source_keys"),
       ("source_many", "'M' in stmt.source_cardinality"), ("source_conditional", "'C' in stmt.source_cardinality"),
       ("source_phrase", "stmt.source_phrase"), ("target_kind", "stmt.target_kind"), ("target_keys", "stmt.target_keys"),
       ("target_many", "'M' in stmt.target_cardinality"), ("target_conditional", "'C' in stmt.target_cardinality"),
       ("target_phrase", "stmt.target_phrase")] := by decide

/-! ### the API route against the statement-shape tables of `_find_link`, `relate`, `WhereEqual` and `MetaClass.new`
    (Gen/RelateShape.lean, Gen/QueryShape.lean, Gen/NewShape.lean — generated by builder G's translators; importing
    them here makes C03 regenerate and re-check them) -/

/-- **find_link_generated**: the model's `_find_link` is the generic interpretation of the translated loop body
    `findBody` over the link definitions `linkDefs` of `define_association` (which class a link starts at, which
    phrase it carries). -/
theorem find_link_generated (as : List AssocStmt) (k1 k2 rel phrase : String)
    (sd td : Pyx.Gen.RelateShape.LinkDef) (hd : Pyx.Gen.RelateShape.linkDefs = [sd, td]) :
    findLink as k1 k2 rel phrase = findLinkBy Pyx.Gen.RelateShape.findBody sd td k1 k2 rel phrase 0 as :=
  findLinkFrom_eq_generated k1 k2 rel phrase sd td hd as 0

/-- **relate_generated**: what the model does once `_find_link` has answered is the translated program of `relate`:
    `source_link.connect(inst1, inst2)` else raise; `target_link.connect(inst2, inst1)` else
    `source_link.disconnect(inst1, inst2)` and raise — with each link's `many` as `define_association` sets it. -/
theorem relate_generated (a : AssocStmt) (L : Links) (t s : Nat)
    (sd td : Pyx.Gen.RelateShape.LinkDef) (hd : Pyx.Gen.RelateShape.linkDefs = [sd, td]) :
    relateAt a L t s = runSteps' a sd td Pyx.Gen.RelateShape.relateProg.steps L t s :=
  relateAt_eq_generated a L t s sd td hd

/-- **query_match_generated**: the test the query of `new` makes on one instance is the translated `WhereEqual`
    loop (`break` on the first attribute that differs, the instance is yielded when the loop completes). -/
theorem query_match_generated (m : Model) (fuel : Nat) (kind : String) (j : Nat) (kw : List (String × Val)) :
    rowMatches m fuel kind j kw = rowMatchesBy Pyx.Gen.QueryShape.whereShape m fuel kind j kw :=
  rowMatches_eq_generated m fuel kind j kw

/-- **new_shape_generated** (table check): `define_association` adds exactly two links; `new` returns before the
    batch relate when no referential value was given, relates `(found instance, new instance)`, stores positional
    referential values aside instead of setting them, and a dict handed to `query` is wrapped in `WhereEqual` — as
    `apiNew` / `relateLink` / `relateQuery` have it. -/
theorem new_shape_generated :
    (∃ sd td, Pyx.Gen.RelateShape.linkDefs = [sd, td]) ∧
    Pyx.Gen.RelateShape.newPhases =
      [.construct, .appendStorage, .defaults, .positional, .keywords, .returnIfNoReferentials, .batchRelate,
       .warnUnassigned, .returnInst] ∧
    Pyx.Gen.RelateShape.newRelateArgs = (.other, .newInst) ∧
    (Pyx.Gen.NewShape.newLoops.map (fun l => (l.source, l.whenNotReferential, l.whenReferential))) =
      [(.attributes, .setattrDefault, .nothing), (.zipAttributesArgs, .setattr, .storeReferential),
       (.kwargs, .setattr, .storeReferential)] ∧
    Pyx.Gen.QueryShape.opDispatch.lookup .isDict = some .wrapWhereEqual := by
  refine ⟨⟨_, _, rfl⟩, by decide, by decide, by decide, by decide⟩

/-- **phase_order** (over the generated table): `ModelLoader.populate` still runs the five phases in the order in
    which `Pyx.Load.buildCore` composes them — classes, identifiers, associations, instances, connections. -/
theorem phase_order :
    Pyx.Gen.Sharing.phaseOrder =
      ["populate_classes", "populate_unique_identifiers", "populate_associations", "populate_instances",
       "populate_connections"] := by decide

/-! ## non-vacuity: a concrete population with a matching, a null, a dangling and a duplicate key -/

def exA : AssocStmt := ⟨"R1", "A", true, true, ["B_Id", "B_Name"], "", "B", false, true, ["Id", "Name"], ""⟩

def exStmts : List Stmt :=
  [ .insert "A" none [.int 1, .id 7, .str "n"],
    .cls "A" [("Id", .integer), ("B_Id", .uniqueId), ("B_Name", .string)],
    .assoc exA,
    .insert "B" none [.id 7, .str "n"],
    .insert "A" none [.int 2, .id 0, .str "n"],
    .uniq "B" "I1" ["Id", "Name"],
    .insert "B" none [.id 7, .str "n"],
    .cls "B" [("Id", .uniqueId), ("Name", .string)],
    .insert "A" (some ["B_Name", "Id"]) [.str "x", .int 3],
    .insert "X" none [.int 5] ]

example : KeysOk exA := ⟨by decide, by decide⟩
example : inDomain exStmts = true := by decide
example : (build exStmts).isSome = true := by decide
example : ∀ a ∈ popAssocs exStmts, KeysOk a := by
  intro a ha
  have : a = exA := by simpa [popAssocs, exStmts] using ha
  subst this
  exact ⟨by decide, by decide⟩
/-- row 0 of A matches both (duplicate) rows of B; row 1 has a null id, row 2 an unset one -/
example : (nestedJoin exA (rowsOf (buildCore exStmts).classes "A") (rowsOf (buildCore exStmts).classes "B")).tgt 0 = [0, 1] := by decide
example : (nestedJoin exA (rowsOf (buildCore exStmts).classes "A") (rowsOf (buildCore exStmts).classes "B")).tgt 1 = [] := by decide
example : (nestedJoin exA (rowsOf (buildCore exStmts).classes "A") (rowsOf (buildCore exStmts).classes "B")).src 1 = [0] := by decide
example : UniqNamesOk exStmts := by
  intro k
  by_cases h : k = "B"
  · subst h; decide
  · have : uniqOf exStmts k = [] := by
      simp [uniqOf, exStmts]
      intro h'; exact absurd h'.symm h
    rw [this]; exact List.nodup_nil
/-- the inferred-schema guard on the example: class X has no CREATE TABLE and one INSERT -/
example : InferAgree exStmts := by
  have hd : inDomain exStmts = true := by decide
  exact (inDomain_guards exStmts hd).2.1
/-- ... and a population whose INSERTs infer the class in two ways is outside the guard -/
example : ¬ InferAgree [.insert "X" none [.int 5], .insert "X" none [.str "a"]] := by
  intro h
  have := h "X" (by decide) (none, [.int 5]) (by decide) (none, [.str "a"]) (by decide)
  revert this; decide

/-- `cache_transparent` with a cache that is hit: two associations refer to B through the same SET of identifying
    attributes, named in different orders — the second one finds the index the first one built -/
def exA2 : AssocStmt := ⟨"R2", "A", true, true, ["B_Name", "B_Id"], "", "B", false, true, ["Name", "Id"], ""⟩
def exRows : String → List Row := fun k => rowsOf (buildCore exStmts).classes k
example : cacheFind [((exA.tgtKind, keyNames exA), mkIndex (keyNames exA) (exRows exA.tgtKind))] exA2.tgtKind (keyNames exA2)
    = some (mkIndex (keyNames exA) (exRows exA.tgtKind)) := by decide
example : CacheOk exRows [((exA.tgtKind, keyNames exA), mkIndex (keyNames exA) (exRows exA.tgtKind))] := by
  intro e he
  simp only [List.mem_singleton] at he
  subst he
  exact ⟨by decide, indexSpec_mkIndex _ _⟩
example : ((connectAll exRows [((exA.tgtKind, keyNames exA), mkIndex (keyNames exA) (exRows exA.tgtKind))] [exA2]).map
    (fun L => (L.tgt 0, L.tgt 1, L.src 0, L.src 1))) = [([0, 1], [], [0], [0])] := by decide

/-- `build_perm_ordered` on two different statement lists: the schema statements move, every class's INSERTs keep
    their order -/
def exStmts' : List Stmt :=
  [ .cls "B" [("Id", .uniqueId), ("Name", .string)],
    .insert "A" none [.int 1, .id 7, .str "n"],
    .insert "B" none [.id 7, .str "n"],
    .uniq "B" "I1" ["Id", "Name"],
    .insert "A" none [.int 2, .id 0, .str "n"],
    .insert "X" none [.int 5],
    .insert "B" none [.id 7, .str "n"],
    .assoc exA,
    .insert "A" (some ["B_Name", "Id"]) [.str "x", .int 3],
    .cls "A" [("Id", .integer), ("B_Id", .uniqueId), ("B_Name", .string)] ]
example : exStmts ≠ exStmts' := by decide
example : exStmts.Perm exStmts' := by decide
example : ∀ k ∈ ["A", "B", "X"], insOf exStmts k = insOf exStmts' k := by decide
example : (buildCore exStmts).assocs.map (fun p => (p.2.tgt 0, p.2.tgt 1, p.2.tgt 2, p.2.src 0, p.2.src 1)) =
    (buildCore exStmts').assocs.map (fun p => (p.2.tgt 0, p.2.tgt 1, p.2.tgt 2, p.2.src 0, p.2.src 1)) := by decide

/-- the API theorem is not vacuous: a schema with a two-attribute key, a duplicate-free population with a
    matching, a null and a dangling reference satisfies every guard -/
def exSchema : List Stmt :=
  [ .cls "A" [("Id", .integer), ("B_Id", .uniqueId), ("B_Name", .string)],
    .cls "B" [("Id", .uniqueId), ("Name", .string)], .assoc exA, .uniq "B" "I1" ["Id", "Name"] ]
def exOrder : List (String × List Val) :=
  [ ("B", [.id 7, .str "n"]), ("B", [.id 8, .str "n"]), ("A", [.int 1, .id 7, .str "n"]),
    ("A", [.int 2, .id 0, .str "n"]), ("A", [.int 3, .id 9, .str "x"]) ]
example : (apiBuild exSchema exOrder).2 = exOrder.map (fun _ => Outcome.ok) := by decide
example : ((apiBuild exSchema exOrder).1.assocs.map (fun p => (p.2.tgt 0, p.2.tgt 1, p.2.tgt 2, p.2.src 0))) =
    [([0], [], [], [0])] := by decide

/-- ... and satisfies every guard of `api_equiv` (rows created class by class: `referredFirst_of_classwise`) -/
example : ApiGuards exSchema exOrder := by
  have hA : popAssocs exSchema = [exA] := by decide
  have hschema : ∀ s ∈ exSchema, ∀ k ns vs, s ≠ .insert k ns vs := by
    intro s hs k ns vs he
    subst he
    simp [exSchema] at hs
  have hkeys : ∀ a ∈ popAssocs exSchema,
      KeysOk a ∧ a.srcKeys.length = a.tgtKeys.length ∧ a.srcKeys ≠ [] ∧ a.srcKind ≠ a.tgtKind := by
    intro a ha
    rw [hA] at ha
    simp only [List.mem_singleton] at ha
    subst ha
    exact ⟨⟨by decide, by decide⟩, by decide, by decide, by decide⟩
  have hdecl : ∀ o ∈ exOrder, (findCls (popClasses exSchema) o.1).isSome = true ∧
      o.2.length = (attrsOf exSchema o.1).length := by decide
  obtain ⟨hrt, hres⟩ := reads_of_noChain exSchema exOrder hschema (by decide) hkeys hdecl (by rw [hA]; decide)
  refine ⟨hschema, by decide, hkeys, hrt, hres, ?_, ?_, hdecl, ?_, ?_, ?_⟩
  · rw [hA]; decide
  · rw [hA]
    intro n a hn
    cases n with
    | zero => simp at hn; subst hn; unfold ResolvesAt; decide
    | succ n => simp at hn
  · rw [hA]
    intro a ha
    simp only [List.mem_singleton] at ha
    subst ha
    apply referredFirst_of_classwise
    intro pre o suf hord hk r hr
    -- the rows of the referring class A are the last three
    match pre, hord with
    | [], h => simp [exOrder] at h; obtain ⟨rfl, _⟩ := h; simp [exA] at hk
    | [_], h => simp [exOrder] at h; obtain ⟨_, rfl, _⟩ := h; simp [exA] at hk
    | [_, _], h =>
      simp [exOrder] at h
      obtain ⟨_, _, _, rfl⟩ := h
      revert r hr; decide
    | [_, _, _], h =>
      simp [exOrder] at h
      obtain ⟨_, _, _, _, rfl⟩ := h
      revert r hr; decide
    | [_, _, _, _], h =>
      simp [exOrder] at h
      obtain ⟨_, _, _, _, _, rfl⟩ := h
      cases hr
    | _ :: _ :: _ :: _ :: _ :: _, h => simp [exOrder] at h
  · rw [hA]; decide
  · rw [hA]; decide

/-- rows of the two classes interleaved: a topological order of the rows that is not class-wise -/
def exOrder2 : List (String × List Val) :=
  [ ("B", [.id 7, .str "n"]), ("A", [.int 1, .id 7, .str "n"]), ("B", [.id 8, .str "n"]), ("A", [.int 2, .id 8, .str "n"]) ]

example : ApiGuards exSchema exOrder2 := by
  have hA : popAssocs exSchema = [exA] := by decide
  have hschema : ∀ s ∈ exSchema, ∀ k ns vs, s ≠ .insert k ns vs := by
    intro s hs k ns vs he
    subst he
    simp [exSchema] at hs
  have hkeys : ∀ a ∈ popAssocs exSchema,
      KeysOk a ∧ a.srcKeys.length = a.tgtKeys.length ∧ a.srcKeys ≠ [] ∧ a.srcKind ≠ a.tgtKind := by
    intro a ha
    rw [hA] at ha
    simp only [List.mem_singleton] at ha
    subst ha
    exact ⟨⟨by decide, by decide⟩, by decide, by decide, by decide⟩
  have hdecl : ∀ o ∈ exOrder2, (findCls (popClasses exSchema) o.1).isSome = true ∧
      o.2.length = (attrsOf exSchema o.1).length := by decide
  -- no identifying attribute is referential here, so every read ends after at most two steps
  obtain ⟨hrt, hres⟩ := reads_of_noChain exSchema exOrder2 hschema (by decide) hkeys hdecl (by rw [hA]; decide)
  refine ⟨hschema, by decide, hkeys, hrt, hres, ?_, ?_, hdecl, ?_, ?_, ?_⟩
  · rw [hA]; decide
  · rw [hA]
    intro n a hn
    cases n with
    | zero => simp at hn; subst hn; unfold ResolvesAt; decide
    | succ n => simp at hn
  · rw [hA]
    intro a ha pre o suf hord hk s hs
    simp only [List.mem_singleton] at ha
    subst ha
    -- a row of the referred class is created first and third; the referring row that exists then does not match
    match pre, hord with
    | [], h => simp [rawRows] at hs
    | [_], h =>
      simp [exOrder2] at h
      obtain ⟨_, rfl, _⟩ := h
      simp [exA] at hk
    | [_, _], h =>
      simp [exOrder2] at h
      obtain ⟨rfl, rfl, rfl, _⟩ := h
      revert s hs
      decide
    | [_, _, _], h =>
      simp [exOrder2] at h
      obtain ⟨_, _, _, rfl, _⟩ := h
      simp [exA] at hk
    | _ :: _ :: _ :: _ :: _, h => simp [exOrder2] at h
  · rw [hA]; decide
  · rw [hA]; decide

/-- chained keys: C refers to B by B's identifier, which B itself holds as a reference to A; the rows are created
    A, B, C and every read of B's identifier ends at A's stored value -/
def chSchema : List Stmt :=
  [ .cls "A" [("Id", .integer)], .cls "B" [("Id", .integer), ("N", .string)], .cls "C" [("B_Id", .integer)],
    .assoc ⟨"R1", "B", false, true, ["Id"], "", "A", false, true, ["Id"], ""⟩,
    .assoc ⟨"R2", "C", true, true, ["B_Id"], "", "B", false, true, ["Id"], ""⟩ ]
def chOrder : List (String × List Val) :=
  [ ("A", [.int 1]), ("B", [.int 1, .str "b"]), ("B", [.int 2, .str "dangling"]), ("C", [.int 1]), ("C", [.int 2]) ]
/-- the API route links C(1) to B(1) through the chained read; B(2)'s identifier is dangling (reads `None`), so
    C(2) finds nothing — and the loader links C(2) to B(2): exactly what the guard `resolved` excludes -/
example : ((apiBuild chSchema chOrder).1.assocs.map (fun p => (p.1.rel, p.2.tgt 0, p.2.tgt 1))) =
    [("R1", [0], []), ("R2", [0], [])] := by decide
example : ((buildCore (chSchema ++ insertsOf chOrder)).assocs.map (fun p => (p.1.rel, p.2.tgt 0, p.2.tgt 1))) =
    [("R1", [0], []), ("R2", [0], [1])] := by decide
example : readAttr (loaded chSchema chOrder) 3 "B" 0 "Id" = some (.int 1) ∧
    readAttr (loaded chSchema chOrder) 3 "B" 1 "Id" = some .none := by decide

/-- **dangling_witness**: B(2)'s identifier is its reference to an A row that does not exist; the loader links
    C(2) to B(2), `new` (rows created referred-first, nothing raised) does not -/
theorem dangling_witness :
    inDomain (chSchema ++ insertsOf chOrder) = true ∧
    (apiBuild chSchema chOrder).2 = [.ok, .ok, .ok, .ok, .ok] ∧
    ((buildCore (chSchema ++ insertsOf chOrder)).assocs.map (fun p => (p.1.rel, p.2.tgt 0, p.2.tgt 1))) =
      [("R1", [0], []), ("R2", [0], [1])] ∧
    ((apiBuild chSchema chOrder).1.assocs.map (fun p => (p.1.rel, p.2.tgt 0, p.2.tgt 1))) =
      [("R1", [0], []), ("R2", [0], [])] := by decide

def chOrderOk : List (String × List Val) := [ ("A", [.int 1]), ("B", [.int 1, .str "b"]), ("C", [.int 1]) ]

theorem ch_reads (k : String) (i : Nat) (x : String) (hi : i < (rawRows chSchema chOrderOk k).length) :
    (readAttr (loaded chSchema chOrderOk) (readBound chSchema) k i x).isSome = true := by
  suffices h3 : (readAttr (loaded chSchema chOrderOk) (popClasses chSchema).length k i x).isSome = true by
    obtain ⟨v, hv⟩ := Option.isSome_iff_exists.mp h3
    rw [readAttr_mono _ (length_le_readBound chSchema) k i x v hv]; rfl
  have hD : (popClasses chSchema).length = 3 := by decide
  have hst : (loaded chSchema chOrderOk).assocs.map (·.1) = popAssocs chSchema := by decide
  rw [hD]
  by_cases hA : k = "A"
  · subst hA
    have hn : x ∉ referential ((loaded chSchema chOrderOk).assocs.map (·.1)) "A" := by
      have : referential (popAssocs chSchema) "A" = [] := by decide
      rw [hst, this]; simp
    rw [readAttr_stored _ 2 "A" i x hn]; rfl
  · by_cases hB : k = "B"
    · subst hB
      have hl : (rawRows chSchema chOrderOk "B").length = 1 := by decide
      have hi0 : i = 0 := by omega
      subst hi0
      by_cases hx : x = "Id"
      · subst hx; decide
      · have hn : x ∉ referential ((loaded chSchema chOrderOk).assocs.map (·.1)) "B" := by
          have : referential (popAssocs chSchema) "B" = ["Id"] := by decide
          rw [hst, this]; simpa using hx
        rw [readAttr_stored _ 2 "B" 0 x hn]; rfl
    · by_cases hC : k = "C"
      · subst hC
        have hl : (rawRows chSchema chOrderOk "C").length = 1 := by decide
        have hi0 : i = 0 := by omega
        subst hi0
        by_cases hx : x = "B_Id"
        · subst hx; decide
        · have hn : x ∉ referential ((loaded chSchema chOrderOk).assocs.map (·.1)) "C" := by
            have : referential (popAssocs chSchema) "C" = ["B_Id"] := by decide
            rw [hst, this]; simpa using hx
          rw [readAttr_stored _ 2 "C" 0 x hn]; rfl
      · exfalso
        have : (rawRows chSchema chOrderOk k).length = 0 := by
          have hA' : ¬ "A" = k := fun e => hA e.symm
          have hB' : ¬ "B" = k := fun e => hB e.symm
          have hC' : ¬ "C" = k := fun e => hC e.symm
          simp [rawRows, chOrderOk, List.filter_cons, hA', hB', hC']
        omega

def chR1 : AssocStmt := ⟨"R1", "B", false, true, ["Id"], "", "A", false, true, ["Id"], ""⟩
def chR2 : AssocStmt := ⟨"R2", "C", true, true, ["B_Id"], "", "B", false, true, ["Id"], ""⟩

/-- the guards of `api_equiv` / `clone_equiv` are satisfiable with a chained key: C refers to B by B's identifier,
    which B holds as a reference to A -/
example : ApiGuards chSchema chOrderOk := by
  have hA : popAssocs chSchema = [chR1, chR2] := by decide
  have hlenA : (rawRows chSchema chOrderOk "A").length = 1 := by decide
  have hlenB : (rawRows chSchema chOrderOk "B").length = 1 := by decide
  have hlenC : (rawRows chSchema chOrderOk "C").length = 1 := by decide
  refine ⟨?_, by decide, ?_, ch_reads, ?_, ?_, ?_, by decide, ?_, ?_, ?_⟩
  · intro s hs k ns vs he
    subst he
    simp [chSchema] at hs
  · intro a ha
    rw [hA] at ha
    simp only [List.mem_cons, List.mem_nil_iff, or_false] at ha
    rcases ha with rfl | rfl
    · exact ⟨⟨by decide, by decide⟩, by decide, by decide, by decide⟩
    · exact ⟨⟨by decide, by decide⟩, by decide, by decide, by decide⟩
  · intro a ha i j s t hs ht _ tk htk
    rw [hA] at ha
    simp only [List.mem_cons, List.mem_nil_iff, or_false] at ha
    rcases ha with rfl | rfl
    · have hi : i = 0 := by have := (List.getElem?_eq_some_iff.mp hs).1; simp only [chR1] at this; omega
      have hj : j = 0 := by have := (List.getElem?_eq_some_iff.mp ht).1; simp only [chR1] at this; omega
      subst hi; subst hj
      have h2 : (rawRows chSchema chOrderOk chR1.tgtKind)[0]? = some [("Id", Val.int 1)] := by decide
      rw [h2] at ht; cases ht
      revert tk htk
      decide
    · have hi : i = 0 := by have := (List.getElem?_eq_some_iff.mp hs).1; simp only [chR2] at this; omega
      have hj : j = 0 := by have := (List.getElem?_eq_some_iff.mp ht).1; simp only [chR2] at this; omega
      subst hi; subst hj
      have h2 : (rawRows chSchema chOrderOk chR2.tgtKind)[0]? = some [("Id", Val.int 1), ("N", Val.str "b")] := by decide
      rw [h2] at ht; cases ht
      revert tk htk
      decide
  · rw [hA]; decide
  · rw [hA]
    intro n a hn
    match n, hn with
    | 0, hn => simp at hn; subst hn; unfold ResolvesAt; decide
    | 1, hn => simp at hn; subst hn; unfold ResolvesAt; decide
    | n + 2, hn => simp at hn
  · rw [hA]
    intro a ha pre o suf hord hk s hs
    simp only [List.mem_cons, List.mem_nil_iff, or_false] at ha
    match pre, hord with
    | [], h => simp [rawRows] at hs
    | [_], h =>
      simp [chOrderOk] at h
      obtain ⟨rfl, rfl, _⟩ := h
      rcases ha with rfl | rfl
      · revert s hs; decide
      · revert s hs; decide
    | [_, _], h =>
      simp [chOrderOk] at h
      obtain ⟨rfl, rfl, rfl, _⟩ := h
      rcases ha with rfl | rfl
      · simp [chR1] at hk
      · simp [chR2] at hk
    | _ :: _ :: _ :: _, h => simp [chOrderOk] at h
  · rw [hA]; decide
  · rw [hA]; decide

example : positions exOrder = [("B", 0), ("B", 1), ("A", 0), ("A", 1), ("A", 2)] := by decide
example : (cloneBuild (exSchema ++ insertsOf exOrder) (positions exOrder)).2 = exOrder.map (fun _ => Outcome.ok) := by decide
/-- the dangling reference of the third A row reads `None` on the loaded instance, the matching one its value -/
example : readArgs exSchema exOrder "A" 2 = [.int 3, .none, .none] ∧ readArgs exSchema exOrder "A" 0 = [.int 1, .id 7, .str "n"] := by
  decide

example : exStmts.Perm exStmts.reverse := (List.reverse_perm _).symm
example : Loader.inputs [] [exStmts.take 3, [], exStmts.drop 3] = exStmts := by decide

/-! ### the batch relate of `MetaClass.new` on the API route, tied for ALL inputs (beyond the table checks above) -/

/-- `relate` of the API model as a WHOLE, for every model state, pair, rel id and phrase: the arguments the source
    hands to `_find_link` (`relateProg.findArgs`), the loop body `findBody` over the link definitions, the pair
    oriented as `_find_link` returned it (swapped or not), the guarded link calls with the undo, the outcome.  (The
    `deleted` guards of the program are vacuous here: this model has no `delete`.)  `linkDefs = [sd, td]` only names
    the two generated link definitions -/
theorem relate_whole_as_in_source (m : Model) (k1 : String) (i1 : Nat) (k2 : String) (i2 : Nat) (rel phrase : String)
    (sd td : Pyx.Gen.RelateShape.LinkDef) (hd : Pyx.Gen.RelateShape.linkDefs = [sd, td]) :
    relate m k1 i1 k2 i2 rel phrase =
      iRelateApi Pyx.Gen.RelateShape.findBody sd td Pyx.Gen.RelateShape.relateProg m k1 i1 k2 i2 rel phrase :=
  relate_eq_generated m k1 i1 k2 i2 rel phrase sd td hd

/-- the query loop of the batch relate, for every candidate list and state: each instance of the other class is tested
    by the translated `WhereEqual` loop and each hit is related AT ONCE (before the next instance is tested) by the
    interpreted `relate`, with the two instances in the order `newRelateArgs` read from the source (found instance
    first, new instance second); the first outcome other than ok ends the loop -/
theorem batch_query_as_in_source (sd td : Pyx.Gen.RelateShape.LinkDef) (hd : Pyx.Gen.RelateShape.linkDefs = [sd, td])
    (fuel : Nat) (kwargs : List (String × Val)) (okind kind : String) (i : Nat) (rel phrase : String) (js : List Nat)
    (m : Model) :
    relateQuery fuel kwargs okind kind i rel phrase js m =
      iRelateQuery Pyx.Gen.QueryShape.whereShape Pyx.Gen.RelateShape.newRelateArgs
        (iRelateApi Pyx.Gen.RelateShape.findBody sd td Pyx.Gen.RelateShape.relateProg)
        fuel kwargs okind kind i rel phrase js m :=
  relateQuery_eq_generated sd td hd fuel kwargs okind kind i rel phrase js m

/-- the links the batch relate iterates (`self.links.values()`), for every association list and class: per association
    the `add_link` calls of `define_association` in their order, a link belonging to the class it STARTS at, with the
    key map of that direction, the class it leads to and the phrase handed to the call -/
theorem batch_links_as_in_source (all : List AssocStmt) (kind : String) :
    linksOfKind all kind = iLinksOfKind Pyx.Gen.RelateShape.linkDefs all kind :=
  linksOfKind_eq_generated all kind

/-- the tail of `new`, for every model, class and argument list: once the row is stored, the phases read from the
    source decide — return at once when no referential value was given, THEN the batch relate over the interpreted
    link list (an outcome other than ok ends the call, the row stays stored), then the instance is returned -/
theorem new_tail_as_in_source (m : Model) (kind : String) (args : List Val) :
    apiNew m kind args =
      match findCls m.classes kind with
      | none => (m, .unmodelled)
      | some c =>
        let all := m.assocs.map (·.1)
        let refNames := referential all kind
        let given : Row := (c.attrs.zip args).map (fun p => (p.1.1, p.2))
        let refs := given.filter (fun p => refNames.contains p.1)
        iNewTail refs.isEmpty (relateLinks refs kind c.rows.length (iLinksOfKind Pyx.Gen.RelateShape.linkDefs all kind))
          Pyx.Gen.RelateShape.newPhases { m with classes := addRow m.classes kind (stripRow refNames given) } :=
  apiNew_eq_generated m kind args

/-! non-vacuity: the hypothesis is discharged by the generated list itself; on the cardinality example the interpreted
    `relate` links the first A row to the B row and refuses the second (RelateException, nothing left behind); with
    the arguments of the batch relate exchanged the query loop would look for a link in the wrong direction -/
example : ∃ sd td, Pyx.Gen.RelateShape.linkDefs = [sd, td] := ⟨_, _, rfl⟩
example : ∀ sd td, Pyx.Gen.RelateShape.linkDefs = [sd, td] →
    let m := (apiBuild cardSchema (cardOrder.take 2)).1
    (m.assocs.map (fun p => (p.2.src 0, p.2.tgt 0))) = [([0], [0])] ∧
    (iRelateApi Pyx.Gen.RelateShape.findBody sd td Pyx.Gen.RelateShape.relateProg m "B" 0 "A" 1 "R1" "").2 = .relateError ∧
    ((iRelateApi Pyx.Gen.RelateShape.findBody sd td Pyx.Gen.RelateShape.relateProg m "B" 0 "A" 1 "R1" "").1.assocs.map
      (fun p => (p.2.src 0, p.2.tgt 1))) = [([0], [])] ∧
    (iRelateQuery Pyx.Gen.QueryShape.whereShape Pyx.Gen.RelateShape.newRelateArgs
      (iRelateApi Pyx.Gen.RelateShape.findBody sd td Pyx.Gen.RelateShape.relateProg) (fuelOf m) [("Id", .int 1)] "B" "A" 1 "R1" ""
      [0] m).2 = .relateError ∧
    (iRelateQuery Pyx.Gen.QueryShape.whereShape Pyx.Gen.RelateShape.newRelateArgs
      (iRelateApi Pyx.Gen.RelateShape.findBody sd td Pyx.Gen.RelateShape.relateProg) (fuelOf m) [("Id", .int 2)] "B" "A" 1 "R1" ""
      [0] m).2 = .ok ∧
    iLinksOfKind Pyx.Gen.RelateShape.linkDefs (m.assocs.map (·.1)) "A" = [([("Id", "B_Id")], "B", "R1", "")] := by
  intro sd td hd
  simp only [Pyx.Gen.RelateShape.linkDefs, List.cons.injEq, and_true] at hd
  obtain ⟨rfl, rfl⟩ := hd
  decide

end PyxProps.C03
