import Proofs.SqlLoader
import Proofs.SqlBuildProj
import Proofs.SqlBuildCause
import Proofs.SqlValueForms
import Proofs.SqlCharRoundtrip
import Proofs.SqlBuildShape
import Proofs.SqlLoaderShape
import Proofs.SqlRegex

/-!
  C12 — Loading fails only in documented ways and never half-applies input.
  Property theorems only (helper lemmas: Proofs/SqlLexer.lean, SqlParserTotal.lean, SqlLoader.lean).
  Model: PyxModel/Sql (lexer following the rule order of Gen/SqlLex.lean, parser, build phases, loader as a
  state machine).  What Lean carries is the LOGIC of the loader: a total classification of every text, the state
  machine `input`, the documented outcome of every build.  The model makes the outcome the property forbids explicit
  (`BuildErr.builtinErr` at the three places where the Python code can raise a built-in exception during a build) and
  `build_outcome_total` shows it cannot be reached.  Identifiers of the form `__x__` in attribute positions are rejected
  with the metamodel exception by `define_class` / `define_association` (repaired in 7fb506e; formerly the open finding).  For `input` the model has two outcomes only: the token and grammar actions of the source slice, count and
  concatenate, none of them can raise -- that is a reading of the source, checked by the direct predicate (D) on the
  implementation, not a theorem; what is proved about `input` is that a rejection is never fuel exhaustion
  (`lexer_total`, `parser_total`, `sequence_fuel`).  The exception discipline of the Python code and its running time are
  decided by the correspondence harness (harness/prop_C12.py), not by these theorems.
-/
namespace PyxProps.C12
open Pyx.Sql

/-- the lexer needs no more fuel than one unit per character (+1): every text is lexed to tokens or rejected,
    and more fuel never changes the answer -/
theorem lexer_total (u : UC) (cs : Text) (n : Nat) (h : cs.length + 1 ≤ n) : lexFuel u n cs = lex u cs :=
  lexFuel_stable u cs n h

/-- every round of the lexer consumes at least one character (no rule matches the empty string, no backtracking
    across tokens) -/
theorem lexer_progress (u : UC) (cs rest : Text) (t : Tok) :
    (step u cs = .skip rest → rest.length < cs.length) ∧ (step u cs = .emit t rest → rest.length < cs.length) :=
  ⟨step_skip_shorter u cs rest, step_emit_shorter u cs rest t⟩

/-- the parser needs no more fuel than one unit per token; every statement consumes at least one token -/
theorem parser_total (toks : List Tok) (n : Nat) (h : toks.length ≤ n) : parseFuel n toks = parse toks :=
  parseFuel_stable toks n h

theorem parser_progress (toks : List Tok) (x : Stmt × List Tok) (h : stmtAt toks = some x) : x.2.length < toks.length :=
  stmtAt_shorter toks x h

/-- the comma-separated sequences inside a statement: any fuel of at least one unit per remaining token gives the answer
    of the fuel `seqP` uses, so `none` is a syntax error, never exhaustion -/
theorem sequence_fuel {α : Type} (elem : List Tok → Option (α × List Tok))
    (he : ∀ toks x, elem toks = some x → x.2.length ≤ toks.length) (fuel : Nat) (toks : List Tok) (h : toks.length ≤ fuel) :
    seqTail elem fuel toks = seqTail elem toks.length toks ∧
    (∀ toks x, identAt toks = some x → x.2.length ≤ toks.length) ∧
    (∀ toks x, attrAt toks = some x → x.2.length ≤ toks.length) ∧
    (∀ toks x, valueAt toks = some x → x.2.length ≤ toks.length) :=
  ⟨seqTail_fuel_stable elem he fuel toks.length toks h (Nat.le_refl _), identAt_le, attrAt_le, valueAt_le⟩

/-- the model of `input` has exactly two outcomes (a case split on the outcome type -- definitional; see the header for
    why there is no third one) -/
theorem classify_total (u : UC) (t : Text) : classify u t = .parsing ∨ ∃ stmts, classify u t = .accepted stmts := by
  cases h : classify u t with
  | parsing => exact Or.inl rfl
  | accepted s => exact Or.inr ⟨s, rfl⟩

/-- a rejected text leaves the loader exactly as it was -/
theorem input_atomic (u : UC) (l : Loader) (t : Text) (h : classify u t = .parsing) : l.input u t = (l, .parsing) := by
  simp [Loader.input, h]

/-- an accepted text appends exactly its statements -/
theorem input_extends (u : UC) (l : Loader) (t : Text) (stmts : List Stmt) (h : classify u t = .accepted stmts) :
    l.input u t = (⟨l.statements ++ stmts⟩, .accepted) := by
  simp [Loader.input, h]

/-- for every sequence of calls on one loader: erasing the rejected calls gives the same loader, hence the same
    statements and the same result of every later build -/
theorem rejected_calls_invisible (u : UC) (l : Loader) (texts : List Text) :
    Loader.inputs u l texts = Loader.inputs u l (texts.filter (isAccepted u)) ∧
    (Loader.inputs u l texts).build u = (Loader.inputs u l (texts.filter (isAccepted u))).build u := by
  have h := inputs_filter u texts l
  exact ⟨h, by rw [← h]⟩

/-- the accumulated content is the concatenation of the statements of the accepted texts, in call order -/
theorem statements_after_calls (u : UC) (l : Loader) (texts : List Text) :
    (Loader.inputs u l texts).statements = l.statements ++ texts.flatMap (acceptedStmts u) :=
  inputs_statements u texts l

/-- later inputs and builds after a rejected call behave as if the call had not happened -/
theorem later_calls_unaffected (u : UC) (l : Loader) (bad : Text) (later : List Text) (h : classify u bad = .parsing) :
    Loader.inputs u l (bad :: later) = Loader.inputs u l later := by
  simp [Loader.inputs, input_atomic u l bad h]

/-- NO BUILT-IN EXCEPTION FROM A BUILD: statements whose values have a lexical form `guess_type_name` knows (every value
    the parser produces has one: `values_classified`) build, or end in the metamodel exception, or in the parsing
    exception.  The outcome type of the model has one more constructor, `builtinErr` -- returned at `stmt.values[idx]`
    (IndexError), at `default_value(None)` (AttributeError) and at `_is_null`'s `len(value)` (TypeError); it is not reached.
    (Attribute names and source keys of the form `__x__` end in the metamodel exception: `reserved_names_rejected`.) -/
theorem build_outcome_total (u : UC) (stmts : List Stmt) (hg : ValuesGuessable u stmts) :
    (∃ s, build u stmts = .ok s) ∨ build u stmts = .error .metaErr ∨ build u stmts = .error .parseErr :=
  build_documented u stmts hg

/-- the hypothesis `ValuesGuessable` of `build_outcome_total` holds for the statements of EVERY accepted text: every
    token the lexer returns for a value has a lexeme `guess_type_name` classifies (the STRING / GUID lexeme is matched by
    its own rule again, a NUMBER / FRACTION lexeme begins with a digit, `TRUE` / `FALSE` are the reserved words), and the
    parser takes values only from a suffix of the token list -/
theorem values_classified (u : UC) (text : Text) (stmts : List Stmt) (h : classify u text = .accepted stmts) :
    ValuesGuessable u stmts := accepted_guessable u text stmts h

/-- NO BUILT-IN EXCEPTION, for a loader: whatever texts were fed to it (accepted or rejected, in any order),
    `build_metamodel` returns a metamodel or raises the metamodel exception or the parsing exception -/
theorem loader_no_builtin (u : UC) (texts : List Text) :
    (∃ s, (Loader.inputs u Loader.fresh texts).build u = .ok s) ∨
    (Loader.inputs u Loader.fresh texts).build u = .error .metaErr ∨
    (Loader.inputs u Loader.fresh texts).build u = .error .parseErr :=
  loader_build_documented u texts

/-- … of which the fifth phase: in every state that phases 1–4 reach, `_is_null` calls `len` on strings only
    (invariant: class names distinct after upper-casing, every stored value of a STRING attribute is a string) -/
theorem connections_never_raise (u : UC) (stmts : List Stmt) (s : BState) (h : buildCore u stmts = .ok s) :
    popConnections u s = .ok s ∧ KindsDistinct u s.classes ∧ ∀ c ∈ s.classes, ∀ row ∈ c.rows, rowTyped u c.attrs row = true :=
  ⟨popConnections_ok u stmts s h, (buildCore_inv u stmts s h).distinct, (buildCore_inv u stmts s h).typed⟩

/-- THE CAUSES OF A FAILING BUILD, EXACTLY, against the state actually reached (`Failure`): a build ends in exception `e`
    iff  (tables) the CREATE TABLE statements name a class twice or state two attribute names of one class that coincide
    after upper-casing [e = metamodel];  or phase 1 gives `s1` and (index) an identifier with attributes names a class
    that `s1` lacks [metamodel];  or phase 2 gives `s2` and (rop) `define_association` rejects a CREATE ROP against the
    classes of `s2` (`RopBad`) [metamodel];  or phase 3 gives `s3` and (insert) the statements split as
    `pre ++ INSERT :: post`, the INSERTs of `pre` succeed from `s3` leaving `s'`, and that INSERT fails in `s'` with `e`
    (`InsertFails`: arity [parsing], name clash of an inferred class [metamodel], unguessable value [built-in],
    unknown attribute type [metamodel], unreadable value [parsing]) -/
theorem build_fails_iff (u : UC) (stmts : List Stmt) (e : BuildErr) :
    build u stmts = .error e ↔ Failure u stmts e := build_error_iff u stmts e

/-- … and one INSERT, in the state the earlier statements left, with the tests spelled out -/
theorem insert_fails_iff (u : UC) (s : BState) (kind : Name) (values : List Text) (names : Option (List Name)) (e : BuildErr) :
    (popInstance u s kind values names = .error e ↔ InsertFails u s kind values names e) ∧
    ((isNamed names && (names.getD []).length != values.length) = true ↔
      ∃ n ns, names = some (n :: ns) ∧ (n :: ns).length ≠ values.length) ∧
    (inferOk u s kind (isNamed names) (names.getD []) values = false ↔
      s.find? u kind = none ∧ ∃ n ns, names = some (n :: ns) ∧ attrNamesOk u (inferredAttrs u (n :: ns) values) = false) ∧
    (guessOk u s kind values = false ↔ s.find? u kind = none ∧ ∃ v ∈ values, guessType u v = none) ∧
    (∀ c, newRowOk u c = false ↔ ∃ a ∈ c.attrs, c.referential.contains a.1 = false ∧ tyOfName u a.2 = none) :=
  ⟨popInstance_error_iff u s kind values names e, arity_iff names values, inferOk_false_iff u s kind values names,
   guessOk_false_iff u s kind values, newRowOk_false_iff u⟩

/-- BUILD SUCCESS: a statement list in which class names are distinct after upper-casing, and so are the attribute
    names within every CREATE TABLE (`BuildOk.attrNames` — `define_class` raises otherwise), identifiers (with attributes)
    and associations name declared classes, key lists have equal length and target keys are attributes of the target
    class, and every INSERT is positional into a declared class with core attribute types and readable values, builds;
    the built state holds exactly the declared classes in statement order (attributes as declared), each with the
    identifiers (an insertion-ordered dict), referential attributes and rows (deserialised values) that its statements
    give it in statement order, and the associations in statement order -/
theorem build_success (u : UC) (stmts : List Stmt) (h : BuildOk u stmts) :
    build u stmts = .ok { classes := (newTables stmts).map (builtClass u stmts), assocs := ropsOf stmts } ∧
    ∀ kind attrs, builtClass u stmts ⟨kind, attrs, [], [], []⟩ =
      ⟨kind, attrs, (idxOf u kind stmts).foldl (fun d na => dictSet na.1 na.2 d) [], refsOf u kind stmts,
        (insOf u kind stmts).map (specCells u ⟨kind, attrs, [], refsOf u kind stmts, []⟩ attrs)⟩ :=
  ⟨build_ok u stmts h, builtClass_eq u stmts⟩

/-- COMPLETENESS, definition phases: each documented cause makes the build end in the metamodel exception —
    two class names equal after upper-casing; a class with two attribute names equal after upper-casing; an identifier (with attributes) for an undeclared class; an association
    whose source or target class is undeclared, whose key lists differ in length, or whose target class lacks a target
    key (`RopBad`) — the latter two when the earlier phases succeed -/
theorem build_outcome_complete_meta (u : UC) (stmts : List Stmt) :
    (¬ KindsDistinct u (newTables stmts) → build u stmts = .error .metaErr) ∧
    ((∃ c ∈ newTables stmts, attrNamesOk u c.attrs = false) → build u stmts = .error .metaErr) ∧
    (KindsDistinct u (newTables stmts) → (∀ c ∈ newTables stmts, attrNamesOk u c.attrs = true) →
      (∃ kind name attrs, Stmt.createIndex kind name attrs ∈ stmts ∧ attrs ≠ [] ∧
        ∀ c ∈ newTables stmts, sameKind u c.kind kind = false) → build u stmts = .error .metaErr) ∧
    (KindsDistinct u (newTables stmts) → (∀ c ∈ newTables stmts, attrNamesOk u c.attrs = true) →
      (∀ kind name attrs, Stmt.createIndex kind name attrs ∈ stmts → attrs ≠ [] → ∃ c ∈ newTables stmts, sameKind u c.kind kind = true) →
      (∃ rel sk sc skeys sp tk tc tkeys tp, Stmt.createRop rel sk sc skeys sp tk tc tkeys tp ∈ stmts ∧
        RopBad u (newTables stmts) sk skeys tk tkeys) → build u stmts = .error .metaErr) :=
  ⟨build_fails_duplicate u stmts, build_fails_attr_names u stmts, build_fails_index u stmts, build_fails_rop u stmts⟩

/-- the first phase succeeds EXACTLY when the declared class names are distinct after upper-casing and no CREATE TABLE
    states two attribute names that coincide after upper-casing (`attrNamesOk`, which decides `Nodup` of the upper-cased
    names: `attr_names_check`) -/
theorem classes_phase_iff (u : UC) (stmts : List Stmt) :
    (∃ s, popClasses u stmts BState.empty = .ok s) ↔
      (KindsDistinct u (newTables stmts) ∧ ∀ c ∈ newTables stmts, attrNamesOk u c.attrs = true) := popClasses_ok_iff u stmts

/-- RESERVED NAMES (`_is_reserved`: `__x__`): a CREATE TABLE with such an attribute name, a CREATE ROP (between declared
    classes) with such a source key, and a named INSERT that creates its class with such a column each end the build in
    the metamodel exception -/
theorem reserved_names_rejected (u : UC) (stmts : List Stmt) :
    ((∃ kind attrs, Stmt.createTable kind attrs ∈ stmts ∧ ∃ a ∈ attrs, isDunder a.1 = true) → build u stmts = .error .metaErr) ∧
    (∀ s kind values n ns, (n :: ns).length = values.length → s.find? u kind = none → (∃ x ∈ n :: ns, isDunder x = true) →
      popInstance u s kind values (some (n :: ns)) = .error .metaErr) ∧
    (∀ classes sk skeys tk tkeys, skeys.any isDunder = true → RopBad u classes sk skeys tk tkeys) := by
  refine ⟨?_, ?_, ?_⟩
  · intro ⟨kind, attrs, hm, a, ha, hd⟩
    apply build_fails_attr_names
    refine ⟨⟨kind, attrs, [], [], []⟩, ?_, ?_⟩
    · clear ha hd
      induction stmts with
      | nil => simp at hm
      | cons st rest ih =>
        simp only [List.mem_cons] at hm
        rcases hm with rfl | hm
        · simp [newTables]
        · cases st <;> simp [newTables, ih hm]
    · cases h : attrNamesOk u attrs with
      | false => rfl
      | true => have := ((attrNamesOk_iff u attrs).mp h).2 a ha; rw [hd] at this; cases this
  · intro s kind values n ns hl hf ⟨x, hx, hd⟩
    apply popInstance_name_clash u s kind values n ns hl hf
    cases h : attrNamesOk u (inferredAttrs u (n :: ns) values) with
    | false => rfl
    | true =>
      exfalso
      have hnames := inferredAttrs_names u (n :: ns) values hl
      have hmem : x ∈ (inferredAttrs u (n :: ns) values).map (fun a => a.1) := by rw [hnames]; exact hx
      obtain ⟨a, ha, rfl⟩ := List.mem_map.mp hmem
      have := ((attrNamesOk_iff u _).mp h).2 a ha
      rw [hd] at this; cases this
  · intro classes sk skeys tk tkeys h
    exact Or.inr (Or.inr (Or.inl h))

/-- what the attribute loop of `define_class` decides, and that the names `_0`, `_1`, … which the loader invents for a
    positional INSERT into an undeclared class always pass it -/
theorem attr_names_check (u : UC) (attrs : List (Name × Name)) (values : List Text) :
    (attrNamesOk u attrs = true ↔ ((attrs.map fun a => u.upper a.1).Nodup ∧ ∀ a ∈ attrs, isDunder a.1 = false)) ∧
    attrNamesOk u (inferredAttrs u (positionalNames values.length) values) = true :=
  ⟨attrNamesOk_iff u attrs, attrNamesOk_positional u values⟩

/-- COMPLETENESS, one INSERT (in whatever state the earlier statements left): a named INSERT with different numbers of
    names and values raises the parsing exception; a named INSERT with as many names as values into an undeclared class
    raises the metamodel exception if two of its names coincide after upper-casing (`define_class` rejects the inferred
    class); a positional INSERT into a declared class raises the metamodel
    exception if a non-referential attribute has an unknown type, and the parsing exception if the types are known and
    some value cannot be read for the type of its column -/
theorem insert_outcome_complete (u : UC) (s : BState) (kind : Name) (values : List Text) :
    (∀ n ns, (n :: ns).length ≠ values.length → popInstance u s kind values (some (n :: ns)) = .error .parseErr) ∧
    (∀ n ns, (n :: ns).length = values.length → s.find? u kind = none →
      attrNamesOk u (inferredAttrs u (n :: ns) values) = false →
      popInstance u s kind values (some (n :: ns)) = .error .metaErr) ∧
    (∀ c, s.find? u kind = some c → newRowOk u c = false → popInstance u s kind values none = .error .metaErr) ∧
    (∀ c, s.find? u kind = some c → newRowOk u c = true → ¬ CellsOk u c.attrs values →
      popInstance u s kind values none = .error .parseErr) :=
  ⟨fun n ns h => popInstance_arity u s kind values n ns h,
   fun n ns hl hf hc => popInstance_name_clash u s kind values n ns hl hf hc,
   fun c hf hr => popInstance_unknown_type u s kind values c hf hr,
   fun c hf hr hc => popInstance_bad_value u s kind values c hf hr _ (positionalCells_bad u c c.attrs values hc)⟩

/-- … and the first INSERT that fails decides the outcome of the build when the definition phases succeed -/
theorem build_first_failing_insert (u : UC) (pre post : List Stmt) (kind : Name) (values : List Text) (names : Option (List Name))
    (s1 s2 s3 s' : BState) (e : BuildErr)
    (h1 : popClasses u (pre ++ Stmt.insert kind values names :: post) BState.empty = .ok s1)
    (h2 : popIdents u (pre ++ Stmt.insert kind values names :: post) s1 = .ok s2)
    (h3 : popAssocs u (pre ++ Stmt.insert kind values names :: post) s2 = .ok s3)
    (hpre : popInstances u pre s3 = .ok s') (hins : popInstance u s' kind values names = .error e) :
    build u (pre ++ Stmt.insert kind values names :: post) = .error e :=
  build_fails_insert u pre post kind values names s1 s2 s3 s' e h1 h2 h3 hpre hins

/-- statements other than INSERT never make a build end in the parsing exception -/
theorem build_parsing_needs_insert (u : UC) (stmts : List Stmt)
    (h : build u stmts = .error .parseErr) : ∃ kind values names, Stmt.insert kind values names ∈ stmts := by
  have hf := (build_error_iff u stmts _).mp h
  cases hf with
  | insert s1 s2 s3 _ _ _ _ hfi =>
    obtain ⟨pre, k, v, n, post, s', hs, _, _⟩ := hfi
    exact ⟨k, v, n, by rw [hs]; simp⟩

/-- SOURCE TIE, phase order: the model's `build` is the generic interpretation (`runPhases`: run the phases in the given
    order, the first exception ends the build) of the order in which `ModelLoader.populate` calls its `populate_<phase>`
    methods in the source now (generated table Gen/BuildShape.lean) — classes, unique identifiers, associations,
    instances, connections (the last one modelled as far as it can raise: `popConnections`).  Reordering the calls in the source changes the table and breaks this theorem. -/
theorem build_follows_source (u : UC) (stmts : List Stmt) :
    build u stmts = runPhases u stmts Gen.BuildShape.populateOrder BState.empty := build_eq_runPhases u stmts

/-- SOURCE TIE, shape of `build_metamodel`, `input` and `populate_associations`: a fresh metamodel is created, populated
    and returned; `input` binds the result of parsing the WHOLE text to a name and only then extends `self.statements`
    with it (the order `input_atomic` rests on); every association is defined and then formalized -/
theorem loader_shape_tie :
    Gen.BuildShape.buildMetamodel = ["v0 = xtuml.MetaModel(id_generator)", "self.populate(v0)", "return v0"] ∧
    Gen.BuildShape.inputSteps = [("parse", "v0"), ("extend", "v0")] ∧
    Gen.BuildShape.associationCalls = ["define_association", "formalize"] := ⟨rfl, rfl, rfl⟩

/-- SOURCE TIE, `build_metamodel` as a whole, for EVERY statement list: the model's `build` is the generic interpretation
    (`iBuildMetamodel`, Proofs/SqlLoaderShape.lean: bind a fresh metamodel, run `populate` = the generic phase runner on the
    generated phase order on the metamodel bound to the name, return what the name is bound to; no handler: an exception of
    `populate` is the outcome and nothing is returned) of the statement list generated from the source now.  A
    `build_metamodel` that populated another name, returned before populating, or populated twice is another list. -/
theorem build_metamodel_as_in_source (u : UC) (stmts : List Stmt) :
    iBuildMetamodel u stmts Gen.BuildShape.populateOrder Gen.BuildShape.buildMetamodel [] = some (build u stmts) :=
  build_eq_iBuildMetamodel u stmts

/-- … and what it does when a phase raises, for EVERY split `pre ++ p :: post` of the generated phase order: when the phases
    `pre` succeed (reaching `s'`) and `p` raises `e` on `s'`, the build IS that exception - the phases `post` never run, the
    half-populated metamodel `s'` is returned to nobody (the only metamodel of the call was the fresh one bound inside it) -/
theorem build_phase_raises_as_in_source (u : UC) (stmts : List Stmt) (pre post : List Gen.BuildShape.Phase)
    (p : Gen.BuildShape.Phase) (s' : BState) (e : BuildErr) (hsplit : Gen.BuildShape.populateOrder = pre ++ p :: post)
    (hpre : runPhases u stmts pre BState.empty = .ok s') (he : phaseFn u stmts p s' = .error e) :
    build u stmts = .error e ∧
    iBuildMetamodel u stmts Gen.BuildShape.populateOrder Gen.BuildShape.buildMetamodel [] = some (.error e) := by
  have h : build u stmts = .error e := by
    rw [build_follows_source, hsplit]
    exact runPhases_raises u stmts p post e pre BState.empty s' hpre he
  exact ⟨h, by rw [build_metamodel_as_in_source, h]⟩

/-- … and when no phase raises, the result is the metamodel the last phase left -/
theorem build_all_phases_as_in_source (u : UC) (stmts : List Stmt) (s' : BState)
    (h : runPhases u stmts Gen.BuildShape.populateOrder BState.empty = .ok s') :
    build u stmts = .ok s' ∧
    iBuildMetamodel u stmts Gen.BuildShape.populateOrder Gen.BuildShape.buildMetamodel [] = some (.ok s') := by
  have hb : build u stmts = .ok s' := by rw [build_follows_source, h]
  exact ⟨hb, by rw [build_metamodel_as_in_source, hb]⟩

/-- SOURCE TIE, `input`, for EVERY loader and text: `Loader.input` is the generic interpretation (`iInputSteps`) of the steps
    generated from the source now - the whole text is parsed and bound to a name first (a ParsingException ends the call with
    `self.statements` as it was), and only then is `self.statements` extended by what that name is bound to -/
theorem input_as_in_source (u : UC) (l : Loader) (text : Text) :
    iInputSteps u text Gen.BuildShape.inputSteps l [] = some (l.input u text) := input_eq_iInputSteps u l text

/-- SOURCE TIE, `populate_associations`, for EVERY statement list and metamodel: the model's phase 3 is the generic
    interpretation (`iPopAssocs`: for each CREATE ROP statement make the listed calls in order - `define_association` checks
    and records the association and returns it, `formalize` of the returned association makes its source keys referential -;
    the first exception ends the phase) of the call list generated from the source now -/
theorem populate_associations_as_in_source (u : UC) (stmts : List Stmt) (s : BState) :
    iPopAssocs u Gen.BuildShape.associationCalls stmts s = some (popAssocs u stmts s) := popAssocs_eq_iPopAssocs u stmts s

/-! non-vacuity of the four ties above.  (1) other statement lists of `build_metamodel` are other functions: returning before
    populating gives the EMPTY metamodel, populating a name that was never bound is no outcome of the model; (2) a phase that
    raises: an association to a class that does not exist ends the build in phase 3 with `pre = [classes, unique_identifiers]`
    succeeding; in another phase order (associations first) a loadable input is refused; (3) other step orders of `input`:
    extending before parsing reads an unbound name, extending twice doubles the statements; (4) `populate_associations`
    without `formalize` leaves the source keys non-referential, `formalize` before `define_association` has no association. -/
example (u : UC) (stmts : List Stmt) :
    iBuildMetamodel u stmts Gen.BuildShape.populateOrder ["v0 = xtuml.MetaModel(id_generator)", "return v0", "self.populate(v0)"] [] =
      some (.ok BState.empty) ∧
    iBuildMetamodel u stmts Gen.BuildShape.populateOrder ["v0 = xtuml.MetaModel(id_generator)", "self.populate(v1)", "return v0"] [] = none ∧
    (∀ m, build u stmts = .ok m →
      iBuildMetamodel u stmts Gen.BuildShape.populateOrder ["v0 = xtuml.MetaModel(id_generator)", "self.populate(v0)"] [] = none) := by
  refine ⟨rfl, rfl, ?_⟩
  intro m h
  rw [build_follows_source] at h
  simp [iBuildMetamodel, bmStmt, bmGet, bmSet, h]

example :
    let stmts : List Stmt := [.createTable ['A'] [(['i'], "INTEGER".toList)],
                             .createRop ['R', '1'] ['A'] [] [['i']] [] ['B'] [] [['j']] []]
    (∃ s', runPhases UC.ascii stmts [.classes, .unique_identifiers] BState.empty = .ok s' ∧
        phaseFn UC.ascii stmts .associations s' = .error .metaErr) ∧
      build UC.ascii stmts = .error .metaErr := by
  refine ⟨⟨⟨[⟨['A'], [(['i'], "INTEGER".toList)], [], [], []⟩], []⟩, rfl, rfl⟩, ?_⟩
  exact (build_phase_raises_as_in_source UC.ascii _ [.classes, .unique_identifiers] [.instances, .connections] .associations
    ⟨[⟨['A'], [(['i'], "INTEGER".toList)], [], [], []⟩], []⟩ .metaErr rfl rfl rfl).1

example :
    let stmts : List Stmt := [.createTable ['A'] [(['i'], "INTEGER".toList)], .createTable ['B'] [(['j'], "INTEGER".toList)],
                             .createRop ['R', '1'] ['A'] [] [['i']] [] ['B'] [] [['j']] []]
    (match build UC.ascii stmts with | .ok _ => true | .error _ => false) = true ∧
    (match runPhases UC.ascii stmts [.associations, .classes, .unique_identifiers, .instances, .connections] BState.empty with
      | .error .metaErr => true | _ => false) = true := by decide

example (u : UC) (l : Loader) (text : Text) (stmts : List Stmt) (h : classify u text = .accepted stmts) :
    iInputSteps u text [("extend", "v0"), ("parse", "v0")] l [] = none ∧
    iInputSteps u text [("parse", "v0"), ("extend", "v0"), ("extend", "v0")] l [] =
      some (⟨l.statements ++ stmts ++ stmts⟩, .accepted) ∧
    iInputSteps u text Gen.BuildShape.inputSteps l [] = some (⟨l.statements ++ stmts⟩, .accepted) := by
  refine ⟨rfl, ?_, ?_⟩
  · simp [iInputSteps, h]
  · simp [Gen.BuildShape.inputSteps, iInputSteps, h]

example :
    let stmts : List Stmt := [.createRop ['R', '1'] ['A'] [] [['i']] [] ['B'] [] [['j']] []]
    let s : BState := ⟨[⟨['A'], [(['i'], "INTEGER".toList)], [], [], []⟩, ⟨['B'], [(['j'], "INTEGER".toList)], [], [], []⟩], []⟩
    (iPopAssocs UC.ascii Gen.BuildShape.associationCalls stmts s).map (fun r => match r with
      | .ok s' => s'.classes.map (·.referential) | .error _ => []) = some [[['i']], []] ∧
    (iPopAssocs UC.ascii ["define_association"] stmts s).map (fun r => match r with
      | .ok s' => s'.classes.map (·.referential) | .error _ => []) = some [[], []] ∧
    iPopAssocs UC.ascii ["formalize", "define_association"] stmts s = none := ⟨by decide, by decide, rfl⟩

/-- the model's matchers were written for exactly the regular expressions the source states now -/
theorem regex_tie (r : Gen.SqlLex.Rule) : Gen.SqlLex.Rule.regex r = modelledRegex r := by
  cases r <;> rfl

/-! ### the lexer rules ARE their source regexes (generic regex engine of PyxModel/Regex.lean on the generated parse trees) -/

/-- the parse trees the hand matchers were written for are the ones generated from the source now -/
theorem rx_tie (r : Gen.SqlLex.Rule) : Gen.SqlLex.Rule.rx r = modelledRx r := by cases r <;> rfl

/-- t_comment `\\-\\-([^\\n]*\\n?)`: two dashes, everything up to the newline, the newline if there is one -/
theorem sql_scanner_is_regex_comment (u : UC) (cs : Text) :
    Pyx.Regex.Regex.matchPrefix (Gen.SqlLex.Rule.rx .comment) cs = (matchRule u .comment cs).map (fun p => p.1.length) ∧
    matchRuleRx .comment cs = matchRule u .comment cs :=
  ⟨matchPrefix_rule u _ (agrees_comment u) cs, matchRuleRx_eq u _ (agrees_comment u) cs⟩

theorem sql_scanner_is_regex_COMMA (u : UC) (cs : Text) :
    Pyx.Regex.Regex.matchPrefix (Gen.SqlLex.Rule.rx .COMMA) cs = (matchRule u .COMMA cs).map (fun p => p.1.length) ∧
    matchRuleRx .COMMA cs = matchRule u .COMMA cs :=
  ⟨matchPrefix_rule u _ (agrees_COMMA u) cs, matchRuleRx_eq u _ (agrees_COMMA u) cs⟩

/-- t_FRACTION `(\\d+)(\\.\\d+)`: the first run of digits cannot give digits back (what follows must begin with the point) -/
theorem sql_scanner_is_regex_FRACTION (u : UC) (hu : u.PyTables) (cs : Text) :
    Pyx.Regex.Regex.matchPrefix (Gen.SqlLex.Rule.rx .FRACTION) cs = (matchRule u .FRACTION cs).map (fun p => p.1.length) ∧
    matchRuleRx .FRACTION cs = matchRule u .FRACTION cs :=
  ⟨matchPrefix_rule u _ (agrees_FRACTION u hu) cs, matchRuleRx_eq u _ (agrees_FRACTION u hu) cs⟩

theorem sql_scanner_is_regex_RELID (u : UC) (cs : Text) :
    Pyx.Regex.Regex.matchPrefix (Gen.SqlLex.Rule.rx .RELID) cs = (matchRule u .RELID cs).map (fun p => p.1.length) ∧
    matchRuleRx .RELID cs = matchRule u .RELID cs :=
  ⟨matchPrefix_rule u _ (agrees_RELID u) cs, matchRuleRx_eq u _ (agrees_RELID u) cs⟩

theorem sql_scanner_is_regex_CARDINALITY (u : UC) (cs : Text) :
    Pyx.Regex.Regex.matchPrefix (Gen.SqlLex.Rule.rx .CARDINALITY) cs = (matchRule u .CARDINALITY cs).map (fun p => p.1.length) ∧
    matchRuleRx .CARDINALITY cs = matchRule u .CARDINALITY cs :=
  ⟨matchPrefix_rule u _ (agrees_CARDINALITY u) cs, matchRuleRx_eq u _ (agrees_CARDINALITY u) cs⟩

/-- t_ID `[A-Za-z_][\\w_]*` (Unicode `\\w`) -/
theorem sql_scanner_is_regex_ID (u : UC) (hu : u.PyTables) (cs : Text) :
    Pyx.Regex.Regex.matchPrefix (Gen.SqlLex.Rule.rx .ID) cs = (matchRule u .ID cs).map (fun p => p.1.length) ∧
    matchRuleRx .ID cs = matchRule u .ID cs :=
  ⟨matchPrefix_rule u _ (agrees_ID u hu) cs, matchRuleRx_eq u _ (agrees_ID u hu) cs⟩

theorem sql_scanner_is_regex_LPAREN (u : UC) (cs : Text) :
    Pyx.Regex.Regex.matchPrefix (Gen.SqlLex.Rule.rx .LPAREN) cs = (matchRule u .LPAREN cs).map (fun p => p.1.length) ∧
    matchRuleRx .LPAREN cs = matchRule u .LPAREN cs :=
  ⟨matchPrefix_rule u _ (agrees_LPAREN u) cs, matchRuleRx_eq u _ (agrees_LPAREN u) cs⟩

theorem sql_scanner_is_regex_MINUS (u : UC) (cs : Text) :
    Pyx.Regex.Regex.matchPrefix (Gen.SqlLex.Rule.rx .MINUS) cs = (matchRule u .MINUS cs).map (fun p => p.1.length) ∧
    matchRuleRx .MINUS cs = matchRule u .MINUS cs :=
  ⟨matchPrefix_rule u _ (agrees_MINUS u) cs, matchRuleRx_eq u _ (agrees_MINUS u) cs⟩

theorem sql_scanner_is_regex_NUMBER (u : UC) (cs : Text) :
    Pyx.Regex.Regex.matchPrefix (Gen.SqlLex.Rule.rx .NUMBER) cs = (matchRule u .NUMBER cs).map (fun p => p.1.length) ∧
    matchRuleRx .NUMBER cs = matchRule u .NUMBER cs :=
  ⟨matchPrefix_rule u _ (agrees_NUMBER u) cs, matchRuleRx_eq u _ (agrees_NUMBER u) cs⟩

theorem sql_scanner_is_regex_RPAREN (u : UC) (cs : Text) :
    Pyx.Regex.Regex.matchPrefix (Gen.SqlLex.Rule.rx .RPAREN) cs = (matchRule u .RPAREN cs).map (fun p => p.1.length) ∧
    matchRuleRx .RPAREN cs = matchRule u .RPAREN cs :=
  ⟨matchPrefix_rule u _ (agrees_RPAREN u) cs, matchRuleRx_eq u _ (agrees_RPAREN u) cs⟩

theorem sql_scanner_is_regex_SEMICOLON (u : UC) (cs : Text) :
    Pyx.Regex.Regex.matchPrefix (Gen.SqlLex.Rule.rx .SEMICOLON) cs = (matchRule u .SEMICOLON cs).map (fun p => p.1.length) ∧
    matchRuleRx .SEMICOLON cs = matchRule u .SEMICOLON cs :=
  ⟨matchPrefix_rule u _ (agrees_SEMICOLON u) cs, matchRuleRx_eq u _ (agrees_SEMICOLON u) cs⟩

/-- t_STRING `\\'((\\'\\')|[^\\'])*\\'`: a greedy repetition of an alternation; when the text ends without a closing quote the engine backs
    off into the LAST doubled quote, exactly as `scanStr` does -/
theorem sql_scanner_is_regex_STRING (u : UC) (cs : Text) :
    Pyx.Regex.Regex.matchPrefix (Gen.SqlLex.Rule.rx .STRING) cs = (matchRule u .STRING cs).map (fun p => p.1.length) ∧
    matchRuleRx .STRING cs = matchRule u .STRING cs :=
  ⟨matchPrefix_rule u _ (agrees_STRING u) cs, matchRuleRx_eq u _ (agrees_STRING u) cs⟩

/-- t_GUID `\\"([^\\\\\\n]|(\\\\.))*?\\"`: a lazy repetition, the closing quote is tried before every iteration; backslash pairs; no newline -/
theorem sql_scanner_is_regex_GUID (u : UC) (cs : Text) :
    Pyx.Regex.Regex.matchPrefix (Gen.SqlLex.Rule.rx .GUID) cs = (matchRule u .GUID cs).map (fun p => p.1.length) ∧
    matchRuleRx .GUID cs = matchRule u .GUID cs :=
  ⟨matchPrefix_rule u _ (agrees_GUID u) cs, matchRuleRx_eq u _ (agrees_GUID u) cs⟩

theorem sql_scanner_is_regex_newline (u : UC) (cs : Text) :
    Pyx.Regex.Regex.matchPrefix (Gen.SqlLex.Rule.rx .newline) cs = (matchRule u .newline cs).map (fun p => p.1.length) ∧
    matchRuleRx .newline cs = matchRule u .newline cs :=
  ⟨matchPrefix_rule u _ (agrees_newline u) cs, matchRuleRx_eq u _ (agrees_newline u) cs⟩

/-- THE SQL LEXER IS ITS SOURCE REGEXES: for every text, the token stream of the model's lexer (hand matchers) is the token
    stream obtained by running the generic regex engine -- Python's `re` semantics: ordered alternation, greedy and lazy
    repetition with backtracking -- on the parse trees that Python's own `re._parser` gives for the `t_*` regexes of
    xtuml/load.py, under PLY's discipline (ignore set, rules in definition order, first match wins, `t_error`).  `u.PyTables`:
    the model's view of `\\d` / `\\w` outside ASCII is CPython's (the harness sends Python's own per case).  With this the
    fuel, progress and round-trip theorems about `lex` are theorems about the source regexes; "each rule regex hand-modelled"
    leaves the trusted base (what stays: the engine itself, validated by A2's self-test, and PLY's discipline). -/
theorem sql_lexer_is_regex (u : UC) (hu : u.PyTables) (cs : Text) : lexRx u cs = lex u cs := lexRx_eq_lex u hu cs

/-! non-vacuity: concrete instances of the hypotheses -/

/-- an unterminated string is rejected (the text ends inside the literal and contains no doubled quote to back off to) -/
example (u : UC) : classify u ['\'', 'x'] = .parsing := by
  have h1 : step u ['\'', 'x'] = .illegal := by
    apply step_of_firstMatch_none u _ _ (by decide)
    rw [firstMatch_quote]; simp [mString, scanStr]
  simp [classify, lex_of_illegal u _ h1]

example (u : UC) (l : Loader) : (l.input u ['\'', 'x']).1 = l := by
  have h1 : step u ['\'', 'x'] = .illegal := by
    apply step_of_firstMatch_none u _ _ (by decide)
    rw [firstMatch_quote]; simp [mString, scanStr]
  have : classify u ['\'', 'x'] = .parsing := by simp [classify, lex_of_illegal u _ h1]
  rw [input_atomic u l _ this]

/-- the empty text is accepted with no statements -/
example (u : UC) : classify u [] = .accepted [] := by simp [classify, lex_nil, parse, parseFuel]

/-- AN ACCEPTED, NON-EMPTY TEXT (a class and one row, printed by the writers' model) and what the theorems say about it:
    it is accepted with exactly its two statements, `input` appends them (`input_extends`), the hypotheses of
    `build_outcome_total` hold (`values_classified`), `build_outcome_total` APPLIED gives the three documented outcomes, and
    the build in fact succeeds -/
example : ∃ text stmts,
    printItems UC.ascii [.cls ['A'] [(['s'], "STRING".toList)], .inst ['A'] [(['s'], "STRING".toList)] [some (.str ['x'])]] = some text ∧
    text ≠ [] ∧ classify UC.ascii text = .accepted stmts ∧
    stmts = [.createTable ['A'] [(['s'], "STRING".toList)], .insert ['A'] ["'x'".toList] none] ∧
    Loader.fresh.input UC.ascii text = (⟨stmts⟩, .accepted) ∧
    ValuesGuessable UC.ascii stmts ∧
    ((∃ s, build UC.ascii stmts = .ok s) ∨ build UC.ascii stmts = .error .metaErr ∨ build UC.ascii stmts = .error .parseErr) ∧
    ∃ s, build UC.ascii stmts = .ok s := by
  cases hp : printItems UC.ascii [.cls ['A'] [(['s'], "STRING".toList)], .inst ['A'] [(['s'], "STRING".toList)] [some (.str ['x'])]] with
  | none => exact absurd hp (by decide)
  | some text =>
    have hw : ∀ it ∈ [Item.cls ['A'] [(['s'], "STRING".toList)], .inst ['A'] [(['s'], "STRING".toList)] [some (.str ['x'])]],
        it.WF UC.ascii := by
      intro it hit
      simp only [List.mem_cons, List.mem_nil_iff, or_false] at hit
      rcases hit with rfl | rfl
      · refine ⟨⟨by decide, by decide, by decide, by decide⟩, ?_⟩
        intro a ha; simp only [List.mem_singleton] at ha; subst ha
        exact ⟨⟨by decide, by decide, by decide, by decide⟩, ⟨by decide, by decide, by decide, by decide⟩⟩
      · refine ⟨⟨by decide, by decide, by decide, by decide⟩, ?_⟩
        intro a ha; simp only [List.mem_singleton] at ha; subst ha
        exact ⟨by unfold NoNewline; decide, by unfold NoNewline; decide⟩
    obtain ⟨stmts, hs, hc⟩ := classify_items UC.ascii _ text hw hp
    have hst : stmts = [.createTable ['A'] [(['s'], "STRING".toList)], .insert ['A'] ["'x'".toList] none] := by
      have : itemsStmts UC.ascii [.cls ['A'] [(['s'], "STRING".toList)], .inst ['A'] [(['s'], "STRING".toList)] [some (.str ['x'])]] =
          some [.createTable ['A'] [(['s'], "STRING".toList)], .insert ['A'] ["'x'".toList] none] := by decide
      rw [this] at hs; exact (Option.some.inj hs).symm
    refine ⟨text, stmts, rfl, ?_, hc, hst, by simp [Loader.input, hc, Loader.fresh], values_classified UC.ascii text stmts hc,
      build_outcome_total UC.ascii stmts (values_classified UC.ascii text stmts hc), ?_⟩
    · intro e; subst e; exact absurd hp (by decide)
    · subst hst
      cases hb : build UC.ascii [.createTable ['A'] [(['s'], "STRING".toList)], .insert ['A'] ["'x'".toList] none] with
      | ok s => exact ⟨s, rfl⟩
      | error e =>
        have : (match build UC.ascii [.createTable ['A'] [(['s'], "STRING".toList)], .insert ['A'] ["'x'".toList] none] with
          | .ok _ => true | _ => false) = true := by decide
        rw [hb] at this; cases this

/-- A FAILING INSERT: the value `'x'` cannot be read for an INTEGER column; the build ends in the parsing exception and
    `build_fails_iff` names the cause (the first failing INSERT, in the state phases 1–3 left) -/
example : build UC.ascii [.createTable ['A'] [(['i'], "INTEGER".toList)], .insert ['A'] ["'x'".toList] none] = .error .parseErr ∧
    Failure UC.ascii [.createTable ['A'] [(['i'], "INTEGER".toList)], .insert ['A'] ["'x'".toList] none] .parseErr := by
  have hb : build UC.ascii [.createTable ['A'] [(['i'], "INTEGER".toList)], .insert ['A'] ["'x'".toList] none] = .error .parseErr := by
    cases h : build UC.ascii [.createTable ['A'] [(['i'], "INTEGER".toList)], .insert ['A'] ["'x'".toList] none] with
    | ok s =>
      have : (match build UC.ascii [.createTable ['A'] [(['i'], "INTEGER".toList)], .insert ['A'] ["'x'".toList] none] with
        | .error .parseErr => true | _ => false) = true := by decide
      rw [h] at this; cases this
    | error e =>
      have : (match build UC.ascii [.createTable ['A'] [(['i'], "INTEGER".toList)], .insert ['A'] ["'x'".toList] none] with
        | .error .parseErr => true | _ => false) = true := by decide
      rw [h] at this
      cases e <;> simp at this ⊢
  exact ⟨hb, (build_fails_iff UC.ascii _ _).mp hb⟩

/-- a duplicate class ends the build in the metamodel exception -/
example (u : UC) : build u [.createTable ['A'] [], .createTable ['A'] []] = .error .metaErr := by
  apply build_fails_duplicate u _
  simp [KindsDistinct, newTables]

/-- two attribute names that differ only in letter case end the build in the metamodel exception (audit C12#3c) -/
example (u : UC) : build u [.createTable ['A'] [(['X'], "INTEGER".toList), (['x'], "INTEGER".toList)],
    .insert ['A'] [['1'], ['2']] none] = .error .metaErr := by
  apply build_fails_attr_names u _
  refine ⟨_, List.mem_cons_self, ?_⟩
  have e : u.upper ['x'] = ['X'] := by simp [UC.upper, UC.up, asciiUpper, isAsciiLower]
  have e' : u.upper ['X'] = ['X'] := by simp [UC.upper, UC.up, asciiUpper, isAsciiLower]
  simp [attrNamesOk, distinctB, e, e']

/-- a named INSERT into an undeclared class with the names `a`, `A` ends the build in the metamodel exception -/
example (u : UC) : popInstance u BState.empty ['K'] [['1'], ['2']] (some [['a'], ['A']]) = .error .metaErr := by
  apply popInstance_name_clash u BState.empty ['K'] [['1'], ['2']] ['a'] [['A']] rfl (by simp [BState.find?, BState.empty])
  have e : u.upper ['a'] = ['A'] := by simp [UC.upper, UC.up, asciiUpper, isAsciiLower]
  have e' : u.upper ['A'] = ['A'] := by simp [UC.upper, UC.up, asciiUpper, isAsciiLower]
  simp [attrNamesOk, distinctB, inferredAttrs, e, e']

/-- a statement list that meets `BuildOk`: one class, one identifier, one reflexive association, one row -/
example : BuildOk UC.ascii [.createTable ['A'] [(['i'], "INTEGER".toList)], .createIndex ['A'] ['I'] [['i']],
    .createRop ['R', '1'] ['A'] ['1'] [['i']] [] ['A'] ['1'] [['i']] [], .insert ['A'] [['7']] none] := by
  refine ⟨by unfold KindsDistinct; decide, ?_, ?_, ?_, ?_⟩
  · intro c hc
    simp only [newTables, List.mem_singleton] at hc; subst hc
    decide
  · intro kind name attrs hm _
    simp only [List.mem_cons, List.mem_nil_iff, or_false, reduceCtorEq, false_or, Stmt.createIndex.injEq] at hm
    obtain ⟨rfl, _, _⟩ := hm
    exact ⟨_, List.mem_singleton.mpr rfl, by decide⟩
  · intro rel sk sc skeys sp tk tc tkeys tp hm
    simp only [List.mem_cons, List.mem_nil_iff, or_false, reduceCtorEq, false_or, Stmt.createRop.injEq] at hm
    obtain ⟨_, rfl, _, rfl, _, rfl, _, rfl, _⟩ := hm
    refine ⟨⟨_, List.mem_singleton.mpr rfl, by decide⟩, ⟨_, List.mem_singleton.mpr rfl, by decide⟩, by decide, rfl, ?_⟩
    intro c hc _ k hk
    simp only [newTables, List.mem_singleton] at hc; subst hc
    simp only [List.mem_singleton] at hk; subst hk
    decide
  · intro kind values names hm
    simp only [List.mem_cons, List.mem_nil_iff, or_false, reduceCtorEq, false_or, Stmt.insert.injEq] at hm
    obtain ⟨rfl, rfl, rfl⟩ := hm
    refine ⟨rfl, ⟨_, List.mem_singleton.mpr rfl, by decide⟩, ?_⟩
    intro c hc _
    simp only [newTables, List.mem_singleton] at hc; subst hc
    exact ⟨by decide, by simp [CellsOk, deserialize, tyOfName, Gen.Persist.Ty.all, Gen.Persist.Ty.chars, UC.upper, UC.up, UC.ascii, asciiUpper, isAsciiLower, pyInt, isDigitText, isAsciiDigit]⟩

/-- the engine on the generated tree of t_STRING: a quote inside (doubled), then the backing-off case -- the text ends after a
    doubled quote, the match ends at the first quote of the pair -/
example : Pyx.Regex.Regex.matchPrefix (Gen.SqlLex.Rule.rx .STRING) "'it''s' x".toList = some 7 ∧
    Pyx.Regex.Regex.matchPrefix (Gen.SqlLex.Rule.rx .STRING) "'a''".toList = some 3 ∧
    Pyx.Regex.Regex.matchPrefix (Gen.SqlLex.Rule.rx .STRING) "'a".toList = none := by decide

/-- … of t_GUID (lazy: stops at the first quote that is not part of a backslash pair) and of t_FRACTION -/
example : Pyx.Regex.Regex.matchPrefix (Gen.SqlLex.Rule.rx .GUID) "\"a\\\"b\" \"".toList = some 6 ∧
    Pyx.Regex.Regex.matchPrefix (Gen.SqlLex.Rule.rx .FRACTION) "12.50x".toList = some 5 ∧
    Pyx.Regex.Regex.matchPrefix (Gen.SqlLex.Rule.rx .FRACTION) "12.x".toList = none := by decide

/-- Python's tables are a model parameter that satisfies `PyTables` (the engine's own tables) -/
example : (⟨Pyx.Regex.isDigit, Pyx.Regex.isWordU, fun c => [c], fun _ => 0⟩ : UC).PyTables := fun _ _ => ⟨rfl, rfl⟩

end PyxProps.C12
