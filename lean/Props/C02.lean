import PyxModel.Meta
namespace PyxProps.C02
theorem placeholder : True := trivial
end PyxProps.C02
