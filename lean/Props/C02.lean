import Proofs.MetaState
import Proofs.MetaDelete
import Gen.LinkDecisions
import Proofs.RelateShape
import Proofs.RelateShapeMore
import Proofs.MetaShapes

/-!
  C02 — Links stay symmetric, bounded and atomic through any operation history.
  Property theorems only.  Model: PyxModel/Meta.lean (xtuml/meta.py: two directed link maps per
  association, `_find_link`, `relate` with undo of the first connect, `unrelate`, `MetaClass.delete`,
  `new`), for an ARBITRARY schema (any list of `define_association` calls) and histories of any length.
-/
namespace PyxProps.C02
open Pyx.Meta

/-- the invariant of the statement, per association: navigation is symmetric (`y` reachable from `x`
    iff `x` reachable from `y` in the opposite direction), partner lists are duplicate-free, and a
    single-valued end holds at most one partner -/
theorem inv_unfold (sch : Schema) (s : State) :
    Inv sch s ↔ ∀ i, (∀ x y, y ∈ (s.links i).src x ↔ x ∈ (s.links i).tgt y) ∧
      ((∀ x, ((s.links i).src x).Nodup) ∧ (∀ y, ((s.links i).tgt y).Nodup)) ∧
      (((specAt sch i).srcMany = false → ∀ x, ((s.links i).src x).length ≤ 1) ∧
       ((specAt sch i).tgtMany = false → ∀ y, ((s.links i).tgt y).length ≤ 1)) := Iff.rfl

/-- one step of ANY operation — accepted or rejected, well-typed or not, on any instances —
    preserves the invariant -/
theorem inv_step (sch : Schema) (s : State) (op : Op) (h : Inv sch s) : Inv sch (step sch s op).1 := step_inv h op

/-- hence every state reachable by any history of new / relate / unrelate / delete calls satisfies it -/
theorem inv_reachable (sch : Schema) (ops : List Op) : Inv sch (run sch ops) :=
  run_inv_from sch ops init (inv_init sch)

/-- a relate that does not return ok (RelateException: a single-valued end would get a second partner, or one of the two
    instances is not in its pool - deleted; UnknownLinkException: unknown association number, kinds or phrase) leaves
    the model exactly as it was -/
theorem relate_reject_atomic (sch : Schema) (s : State) (h : Inv sch s) (x y : Inst) (r p : String)
    (hr : (relate sch s x y r p).2 ≠ .ok) : (relate sch s x y r p).1 = s := Pyx.Meta.relate_reject_atomic h hr

/-- when is a relate rejected with RelateException: on the resolved association, for two LIVE instances, exactly when
    the pair is not yet related and one of the two single-valued ends is already occupied; and as a whole
    (`relate sch s x y r p`, association `i` found in direction `d`) exactly when one of the two instances is not in its
    pool (deleted: a deleted instance must not become reachable again) or the pair is refused in that sense -/
theorem relate_rejected_iff (a : AssocSpec) (l : ALinks) (x y : Inst) (hsym : Sym l) :
    ((relateOn a l x y).2 = .relateExc ↔
      (y ∉ l.src x ∧ ((l.src x ≠ [] ∧ a.srcMany = false) ∨ (l.tgt y ≠ [] ∧ a.tgtMany = false)))) ∧
    (∀ (sch : Schema) (s : State) (i1 i2 : Inst) (r p : String) (i : Nat) (d : Dir),
      findLink sch (s.kindOf i1) (s.kindOf i2) r p = some (i, d) →
      ((relate sch s i1 i2 r p).2 = .relateExc ↔
        (¬ (live s i1 ∧ live s i2) ∨
         (relateOn (specAt sch i) (s.links i) (orient d i1 i2).1 (orient d i1 i2).2).2 = .relateExc))) := by
  refine ⟨relateOn_reject_iff hsym, ?_⟩
  intro sch s i1 i2 r p i d hf
  unfold relate
  simp only [hf]
  by_cases hl : live s i1 ∧ live s i2
  · simp [hl]
  · simp [hl]

/-- **use after delete is rejected**: a relate with an argument that is not in the instance pool of its class (deleted,
    or never created) raises — UnknownLinkException when no association matches, as before, RelateException otherwise
    — and changes nothing -/
theorem relate_on_deleted_rejected (sch : Schema) (s : State) (x y : Inst) (r p : String)
    (h : ¬ (live s x ∧ live s y)) :
    (relate sch s x y r p).1 = s ∧
    ((findLink sch (s.kindOf x) (s.kindOf y) r p).isSome = true → relate sch s x y r p = (s, .relateExc)) ∧
    (findLink sch (s.kindOf x) (s.kindOf y) r p = none → relate sch s x y r p = (s, .unknownLink)) := by
  refine ⟨(relate_not_live_fst h r p).1, fun hs => ?_, fun hn => ?_⟩
  · rcases relate_of_not_live (sch := sch) h r p with ⟨hn, _⟩ | ⟨_, h'⟩
    · rw [hn] at hs; cases hs
    · exact h'
  · rcases relate_of_not_live (sch := sch) h r p with ⟨_, h'⟩ | ⟨hs, _⟩
    · exact h'
    · rw [hn] at hs; cases hs

/-- an unrelate that does not return ok (UnrelateException: pair not linked; UnknownLinkException)
    leaves the model exactly as it was; it is rejected exactly when the pair is not linked -/
theorem unrelate_reject_atomic (sch : Schema) (s : State) (h : Inv sch s) (x y : Inst) (r p : String)
    (hr : (unrelate sch s x y r p).2 ≠ .ok) : (unrelate sch s x y r p).1 = s := Pyx.Meta.unrelate_reject_atomic h hr

theorem unrelate_rejected_iff (l : ALinks) (x y : Inst) (hsym : Sym l) :
    (unrelateOn l x y).2 = .unrelateExc ↔ y ∉ l.src x := unrelateOn_reject_iff hsym

/-- an unknown association number / kinds / phrase is rejected with UnknownLinkException, state unchanged -/
theorem unknown_link_atomic (sch : Schema) (s : State) (x y : Inst) (r p : String)
    (hf : findLink sch (s.kindOf x) (s.kindOf y) r p = none) :
    relate sch s x y r p = (s, .unknownLink) ∧ unrelate sch s x y r p = (s, .unknownLink) := by
  unfold relate unrelate; simp [hf]

/-- `_find_link` is sound: the association it returns carries the requested number and phrase and
    connects the two kinds in the direction that makes the pair well-typed -/
theorem find_link_sound (sch : Schema) (k1 k2 : Kind) (r p : String) (i : Nat) (d : Dir)
    (h : findLink sch k1 k2 r p = some (i, d)) :
    ∃ a, sch[i]? = some a ∧ a.rel = r ∧
      (d = .fwd → a.tgtKind = k1 ∧ a.srcKind = k2 ∧ a.tgtPhrase = p) ∧
      (d = .rev → a.srcKind = k1 ∧ a.tgtKind = k2 ∧ a.srcPhrase = p) := by
  obtain ⟨a, ha, _, hr⟩ := findLinkFrom_sound sch 0 i d h
  exact ⟨a, by simpa using ha, hr⟩

/-- relating an already related pair is a no-op returning ok -/
theorem relate_idempotent (sch : Schema) (s : State) (h : Inv sch s) (x y : Inst) (r p : String) (i : Nat) (d : Dir)
    (hf : findLink sch (s.kindOf x) (s.kindOf y) r p = some (i, d))
    (hrel : (orient d x y).2 ∈ (s.links i).src (orient d x y).1) (hx : live s x) (hy : live s y) :
    relate sch s x y r p = (s, .ok) := Pyx.Meta.relate_idempotent h hf hrel hx hy

/-- a successful unrelate exactly undoes a successful relate of a previously unrelated pair -/
theorem unrelate_undoes_relate (sch : Schema) (s s' : State) (h : Inv sch s) (x y : Inst) (r p : String)
    (i : Nat) (d : Dir) (hf : findLink sch (s.kindOf x) (s.kindOf y) r p = some (i, d))
    (hnew : (orient d x y).2 ∉ (s.links i).src (orient d x y).1)
    (hr : relate sch s x y r p = (s', .ok)) : unrelate sch s' x y r p = (s, .ok) :=
  Pyx.Meta.unrelate_undoes_relate h hf hnew hr

/-- deleting an instance that is not live (never created or already deleted) raises DeleteException
    and changes nothing; in particular a repeated delete is rejected, in every reachable state -/
theorem delete_dead_rejected (sch : Schema) (s : State) (x : Inst) (h : ¬ live s x) :
    delete sch s x = (s, .deleteExc) := Pyx.Meta.delete_dead_rejected sch s x h

theorem delete_twice_rejected (sch : Schema) (ops : List Op) (x : Inst) :
    delete sch (delete sch (run sch ops) x).1 x = ((delete sch (run sch ops) x).1, .deleteExc) :=
  Pyx.Meta.delete_twice_rejected (run_poolInv_from sch ops init poolInv_init) x

/-- only live instances are reachable: preserved by creation, by relate of ANY two instances (accepted or
    rejected; a relate with an instance that is not live is rejected) and by unrelate -/
theorem live_only_new (s : State) (hp : PoolInv s) (hl : LiveOnly s) (k : Kind) (hid : Bool) :
    LiveOnly (new s k hid).1 := new_liveOnly hp hl k hid
theorem live_only_relate (sch : Schema) (s : State) (hl : LiveOnly s) (x y : Inst) (r p : String) :
    LiveOnly (relate sch s x y r p).1 := relate_liveOnly hl
theorem live_only_unrelate (sch : Schema) (s : State) (hl : LiveOnly s) (x y : Inst) (r p : String) :
    LiveOnly (unrelate sch s x y r p).1 := unrelate_liveOnly hl x y r p

/-- `MetaClass.delete` of a live instance succeeds and disconnects EVERY link of the deleted instance, so
    only live instances stay reachable — for schemas in which (kinds, number, phrase) resolve every
    association to itself in both directions (`SchemaOk`), in states whose links are well-typed -/
theorem live_only_delete (sch : Schema) (s : State) (hok : SchemaOk sch) (h : Inv sch s) (ht : Typed sch s)
    (hl : LiveOnly s) (hp : PoolInv s) (x : Inst) (hx : live s x) :
    (delete sch s x).2 = .ok ∧ LiveOnly (delete sch s x).1 := delete_liveOnly hok h ht hl hp hx

/-- every state reachable by ANY history whatsoever (any operations on any arguments: relates of deleted instances,
    rejected calls, repeated deletes, …) satisfies all invariants at once: symmetric, duplicate-free, bounded
    navigation; well-typed links; only live instances reachable; duplicate-free pools -/
theorem all_invariants_reachable (sch : Schema) (hok : SchemaOk sch) (ops : List Op) :
    AllInv sch (run sch ops) := run_allInv_any hok ops init (allInv_init sch)

theorem live_only_reachable (sch : Schema) (hok : SchemaOk sch) (ops : List Op) :
    ∀ i x y, y ∈ ((run sch ops).links i).src x → live (run sch ops) x ∧ live (run sch ops) y :=
  (all_invariants_reachable sch hok ops).liveOnly

/-- the hypothesis `SchemaOk` of the delete / liveness theorems holds for every association shape the property names
    (1:1, 1:M, M:1 unconditional, reflexive with phrases, association class with two formalisations, subtype /
    supertype sharing an identifier, two associations sharing a referential attribute) and for a class with two
    reflexive associations carrying the same phrases — so those theorems are not vacuous on any of them; a reflexive
    association whose two phrases are equal is NOT SchemaOk (example in Proofs/MetaShapes.lean) -/
theorem shapes_are_schemaOk :
    SchemaOk shapeOneOne ∧ SchemaOk shapeOneMany ∧ SchemaOk shapeManyOneUncond ∧ SchemaOk shapeReflexive ∧
    SchemaOk shapeAssocClass ∧ SchemaOk shapeSubsuper ∧ SchemaOk shapeSharedRef ∧ SchemaOk shapeTwoReflexive ∧
    SchemaOk shapePhrased ∧ SchemaOk shapeRefIdChain :=
  shapes_schemaOk

/-- each referential attribute reads as the identifying attribute of the linked instance and as unset when
    unlinked (one formalising association); a class's own id reads as the stored id; a referential attribute
    shared by two associations reads through whichever is linked, the later definition first -/
theorem referential_reads (sch : Schema) (at_ : Attrs) (s : State) (f : Nat) (x : Inst) (name pk : String) (i : Nat)
    (h : formalFrom (s.kindOf x) name 0 sch = [(i, pk)]) :
    getAttr sch at_ s (f + 2) x name =
      match ((s.links i).tgt x).head? with
      | some other => getAttr sch at_ s f other pk
      | none => none := getAttr_single sch at_ s f x name pk i h

theorem own_id_reads (sch : Schema) (at_ : Attrs) (s : State) (f : Nat) (x : Inst) (name : String)
    (h : formalFrom (s.kindOf x) name 0 sch = []) :
    getAttr sch at_ s (f + 1) x name = if at_.idName (s.kindOf x) = some name then some (s.idOf x) else none :=
  getAttr_own sch at_ s f x name h

theorem shared_referential_reads (sch : Schema) (at_ : Attrs) (s : State) (f : Nat) (x : Inst) (name pk1 pk2 : String)
    (i1 i2 : Nat) (h : formalFrom (s.kindOf x) name 0 sch = [(i1, pk1), (i2, pk2)]) :
    getAttr sch at_ s (f + 3) x name =
      match ((s.links i2).tgt x).head? with
      | some other => getAttr sch at_ s (f + 1) other pk2
      | none =>
        match ((s.links i1).tgt x).head? with
        | some other => getAttr sch at_ s f other pk1
        | none => none := getAttr_shared sch at_ s f x name pk1 pk2 i1 i2 h

/-- tie to the source: the decision structure of `Link.connect` and `Link.disconnect` as TRANSLATED from
    xtuml/meta.py on this run (lean/Gen/LinkDecisions.lean: the chain of guarded early returns) is exactly
    what the model's `connect` / `disconnect` do, for every link map and every pair:
    early `return True` ⇒ unchanged map, `return False` ⇒ refused, fall-through ⇒ the mutation -/
theorem link_decisions_as_in_source (many : Bool) (m : Inst → List Inst) (x y : Inst) :
    (connect many m x y =
      match Pyx.Gen.LinkDecisions.connect (decide (y ∈ m x)) (decide (m x ≠ [])) many true with
      | .retTrue => some m
      | .retFalse => none
      | .mutate => some (upd m x (m x ++ [y]))) ∧
    (disconnect m x y =
      match Pyx.Gen.LinkDecisions.disconnect (decide (y ∈ m x)) (decide (m x ≠ [])) with
      | .retTrue => some m
      | .retFalse => none
      | .mutate => some (upd m x ((m x).erase y))) := by
  constructor
  · unfold connect Pyx.Gen.LinkDecisions.connect
    by_cases h1 : y ∈ m x
    · simp [h1]
    · by_cases h2 : m x = [] <;> cases many <;> simp [h1, h2]
  · unfold disconnect Pyx.Gen.LinkDecisions.disconnect
    by_cases h1 : y ∈ m x
    · have h2 : m x ≠ [] := fun h => by rw [h] at h1; simp at h1
      simp [h1, h2]
    · by_cases h2 : m x = [] <;> simp [h1, h2]

/-! non-vacuity: a concrete history over a 1:1 schema reaches a state with one link; the rejected relate
    of a second partner returns RelateException and leaves that state unchanged -/
def sch11 : Schema :=
  [{ rel := "R1", srcKind := 0, srcKeys := ["B_Id"], srcMany := false, srcCond := true, srcPhrase := "",
     tgtKind := 1, tgtKeys := ["Id"], tgtMany := false, tgtCond := true, tgtPhrase := "" }]
def hist : List Op := [.new 0 true, .new 1 true, .new 1 true, .relate 0 1 "R1" ""]
example : ((run sch11 hist).links 0).tgt 0 = [1] ∧ ((run sch11 hist).links 0).src 1 = [0] ∧
    (relate sch11 (run sch11 hist) 0 2 "R1" "").2 = .relateExc ∧
    ((relate sch11 (run sch11 hist) 0 2 "R1" "").1.links 0).src 2 = [] ∧
    (unrelate sch11 (run sch11 hist) 0 2 "R1" "").2 = .unrelateExc ∧
    (relate sch11 (run sch11 hist) 0 2 "R9" "").2 = .unknownLink ∧
    live (run sch11 hist) 0 ∧ ¬ live (delete sch11 (run sch11 hist) 0).1 0 := by decide
/-- the 1:1 schema is `SchemaOk`, so `all_invariants_reachable` applies — here to a history that USES AN INSTANCE
    AFTER ITS DELETE (the relate is rejected, everything reachable stays live) -/
example : SchemaOk sch11 ∧
    AllInv sch11 (run sch11 (hist ++ [.delete 0, .relate 0 1 "R1" "", .new 0 true, .relate 3 1 "R1" ""])) := by
  have hok : SchemaOk sch11 := by
    intro i a h
    match i, h with
    | 0, h => simp [sch11] at h; subst h; decide
    | i + 1, h => simp [sch11] at h
  exact ⟨hok, all_invariants_reachable sch11 hok _⟩

end PyxProps.C02

/-! ==========================================================================================================
  SOURCE TIE one level above Link.connect / Link.disconnect  (section owned by the RelateShape extension)

  translator/gen_relateshape.py reads `MetaModel.define_association`, `_find_link`, `relate`, `unrelate`,
  `MetaClass.delete` / `delete`, `MetaClass.new` and the property getter of `Association.formalize` with `ast`
  on every run and emits their statement structure as a first-order IR (lean/Gen/RelateShape.lean).
  Proofs/RelateShape.lean defines ONE generic interpreter of that IR (`Pyx.Shape.i…`, for any IR value).
  The theorems below state that the model of PyxModel/Meta.lean IS the interpretation of the IR generated from
  the current source — so a change of the order of the two connects, of the direction test, of the undo, of the
  arguments handed to _find_link, of which links delete clears (or in which order), of the storage handling of
  new / delete, or of the getter's fallback changes the IR and breaks these theorems before any test runs; a
  statement outside the expected shape makes the generator raise (broken tie).
  ========================================================================================================== -/
namespace PyxProps.C02
open Pyx.Meta Pyx.Shape Pyx.Gen.RelateShape

/-- `_find_link`: the model's direction test is the loop body read from the source (first guard that fires:
    skip on another rel id, found as given when the SOURCE link goes from the first argument's class to the second's
    with that phrase, found swapped when the TARGET link does), where "source link" / "target link" get their
    classes and phrase as `define_association` hands them to `add_link` -/
theorem find_link_as_in_source (sch : Schema) (k1 k2 : Kind) (rel phrase : String) :
    findLink sch k1 k2 rel phrase =
      (iFindFrom linkDefs findBody k1 k2 rel phrase 0 sch).map (fun r => (r.1, dirOf r.2)) :=
  findLink_eq sch k1 k2 rel phrase

/-- the two connects of `relate` (with the undo of the first when the second is refused) and the two disconnects
    of `unrelate`, on the oriented pair, are the guarded-call lists read from the source -/
theorem relate_steps_as_in_source (a : AssocSpec) (l : ALinks) (x y fromI toI : Inst) :
    relateOn a l x y = iSteps linkDefs a { inst1 := x, inst2 := y, fromI := fromI, toI := toI } relateProg.steps l ∧
    unrelateOn l x y = iSteps linkDefs a { inst1 := x, inst2 := y, fromI := fromI, toI := toI } unrelateProg.steps l :=
  ⟨relateOn_eq a l x y fromI toI, unrelateOn_eq a l x y fromI toI⟩

/-- `relate` and `unrelate` as wholes: `_find_link` on the arguments the source passes, orientation of the pair, the
    guards `for inst in (inst1, inst2): if inst in get_metaclass(inst).deleted: raise RelateException` of relate (none
    in unrelate; `deleted` is filled by the `self.deleted.add(instance)` of `MetaClass.delete`, whose body the
    interpretation consults: without that statement the guard would never fire and this equation would fail), the
    guarded calls on the association found, the exception when no association matches -/
theorem relate_as_in_source (sch : Schema) (s : State) (i1 i2 : Inst) (rel phrase : String) :
    relate sch s i1 i2 rel phrase = iPair linkDefs findBody findElse deleteBody relateProg sch s i1 i2 rel phrase ∧
    unrelate sch s i1 i2 rel phrase = iPair linkDefs findBody findElse deleteBody unrelateProg sch s i1 i2 rel phrase :=
  ⟨relate_eq sch s i1 i2 rel phrase, unrelate_eq sch s i1 i2 rel phrase⟩

/-- `metaclass.links.values()`: the model's link order of a class is the order in which `define_association`
    adds the two links -/
theorem links_of_as_in_source (sch : Schema) (k : Kind) : linksOf sch k = iLinksOfFrom linkDefs k 0 sch :=
  linksOfFrom_eq k sch 0

/-- `MetaClass.delete` (and `delete`, which forwards to it): storage test, removal (the removed instance is added to
    `self.deleted`: `marksDeleted deleteBody = true`, which `relate`'s guard relies on) and exception, then for every
    link of the class in `links` order the unrelate of every partner, with the argument order of the source; the
    `unrelate` it calls is the interpreted one -/
theorem delete_as_in_source (sch : Schema) (s : State) (x : Inst) :
    delete sch s x = iDelete linkDefs (iPair linkDefs findBody findElse deleteBody unrelateProg sch) sch x true deleteBody s ∧
    Pyx.Shape.marksDeleted deleteBody = true :=
  ⟨delete_eq sch s x, rfl⟩

/-- `MetaClass.new`, as far as C02's model goes (allocation, storage, generated id): the phases read from the
    source; the instance is appended to the storage BEFORE the defaults are computed (so a constructor that raises
    later leaves it there), and the batch relate calls `relate(other_inst, inst, …)` -/
theorem new_as_in_source (s : State) (k : Kind) (hasId : Bool) :
    new s k hasId = iNew newPhases s k hasId ∧
    newPhases.idxOf NewPhase.appendStorage < newPhases.idxOf NewPhase.defaults ∧
    newPhases.idxOf NewPhase.construct < newPhases.idxOf NewPhase.appendStorage ∧
    newRelateArgs = (NewArg.other, NewArg.newInst) :=
  ⟨new_eq s k hasId, by decide, by decide, by decide⟩

/-- the referential read: the getter installed by `Association.formalize` navigates the TARGET link, falls back to
    the previously installed property exactly when there is no partner and such a property exists, and otherwise
    returns the partner's attribute (None without partner); the layers pair referential with identifying keys
    as the wrapping loop zips them; "such a property exists" is read as "an earlier formalisation of the attribute
    exists" (the layer list has a tail), which is what the source does since it takes over what was installed under
    the name only if that is a property (`fgetAltIsPropertyOnly`; a method of the same name, e.g. `mro`, is ignored) -/
theorem referential_read_as_in_source (sch : Schema) (at_ : Attrs) (s : State) (fuel : Nat) :
    (∀ x name, getAttr sch at_ s fuel x name = iGetAttr fgetLink fgetFallback sch at_ s fuel x name) ∧
    (∀ x layers, readLayers sch at_ s fuel x layers = iReadLayers fgetLink fgetFallback sch at_ s fuel x layers) ∧
    (∀ a, keyPairs a = iKeyPairs fgetZip a) ∧
    fgetAltIsPropertyOnly = true :=
  ⟨(getAttr_readLayers_eq sch at_ s fuel).1, (getAttr_readLayers_eq sch at_ s fuel).2, keyPairs_eq, rfl⟩

/-! non-vacuity: the interpreter is not a renaming of the model — it runs the generated IR on the 1:1 schema above
    and produces the link, the rejection with undo, the unknown-link exception and the delete -/
example : ((iPair linkDefs findBody findElse deleteBody relateProg sch11 (run sch11 [.new 0 true, .new 1 true, .new 1 true]) 0 1 "R1" "").1.links 0).tgt 0 = [1] ∧
    (iPair linkDefs findBody findElse deleteBody relateProg sch11 (run sch11 hist) 0 2 "R1" "").2 = .relateExc ∧
    ((iPair linkDefs findBody findElse deleteBody relateProg sch11 (run sch11 hist) 0 2 "R1" "").1.links 0).src 2 = [] ∧
    (iPair linkDefs findBody findElse deleteBody relateProg sch11 (run sch11 hist) 0 2 "R9" "").2 = .unknownLink ∧
    iFindFrom linkDefs findBody 1 0 "R1" "" 0 sch11 = some (0, false) ∧
    iFindFrom linkDefs findBody 0 1 "R1" "" 0 sch11 = some (0, true) ∧
    ((iDelete linkDefs (iPair linkDefs findBody findElse deleteBody unrelateProg sch11) sch11 0 true deleteBody (run sch11 hist)).1.links 0).src 1 = [] ∧
    (iDelete linkDefs (iPair linkDefs findBody findElse deleteBody unrelateProg sch11) sch11 0 true deleteBody
      (iDelete linkDefs (iPair linkDefs findBody findElse deleteBody unrelateProg sch11) sch11 0 true deleteBody (run sch11 hist)).1).2 = .deleteExc := by
  decide
/-- use after delete: `a = new A; b = new B; delete(a); relate(a, b, R1)` is rejected with RelateException by the model
    AND by the interpreted source, nothing is linked; with a body of `MetaClass.delete` that does not add to `deleted`
    the interpreted guard would not fire (the relate would be accepted) -/
example : (relate sch11 (run sch11 [.new 0 true, .new 1 true, .delete 0]) 0 1 "R1" "").2 = .relateExc ∧
    (iPair linkDefs findBody findElse deleteBody relateProg sch11 (run sch11 [.new 0 true, .new 1 true, .delete 0]) 0 1 "R1" "").2 = .relateExc ∧
    ((relate sch11 (run sch11 [.new 0 true, .new 1 true, .delete 0]) 0 1 "R1" "").1.links 0).tgt 0 = [] ∧
    (iPair linkDefs findBody findElse [.removeFromStorageElseRaise .deleteExc false] relateProg sch11
      (run sch11 [.new 0 true, .new 1 true, .delete 0]) 0 1 "R1" "").2 = .ok := by
  decide
/-- a different IR gives a different function: with the two connects of relate swapped (and no undo), a relate that is
    refused on the source link would leave a half link behind — the equality theorems really depend on the
    generated program -/
def swappedRelate : PairProg :=
  { findArgs := relateProg.findArgs,
    guards := relateProg.guards,
    steps := [ { call := { link := .targetLink, op := .connect, a1 := .inst2, a2 := .inst1 }, undo := [], raises := .relateExc },
               { call := { link := .sourceLink, op := .connect, a1 := .inst1, a2 := .inst2 }, undo := [], raises := .relateExc } ] }
example : ((iPair linkDefs findBody findElse deleteBody swappedRelate sch11 (run sch11 (hist ++ [.new 0 true])) 3 1 "R1" "").1.links 0).tgt 3 = [1] ∧
    ((relate sch11 (run sch11 (hist ++ [.new 0 true])) 3 1 "R1" "").1.links 0).tgt 3 = [] := by
  decide

/-- WHOLE HISTORIES — the objects every invariant of C02 is stated about (`run sch ops`, `all_invariants_reachable`):
    for every schema and every list of operations, one step of the model is one step of the interpreter of the
    generated IR (`new` through the phases, `relate` / `unrelate` through `_find_link` + guards + guarded calls,
    `delete` through its body calling the interpreted `unrelate`), and the state a history reaches is the state the
    interpreter reaches — the state of an operation that raised is handed on as it was left -/
theorem run_as_in_source (sch : Schema) (s : State) (op : Op) (ops : List Op) :
    step sch s op = iStep linkDefs findBody findElse deleteBody relateProg unrelateProg newPhases sch s op ∧
    run sch ops = iRun linkDefs findBody findElse deleteBody relateProg unrelateProg newPhases sch ops :=
  ⟨step_eq sch s op, run_eq sch ops⟩

/-! non-vacuity: the interpreted history builds the link, rejects the relate after the delete and leaves nothing
    linked; with the swapped program above the same history ends in another state -/
example : ((iRun linkDefs findBody findElse deleteBody relateProg unrelateProg newPhases sch11 hist).links 0).tgt 0 = [1] ∧
    ((iRun linkDefs findBody findElse deleteBody relateProg unrelateProg newPhases sch11
        (hist ++ [.delete 0, .relate 0 1 "R1" ""])).links 0).src 1 = [] ∧
    ((iRun linkDefs findBody findElse deleteBody relateProg unrelateProg newPhases sch11
        (hist ++ [.new 0 true, .relate 3 1 "R1" ""])).links 0).tgt 3 = [] ∧
    ((iRun linkDefs findBody findElse deleteBody swappedRelate unrelateProg newPhases sch11
        (hist ++ [.new 0 true, .relate 3 1 "R1" ""])).links 0).tgt 3 = [1] := by
  decide

end PyxProps.C02

/-! ==========================================================================================================
  AUDIT ROUND 1 REPAIRS (C02#2, #3): referential reads for every sufficient fuel  — appended section
  ========================================================================================================== -/
namespace PyxProps.C02
open Pyx.Meta

/-- C02#2 — THE referential-read clause as one theorem, for a general layer list and EVERY sufficient fuel.
    Hypothesis (acyclicity of the READS, audit round 2): a rank on read states (instance, attribute) drops from a read to the
    read it continues with (`ReadRank`: only along the layers of THAT attribute, only to the partner's identifying attribute
    it reads; without it the Python code itself recurses without end).  A ring or a self-link of instances whose referential
    attribute reads the partner's OWN id needs no rank along the link at all (examples below).  Then for every fuel ≥
    `(rk x name + 1) * (layerBound sch + 2)`: an attribute that no association formalises reads the instance's own id (or is
    unset); a referential attribute reads the converged value (`readValue`) of the identifying attribute of the partner
    across the outermost layer that HAS a partner, and is unset when no layer has one.  The result no longer depends on the
    fuel (`fuel_monotone`). -/
theorem referential_read_clause (sch : Schema) (at_ : Attrs) (s : State) (rk : Inst → String → Nat)
    (hdec : ReadRank sch s rk) (x : Inst) (name : String) (fuel : Nat)
    (hf : (rk x name + 1) * (layerBound sch + 2) ≤ fuel) :
    getAttr sch at_ s fuel x name =
      match (formalFrom (s.kindOf x) name 0 sch).reverse with
      | [] => if at_.idName (s.kindOf x) = some name then some (s.idOf x) else none
      | layers => readSpec (readValue sch at_ s rk) s x layers :=
  getAttr_spec sch at_ s rk hdec x name fuel (by rw [bnd_eq]; exact hf)

theorem fuel_monotone (sch : Schema) (at_ : Attrs) (s : State) (rk : Inst → String → Nat) (hdec : ReadRank sch s rk)
    (x : Inst) (name : String) (f1 f2 : Nat) (h1 : (rk x name + 1) * (layerBound sch + 2) ≤ f1)
    (h2 : (rk x name + 1) * (layerBound sch + 2) ≤ f2) :
    getAttr sch at_ s f1 x name = getAttr sch at_ s f2 x name :=
  getAttr_stable sch at_ s rk hdec (rk x name) x name rfl f1 f2 (by rw [bnd_eq]; exact h1) (by rw [bnd_eq]; exact h2)

/-- C02#3 — the fuel the driver uses is `driverFuel sch s = (s.count + layerBound sch + 1) * (layerBound sch + 2)` — the SAME
    definition in Driver/C02.lean and here.  It is sufficient for every read whose rank is at most `s.count + layerBound sch`:
    the driver's referential reads are the converged values, never an out-of-fuel `none` -/
theorem driver_fuel_sufficient (sch : Schema) (at_ : Attrs) (s : State) (rk : Inst → String → Nat)
    (hdec : ReadRank sch s rk) (x : Inst) (name : String) (hx : rk x name ≤ s.count + layerBound sch) :
    getAttr sch at_ s (driverFuel sch s) x name = readValue sch at_ s rk x name := by
  unfold readValue driverFuel
  apply getAttr_stable sch at_ s rk hdec (rk x name) x name rfl
  · rw [bnd_eq]; exact Nat.mul_le_mul_right _ (by omega)
  · exact Nat.le_refl _

/-- the two sources of a read rank: an instance rank that drops along every target link (the hypothesis of audit round 1,
    rank ≤ number of instances for an acyclic link state), and — in a well-kinded state — a rank on the ATTRIBUTES of the
    schema that drops along every key pair (a property of the schema alone; every state, rings of instances included) -/
theorem read_rank_sources (sch : Schema) (s : State) :
    (∀ rk : Inst → Nat, RankDecreases s rk → ReadRank sch s (fun x _ => rk x)) ∧
    (∀ ar : Kind → String → Nat, AttrRank sch ar → KindsOk sch s → ReadRank sch s (fun x name => ar (s.kindOf x) name)) :=
  ⟨readRank_of_rankDecreases sch s, fun ar har hk => readRank_of_attrRank sch s ar har hk⟩

/-! non-vacuity — the audit's counterexample: R7 N.Next_Id → Z.Id and the reflexive R2 N.Next_Id → N.Next_Id (a
    referential IDENTIFYING key), chain N0 → N1 → N2 → N3 → N4 → Z5.  Every Ni reads Z's id (1); the old fuel
    `2·|assocs| + 4 = 8` ran out on N0 and N1, the new fuel does not. -/
def schChain : Schema :=
  [{ rel := "R7", srcKind := 0, srcKeys := ["Next_Id"], srcMany := true, srcCond := true, srcPhrase := "",
     tgtKind := 1, tgtKeys := ["Id"], tgtMany := false, tgtCond := true, tgtPhrase := "" },
   { rel := "R2", srcKind := 0, srcKeys := ["Next_Id"], srcMany := false, srcCond := true, srcPhrase := "succ",
     tgtKind := 0, tgtKeys := ["Next_Id"], tgtMany := false, tgtCond := true, tgtPhrase := "pred" }]
def stChain : State :=
  { init with
    kindOf := fun x => if x = 5 then 1 else 0, count := 6, idOf := fun x => if x = 5 then 1 else 0
    links := fun i =>
      if i = 0 then { src := fun x => if x = 5 then [4] else [], tgt := fun x => if x = 4 then [5] else [] }
      else { src := fun x => if 1 ≤ x ∧ x ≤ 4 then [x - 1] else [], tgt := fun x => if x < 4 then [x + 1] else [] } }
def atChain : Attrs := { idName := fun k => if k = 1 then some "Id" else none }
theorem stChain_rank : RankDecreases stChain (fun x => 5 - x) := by
  intro i x o h
  by_cases hi : i = 0
  · subst hi
    by_cases hx : x = 4
    · subst hx; simp [stChain] at h; subst h; decide
    · simp [stChain, hx] at h
  · by_cases hx : x < 4
    · simp [stChain, hi, hx] at h; subst h
      exact Nat.sub_lt_sub_left (Nat.lt_of_lt_of_le hx (by decide)) (Nat.lt_succ_self x)
    · simp [stChain, hi, hx] at h
example : ((List.range 5).map fun x => getAttr schChain atChain stChain (driverFuel schChain stChain) x "Next_Id") =
      [some 1, some 1, some 1, some 1, some 1] ∧
    ((List.range 5).map fun x => getAttr schChain atChain stChain (2 * schChain.length + 4) x "Next_Id") =
      [none, none, some 1, some 1, some 1] := by decide
/-- `KindsOk` — partners across an association are of its target kind — holds in EVERY reachable state (any history, any
    arguments): it follows from symmetric navigation and well-typed links, two of the invariants of
    `all_invariants_reachable` -/
theorem kindsOk_reachable (sch : Schema) (hok : SchemaOk sch) (ops : List Op) : KindsOk sch (run sch ops) := by
  have hall := all_invariants_reachable sch hok ops
  intro i a x o ha ho
  have hmem : o ∈ ((run sch ops).links i).tgt x := List.mem_of_mem_head? ho
  have hsym : x ∈ ((run sch ops).links i).src o := ((hall.inv i).1 o x).2 hmem
  obtain ⟨a', ha', hko, _⟩ := hall.typed i o x hsym
  rw [ha] at ha'
  cases ha'
  exact hko

/-- hence for a schema whose referential keys do not refer to one another in a cycle (`AttrRank`, a property of the SCHEMA)
    the acyclicity hypothesis `ReadRank` of the referential-read clause holds in every reachable state — rings and
    self-links of instances included -/
theorem read_rank_reachable (sch : Schema) (hok : SchemaOk sch) (ar : Kind → String → Nat) (har : AttrRank sch ar)
    (ops : List Op) : ReadRank sch (run sch ops) (fun x name => ar ((run sch ops).kindOf x) name) :=
  readRank_of_attrRank sch (run sch ops) ar har (kindsOk_reachable sch hok ops)

/-- the driver's fuel is enough on EVERY harness shape, in every reachable state with an instance, for every read: the
    referential keys of no shape of meta_common.SHAPES refer to one another in a cycle (`shapes_attrRank`: the rank `shapeRank`
    drops along every key pair and never exceeds 2), every shape is SchemaOk, hence `ReadRank` holds in every reachable state
    (read_rank_reachable) within the bound `count + layerBound` — no referential read of a correspondence run is an
    out-of-fuel `none` (docs/audit-round4.md, finding 10) -/
theorem driver_reads_converged_on_shapes (sch : Schema) (h : sch ∈ allShapes) (at_ : Attrs) (ops : List Op)
    (x : Inst) (name : String) (hc : 1 ≤ (run sch ops).count) :
    getAttr sch at_ (run sch ops) (driverFuel sch (run sch ops)) x name =
      readValue sch at_ (run sch ops) (fun y n => shapeRank sch ((run sch ops).kindOf y) n) x name := by
  apply driver_fuel_sufficient sch at_ (run sch ops) _
    (read_rank_reachable sch (shapes_all_schemaOk sch h) (shapeRank sch) (shapes_attrRank sch h).1 ops) x name
  have h1 := shapeRank_le sch ((run sch ops).kindOf x) name
  have h2 := (shapes_attrRank sch h).2
  omega

/-- applied: the A.B_Id → B.Id → C.Id shape after a history that links the chain -/
example : shapeRefIdChain ∈ allShapes ∧
    1 ≤ (run shapeRefIdChain [.new 2 true, .new 1 false, .new 0 true, .relate 1 0 "R9" "", .relate 2 1 "R8" ""]).count := by
  decide

/-- the clause and the driver's fuel APPLIED to the chain: N0 reads, through five hops, the id of Z5 -/
example : getAttr schChain atChain stChain (driverFuel schChain stChain) 0 "Next_Id" =
    readValue schChain atChain stChain (fun x _ => 5 - x) 0 "Next_Id" :=
  driver_fuel_sufficient schChain atChain stChain (fun x _ => 5 - x)
    (readRank_of_rankDecreases schChain stChain _ stChain_rank) 0 "Next_Id" (by decide)

/-! the audit's two states of the PLAIN reflexive shape (R2: N.Next_Id → N.Id, phrases precedes / succeeds): the ring
    `relate 0 1; relate 1 0` and a self-link.  No instance rank exists (`RankDecreases` is unsatisfiable: it would need
    rk 1 < rk 0 < rk 1, resp. rk 0 < rk 0), but the read of Next_Id continues with the partner's OWN id, which is the end of
    the read: the attribute rank Next_Id ↦ 1, Id ↦ 0 is a `ReadRank`, and the clause gives the reads. -/
def schRefl : Schema :=
  [{ rel := "R2", srcKind := 0, srcKeys := ["Next_Id"], srcMany := false, srcCond := true, srcPhrase := "precedes",
     tgtKind := 0, tgtKeys := ["Id"], tgtMany := false, tgtCond := true, tgtPhrase := "succeeds" }]
def atRefl : Attrs := { idName := fun _ => some "Id" }
def arRefl : Kind → String → Nat := fun _ name => if name = "Next_Id" then 1 else 0
def stRing : State :=
  { init with count := 2, idOf := fun x => x + 1, pool := fun _ => [0, 1]
              links := fun _ => { src := fun x => if x = 0 then [1] else if x = 1 then [0] else [],
                                  tgt := fun x => if x = 0 then [1] else if x = 1 then [0] else [] } }
def stSelf : State :=
  { init with count := 1, idOf := fun x => x + 1, pool := fun _ => [0]
              links := fun _ => { src := fun x => if x = 0 then [0] else [], tgt := fun x => if x = 0 then [0] else [] } }
example : (¬ ∃ rk, RankDecreases stRing rk) ∧ (¬ ∃ rk, RankDecreases stSelf rk) := by
  constructor
  · intro ⟨rk, h⟩
    have h1 := h 0 0 1 (by decide)
    have h2 := h 0 1 0 (by decide)
    omega
  · intro ⟨rk, h⟩
    have h1 := h 0 0 0 (by decide)
    omega
theorem schRefl_attrRank : AttrRank schRefl arRefl := by
  intro a ha p hp
  simp only [schRefl, List.mem_singleton] at ha
  subst ha
  simp only [keyPairs, List.zip_cons_cons, List.zip_nil_right, List.mem_singleton] at hp
  subst hp
  decide
theorem refl_kindsOk (s : State) (hk : ∀ x, s.kindOf x = 0) : KindsOk schRefl s := by
  intro i a x o ha _
  have : a ∈ schRefl := List.mem_of_getElem? ha
  simp only [schRefl, List.mem_singleton] at this
  subst this
  exact hk o
example : ReadRank schRefl stRing (fun x name => arRefl (stRing.kindOf x) name) ∧
    ReadRank schRefl stSelf (fun x name => arRefl (stSelf.kindOf x) name) :=
  ⟨readRank_of_attrRank schRefl stRing arRefl schRefl_attrRank (refl_kindsOk stRing (fun _ => rfl)),
   readRank_of_attrRank schRefl stSelf arRefl schRefl_attrRank (refl_kindsOk stSelf (fun _ => rfl))⟩
/-- the clause applied on the ring: with the driver's fuel, instance 0 reads the id of its partner 1 (and 1 that of 0); on the
    self-link instance 0 reads its own id -/
example : getAttr schRefl atRefl stRing (driverFuel schRefl stRing) 0 "Next_Id" =
      readValue schRefl atRefl stRing (fun x name => arRefl (stRing.kindOf x) name) 0 "Next_Id" :=
  driver_fuel_sufficient schRefl atRefl stRing _
    (readRank_of_attrRank schRefl stRing arRefl schRefl_attrRank (refl_kindsOk stRing (fun _ => rfl))) 0 "Next_Id" (by decide)
example : getAttr schRefl atRefl stRing (driverFuel schRefl stRing) 0 "Next_Id" = some 2 ∧
    getAttr schRefl atRefl stRing (driverFuel schRefl stRing) 1 "Next_Id" = some 1 ∧
    getAttr schRefl atRefl stSelf (driverFuel schRefl stSelf) 0 "Next_Id" = some 1 := by decide

/-- `read_rank_reachable` APPLIED: `schRefl` is `SchemaOk` and has the attribute rank `arRefl`, so the read rank holds after
    this history, which links two instances into a RING (0 → 1 → 0) — no instance rank exists there -/
example : ReadRank schRefl (run schRefl [.new 0 true, .new 0 true, .relate 0 1 "R2" "succeeds", .relate 1 0 "R2" "succeeds"])
    (fun x name => arRefl ((run schRefl [.new 0 true, .new 0 true, .relate 0 1 "R2" "succeeds", .relate 1 0 "R2" "succeeds"]).kindOf x) name) ∧
    ((run schRefl [.new 0 true, .new 0 true, .relate 0 1 "R2" "succeeds", .relate 1 0 "R2" "succeeds"]).links 0).tgt 0 ≠ [] ∧
    ((run schRefl [.new 0 true, .new 0 true, .relate 0 1 "R2" "succeeds", .relate 1 0 "R2" "succeeds"]).links 0).tgt 1 ≠ [] := by
  have hok : SchemaOk schRefl := by
    intro i a h
    match i, h with
    | 0, h => simp [schRefl] at h; subst h; decide
    | i + 1, h => simp [schRefl] at h
  have har : AttrRank schRefl arRefl := by
    intro a ha p hp
    simp only [schRefl, List.mem_cons, List.not_mem_nil, or_false] at ha
    subst ha
    simp only [keyPairs, List.zip_cons_cons, List.zip_nil_right, List.mem_cons, List.not_mem_nil, or_false] at hp
    subst hp
    decide
  exact ⟨read_rank_reachable schRefl hok arRefl har _, by decide, by decide⟩

end PyxProps.C02

