import Proofs.OalExpr
import Proofs.OalStmt
import Gen.OalPrec
import Proofs.OalLayout
import Proofs.OalTight
import Proofs.OalFuel
import Proofs.OalMinimal
import Proofs.OalText
import Proofs.OalPrecTie

/-!
  C07 — OAL parsing follows the precedence table and ignores layout.   (TOKEN level)

  Property theorems only; helper lemmas are in Proofs/OalExpr.lean (and Proofs/OalStmt.lean).
  Model: PyxModel/Oal/Expr.lean (tokens, expression tree, precedence-climbing parser parameterised by a
  table, minimal and full renderers), PyxModel/Oal/Stmt.lean (statements).  The table of the real grammar is
  GENERATED from bridgepoint/oal.py on every run: Gen/OalPrec.lean.  The interface to the text is the token
  stream of the real PLY lexer; layout (white space, line breaks, comments) is removed there and is tied to
  this model by the correspondence harness, the character-level lexer being modelled for C13/C08.
  Sections 7-9 (audit round 1): the fuel of the parsers is never the reason for a rejection (arbitrary token
  lists); `render` writes no parenthesis that could be left out; TEXT → TREE: the character-level lexer model
  composed with the parser model (`text_roundtrip`).  The last section re-exports builder-A2's layout theorems.
  Kinds of theorems (tools/meta/C07.json `theorem_kinds`): `table_wellformed`, `prec_facts`, `prec_order`,
  `binOps_as_in_source`, `table_stmt_wellformed`, `grammar_shape`, `expr_grammar_shape`, `name_classes` are decisions over generated /
  literal tables, not property theorems (`prec_table_as_in_source` and the two `*_row_*_as_in_source` theorems are
  for-all ties to the generated `precRows`); the `_oal` / `_fuel` forms and `left_assoc`, `tighter_binds`,
  `unary_binds_tightest`, `*_reject_not_exhaustion`, `render_erase_paren`, `text_roundtrip_blanks` are corollaries.
-/
namespace PyxProps.C07
open Pyx.Oal
open Pyx.Gen.OalPrec (table precRows binOps binProds unOps unaryProd unaryRow unaryPrecName stmtProds exprProds kwIdent1 kwIdent2
  kwIdent3 kwIdent4)

/-! ## 1. the precedence round trip, for ANY well-formed table and ANY tree (unbounded depth) -/

/-- Writing an expression tree with only the parentheses the table requires and parsing the tokens back
    yields exactly that tree and leaves exactly the rest, whenever the rest does not begin with a token
    that could extend the expression (`. [ (` or a binary operator).  A comparison nested in a comparison is
    one of the places where parentheses are required (non-associative level), and `render` writes them. -/
theorem prec_roundtrip (t : Tbl) (wf : t.WF) (e : Expr) (hok : e.Ok t) (rest : List Tok) (hs : Stops t 0 rest) :
    parseExprTop t (render t e 0 ++ rest) = some (e, rest) :=
  roundtrip_top wf hok hs

/-- the same at any required level and for every sufficient amount of fuel (the form the statement
    parser uses: an expression that is followed by more tokens) -/
theorem prec_roundtrip_fuel (t : Tbl) (wf : t.WF) (e : Expr) (hok : e.Ok t) (need : Nat) (rest : List Tok)
    (hs : Stops t need rest) (f : Nat) (hf : cost e + 3 ≤ f) :
    parseExpr t f need (render t e need ++ rest) = some (e, rest) :=
  roundtrip_fuel wf hok need hs f hf

/-! ## 2. the generated table -/

/-- the hypotheses of `prec_roundtrip` hold of the table read from bridgepoint/oal.py -/
theorem table_wellformed : table.WF :=
  wf_ofLists (by decide)

/-- what the property states about the operators, decided on the generated table:
    or < and < comparisons < additive (+ - |) < multiplicative (* / & ^) < modulo (%) < unary;
    comparisons are non-associative, all other binary levels group to the left; nothing else is a binary
    operator; the unary operators are not, empty, not_empty, cardinality, +, -; the production
    `expression : unary_operator expression` has the level of the UNARY row (its `%prec`), and every
    binary production has the precedence of its operator token. -/
theorem prec_facts :
    table.bin .OR = some (1, .left) ∧
    table.bin .AND = some (2, .left) ∧
    (∀ k ∈ [Kind.LESSTHAN, .LE, .DOUBLEEQUAL, .GT, .GE, .NOTEQUAL], table.bin k = some (3, .nonassoc)) ∧
    (∀ k ∈ [Kind.PLUS, .MINUS, .PIPE], table.bin k = some (4, .left)) ∧
    (∀ k ∈ [Kind.TIMES, .DIV, .AMP, .CARET], table.bin k = some (5, .left)) ∧
    table.bin .MOD = some (6, .left) ∧
    table.ulevel = 7 ∧
    (∀ k, k ∉ [Kind.OR, .AND, .LESSTHAN, .LE, .DOUBLEEQUAL, .GT, .GE, .NOTEQUAL, .PLUS, .MINUS, .PIPE, .TIMES,
        .DIV, .AMP, .CARET, .MOD] → table.bin k = none) ∧
    (∀ k, table.un k = true ↔ k ∈ [Kind.NOT, .EMPTY, .NOT_EMPTY, .CARDINALITY, .PLUS, .MINUS]) ∧
    unaryPrecName = some "UNARY" ∧ unaryRow = some unaryProd ∧ unaryProd.2 = .right ∧
    binProds = binOps := by
  refine ⟨by decide, by decide, by decide, by decide, by decide, by decide, by decide, ?_, ?_, by decide, by decide,
    by decide, by decide⟩
  · exact forall_kind (by decide)
  · exact forall_kind (by decide)

/-- the strict order of the levels, spelled out -/
theorem prec_order :
    ∀ lo la lc ld lm lp : Nat × Assoc,
      table.bin .OR = some lo → table.bin .AND = some la → table.bin .LESSTHAN = some lc →
      table.bin .PLUS = some ld → table.bin .TIMES = some lm → table.bin .MOD = some lp →
      lo.1 < la.1 ∧ la.1 < lc.1 ∧ lc.1 < ld.1 ∧ ld.1 < lm.1 ∧ lm.1 < lp.1 ∧ lp.1 < table.ulevel := by
  intro lo la lc ld lm lp h1 h2 h3 h4 h5 h6
  have hf := prec_facts
  rw [hf.1] at h1
  rw [hf.2.1] at h2
  rw [hf.2.2.1 _ (by decide)] at h3
  rw [hf.2.2.2.1 _ (by decide)] at h4
  rw [hf.2.2.2.2.1 _ (by decide)] at h5
  rw [hf.2.2.2.2.2.1] at h6
  cases h1; cases h2; cases h3; cases h4; cases h5; cases h6
  rw [hf.2.2.2.2.2.2.1]
  decide

/-- the generated operator list is the generic yacc reading (`precInterp`, Proofs/OalPrecTie.lean) of the generated
    `OALParser.precedence` rows for the generated alternatives `expression : expression TOK expression`
    (a check of two generated tables against each other; the for-all statement is `prec_table_as_in_source`) -/
theorem binOps_as_in_source : binOps = precInterp precRows (binOps.map (·.1)) := by decide +kernel

/-- prec_table_as_in_source: for EVERY token kind, the level and associativity the parser model works with
    (`table.bin`) are the 1-based index and the associativity of the row of `OALParser.precedence` that lists the
    token's PLY name when the token is one of the alternatives `expression TOK expression`, and "not a binary
    operator" for every other token; the model's unary operators are the alternatives of `unary_operator`, and the
    level of `unary_operator expression` is the row named UNARY (right-associative).  Moving a name to another row,
    reordering rows or changing a row's associativity in oal.py changes `precRows` and with it this equation. -/
theorem prec_table_as_in_source (k : Kind) :
    table.bin k = (if k ∈ binOps.map (·.1) then rowOf precRows k.name 1 else none) ∧
    table.un k = unOps.contains k ∧
    rowOf precRows "UNARY" 1 = some (table.ulevel, .right) := by
  refine ⟨?_, rfl, by decide +kernel⟩
  have h := ofLists_precInterp precRows unOps unaryProd.1 k (binOps.map (·.1))
  rw [← binOps_as_in_source] at h
  exact h

/-- theorem 1 at the generated table: no hypothesis about the table is left -/
theorem prec_roundtrip_oal (e : Expr) (hok : e.Ok table) (rest : List Tok) (hs : Stops table 0 rest) :
    parseExprTop table (render table e 0 ++ rest) = some (e, rest) :=
  prec_roundtrip table table_wellformed e hok rest hs

/-! ## 3. corollaries: concrete parse equations over arbitrary operand subtrees -/

/-- `a ∘ b ∘' c` with `∘`, `∘'` of one left-associative level parses as `(a ∘ b) ∘' c` -/
theorem left_assoc (t : Tbl) (wf : t.WF) (a b c : Expr) (o o' : Tok) (lv : Nat)
    (ho : t.bin o.kind = some (lv, .left)) (ho' : t.bin o'.kind = some (lv, .left))
    (ha : a.Ok t) (hb : b.Ok t) (hc : c.Ok t) (rest : List Tok) (hs : Stops t 0 rest) :
    parseExprTop t (render t a lv ++ o :: (render t b (lv + 1) ++ o' :: (render t c (lv + 1) ++ rest))) =
      some (.bin (.bin a o b) o' c, rest) := by
  have hok : (Expr.bin (.bin a o b) o' c).Ok t := by simp [Expr.Ok, ho, ho', ha, hb, hc]
  have h := prec_roundtrip t wf _ hok rest hs
  have hl : ¬ (Expr.bin a o b).level t < lv := by simp [Expr.level, ho]
  rw [render_zero, renderRaw_bin t _ o' c ho'] at h
  simp only [lmin, rmin] at h
  rw [render_raw t hl, renderRaw_bin t a o b ho] at h
  simp only [lmin, rmin] at h
  simpa only [List.append_assoc, List.cons_append] using h

/-- `a ∘ b • c` with `•` of a higher level than `∘` parses as `a ∘ (b • c)`, and `a • b ∘ c` as `(a • b) ∘ c` -/
theorem tighter_binds (t : Tbl) (wf : t.WF) (a b c : Expr) (o o' : Tok) (lv lv' : Nat) (as as' : Assoc)
    (ho : t.bin o.kind = some (lv, as)) (ho' : t.bin o'.kind = some (lv', as')) (hlt : lv < lv')
    (ha : a.Ok t) (hb : b.Ok t) (hc : c.Ok t) (rest : List Tok) (hs : Stops t 0 rest) :
    parseExprTop t (render t a (lmin lv as) ++ o :: (render t b (lmin lv' as') ++ o' :: (render t c (rmin lv' as') ++ rest))) =
        some (.bin a o (.bin b o' c), rest) ∧
    parseExprTop t (render t a (lmin lv' as') ++ o' :: (render t b (rmin lv' as') ++ o :: (render t c (rmin lv as) ++ rest))) =
        some (.bin (.bin a o' b) o c, rest) := by
  constructor
  · have hok : (Expr.bin a o (.bin b o' c)).Ok t := by simp [Expr.Ok, ho, ho', ha, hb, hc]
    have h := prec_roundtrip t wf _ hok rest hs
    have hr : ¬ (Expr.bin b o' c).level t < rmin lv as := by
      have := rmin_ge lv as
      cases as <;> simp [Expr.level, ho', rmin] <;> omega
    rw [render_zero, renderRaw_bin t a o _ ho, render_raw t hr, renderRaw_bin t b o' c ho'] at h
    simpa only [List.append_assoc, List.cons_append] using h
  · have hok : (Expr.bin (.bin a o' b) o c).Ok t := by simp [Expr.Ok, ho, ho', ha, hb, hc]
    have h := prec_roundtrip t wf _ hok rest hs
    have hl : ¬ (Expr.bin a o' b).level t < lmin lv as := by
      cases as <;> simp [Expr.level, ho', lmin] <;> omega
    rw [render_zero, renderRaw_bin t _ o c ho, render_raw t hl, renderRaw_bin t a o' b ho'] at h
    simpa only [List.append_assoc, List.cons_append] using h

/-- `u a ∘ b` parses as `(u a) ∘ b`: a unary operator binds tighter than every binary operator -/
theorem unary_binds_tightest (t : Tbl) (wf : t.WF) (a b : Expr) (u o : Tok) (lv : Nat) (as : Assoc)
    (hu : t.un u.kind = true) (ho : t.bin o.kind = some (lv, as))
    (ha : a.Ok t) (hb : b.Ok t) (rest : List Tok) (hs : Stops t 0 rest) :
    parseExprTop t (u :: (render t a t.ulevel ++ o :: (render t b (rmin lv as) ++ rest))) =
      some (.bin (.un u a) o b, rest) := by
  have hok : (Expr.bin (.un u a) o b).Ok t := by simp [Expr.Ok, ho, hu, ha, hb]
  have h := prec_roundtrip t wf _ hok rest hs
  have hl : ¬ (Expr.un u a).level t < lmin lv as := by
    have := wf.binLt _ _ _ ho
    cases as <;> simp [Expr.level, lmin] <;> omega
  rw [render_zero, renderRaw_bin t _ o b ho, render_raw t hl, renderRaw_un] at h
  simpa only [List.append_assoc, List.cons_append] using h

/-- a parenthesised subexpression is ONE operand whatever it contains and whatever stands next to it:
    `x ∘ ( e )` parses as `∘(x, e)` and `( e ) ∘ y` as `∘(e, y)`, for every `e` — also when the parentheses
    are not required -/
theorem paren_kept_as_operand (t : Tbl) (wf : t.WF) (e x : Expr) (o : Tok) (lv : Nat) (as : Assoc)
    (ho : t.bin o.kind = some (lv, as)) (he : e.Ok t) (hx : x.Ok t) (rest : List Tok) (hs : Stops t 0 rest) :
    parseExprTop t (render t x (lmin lv as) ++ o :: (LP :: (render t e 0 ++ [RP]) ++ rest)) = some (.bin x o e, rest) ∧
    parseExprTop t (LP :: (render t e 0 ++ [RP]) ++ o :: (render t x (rmin lv as) ++ rest)) = some (.bin e o x, rest) := by
  rw [render_zero]
  exact ⟨parse_bin_texts wf ho hx he (operandText_render t x _) (Or.inr rfl) hs,
    parse_bin_texts wf ho he hx (Or.inr rfl) (operandText_render t x _) hs⟩

/-- the same under a unary operator: `∘ ( e )` parses as `∘(e)` for every `e` (also when the parentheses are not
    required), and `∘ e` without parentheses does whenever the level of `e` allows it -/
theorem paren_kept_as_operand_unary (t : Tbl) (wf : t.WF) (e : Expr) (o : Tok) (ho : t.un o.kind = true)
    (he : e.Ok t) (rest : List Tok) (hs : Stops t 0 rest) :
    parseExprTop t (o :: LP :: (render t e 0 ++ [RP]) ++ rest) = some (.un o e, rest) ∧
    (t.ulevel ≤ e.level t → parseExprTop t (o :: (render t e 0 ++ rest)) = some (.un o e, rest)) := by
  rw [render_zero]
  exact ⟨parse_un_text wf ho he (Or.inr rfl) hs, fun hl => parse_un_text wf ho he (Or.inl ⟨rfl, hl⟩) hs⟩

/-- at the parser: two operators that `OALParser.precedence` lists in ONE row declared `left` group to the left,
    `a ∘ b ∘' c` = `(a ∘ b) ∘' c`, for all operand trees — the hypotheses speak about the generated ROWS only -/
theorem same_row_groups_left_as_in_source (a b c : Expr) (o o' : Tok) (lv : Nat)
    (ho : o.kind ∈ binOps.map (·.1)) (ho' : o'.kind ∈ binOps.map (·.1))
    (hr : rowOf precRows o.kind.name 1 = some (lv, .left)) (hr' : rowOf precRows o'.kind.name 1 = some (lv, .left))
    (ha : a.Ok table) (hb : b.Ok table) (hc : c.Ok table) (rest : List Tok) (hs : Stops table 0 rest) :
    parseExprTop table (render table a lv ++ o :: (render table b (lv + 1) ++ o' :: (render table c (lv + 1) ++ rest))) =
      some (.bin (.bin a o b) o' c, rest) := by
  have h1 := (prec_table_as_in_source o.kind).1
  have h2 := (prec_table_as_in_source o'.kind).1
  rw [if_pos ho, hr] at h1
  rw [if_pos ho', hr'] at h2
  exact left_assoc table table_wellformed a b c o o' lv h1 h2 ha hb hc rest hs

/-- at the parser: an operator of a LATER row of `OALParser.precedence` binds tighter than one of an earlier row,
    on either side: `a ∘ b • c` = `a ∘ (b • c)` and `a • b ∘ c` = `(a • b) ∘ c`, for all operand trees -/
theorem later_row_binds_tighter_as_in_source (a b c : Expr) (o o' : Tok) (lv lv' : Nat) (as as' : Assoc)
    (ho : o.kind ∈ binOps.map (·.1)) (ho' : o'.kind ∈ binOps.map (·.1))
    (hr : rowOf precRows o.kind.name 1 = some (lv, as)) (hr' : rowOf precRows o'.kind.name 1 = some (lv', as'))
    (hlt : lv < lv') (ha : a.Ok table) (hb : b.Ok table) (hc : c.Ok table) (rest : List Tok)
    (hs : Stops table 0 rest) :
    parseExprTop table (render table a (lmin lv as) ++ o :: (render table b (lmin lv' as') ++ o' ::
        (render table c (rmin lv' as') ++ rest))) = some (.bin a o (.bin b o' c), rest) ∧
    parseExprTop table (render table a (lmin lv' as') ++ o' :: (render table b (rmin lv' as') ++ o ::
        (render table c (rmin lv as) ++ rest))) = some (.bin (.bin a o' b) o c, rest) := by
  have h1 := (prec_table_as_in_source o.kind).1
  have h2 := (prec_table_as_in_source o'.kind).1
  rw [if_pos ho, hr] at h1
  rw [if_pos ho', hr'] at h2
  exact tighter_binds table table_wellformed a b c o o' lv lv' as as' h1 h2 hlt ha hb hc rest hs

/-! ## 4. the fully parenthesised rendering (every operator node in its own parentheses) -/

theorem paren_roundtrip (t : Tbl) (wf : t.WF) (e : Expr) (hok : e.Ok t) (rest : List Tok) (hs : Stops t 0 rest) :
    parseExprTop t (renderFull e ++ rest) = some (e, rest) :=
  roundtripFull_top wf hok hs

theorem paren_roundtrip_fuel (t : Tbl) (wf : t.WF) (e : Expr) (hok : e.Ok t) (need : Nat) (rest : List Tok)
    (hs : Stops t need rest) (f : Nat) (hf : cost e + 1 ≤ f) :
    parseExpr t f need (renderFull e ++ rest) = some (e, rest) :=
  roundtripFull_fuel wf hok need hs f hf

theorem paren_roundtrip_oal (e : Expr) (hok : e.Ok table) (rest : List Tok) (hs : Stops table 0 rest) :
    parseExprTop table (renderFull e ++ rest) = some (e, rest) :=
  paren_roundtrip table table_wellformed e hok rest hs

/-! ## 5. statements: every production, every choice of the optional words -/

/-- For every statement tree (`Block`: the statements of an action body, nested blocks included) over ALL
    statement productions of the grammar — control flow, assignment with or without `assign`, create / delete,
    relate / unrelate with phrase and `using`, the select forms with navigation chains and `where`, invocation
    statements with the bridge / transform / send forms, event generation and creation — and every choice of
    the optional words recorded in the tree (assign, loop, then, `instances of`, class / assigner, `*`, empty
    event data parentheses, `transform`), printing and parsing gives back exactly the tree. -/
theorem stmt_roundtrip (t : Tbl) (wf : t.WF) (swf : t.StmtWF) (b : Block) (hok : b.Ok t) :
    parseStmts t (printStmts t b) = some b :=
  stmts_roundtrip wf swf b hok

/-- the same for a block that is followed by a block-ending token (nested position), with explicit fuel -/
theorem stmt_roundtrip_fuel (t : Tbl) (wf : t.WF) (swf : t.StmtWF) (b : Block) (hok : b.Ok t) (rest : List Tok)
    (hend : BlockEnd rest) (f : Nat) (hf : costB b ≤ f) :
    parseBlock t f (printBlock t b ++ rest) = some (b, rest) :=
  block_roundtrip_fuel wf swf b hok hend f hf

/-- on the generated table the tokens that delimit expressions inside statements are not operators -/
theorem table_stmt_wellformed : table.StmtWF :=
  ⟨forall_kind (by decide), by decide⟩

theorem stmt_roundtrip_oal (b : Block) (hok : b.Ok table) : parseStmts table (printStmts table b) = some b :=
  stmt_roundtrip table table_wellformed table_stmt_wellformed b hok

/-! ## 6. the grammar the model implements is the grammar of oal.py -/

/-- the statement productions read from the `p_*` docstrings and bodies of bridgepoint/oal.py (alternatives,
    symbols, `%prec`, which `p[i]` feeds which field of which node class) are exactly the list the statement
    parser model implements (`stmtGrammar`, PyxModel/Oal/Stmt.lean) -/
theorem grammar_shape : stmtProds.map Prod.sem = stmtGrammar := by
  rfl

/-- the same for the expression sub-grammar (`exprGrammar`, PyxModel/Oal/Expr.lean) -/
theorem expr_grammar_shape : exprProds.map Prod.sem = exprGrammar := by
  rfl

/-- the two name classes of the model are exactly the grammar's: `variable_name` / `rel_id` accept ID and the
    alternatives of kw_as_identifier_1; `identifier` accepts those and the alternatives of kw_as_identifier_2..4
    (the lists are read from oal.py; `grammar_shape` ties `limited_identifier` / `identifier` / `variable_name` /
    `rel_id` / `instance_name` / `phrase` to these classes) -/
theorem name_classes :
    (∀ k : Kind, k.isVarName = true ↔ (k = .ID ∨ k ∈ kwIdent1)) ∧
    (∀ k : Kind, k.isIdent = true ↔ (k.isVarName = true ∨ k ∈ kwIdent2 ++ kwIdent3 ++ kwIdent4)) :=
  ⟨forall_kind (by decide), forall_kind (by decide)⟩

/-! ## 7. the fuel of the model parsers is never what makes them reject (ARBITRARY token lists) -/

/-- a result the expression parser gives with ANY amount of fuel is the result with EVERY amount ≥ 2·|ts| + 2
    (every recursive call consumes a token or is followed by one that does), for any table -/
theorem expr_fuel_independent (t : Tbl) (f m : Nat) (ts : List Tok) (r : Expr × List Tok)
    (h : parseExpr t f m ts = some r) (g : Nat) (hg : 2 * ts.length + 2 ≤ g) : parseExpr t g m ts = some r :=
  parseExpr_fuel_indep t h g hg

/-- hence: what the fuel-free `parseExprTop` rejects, every amount of fuel rejects — a rejection by the model is
    never an exhaustion of the fuel -/
theorem expr_reject_not_exhaustion (t : Tbl) (ts : List Tok) (h : parseExprTop t ts = none) (f : Nat) :
    parseExpr t f 0 ts = none :=
  parseExprTop_complete t h f

/-- the same for statements: blocks, nested blocks, elif lists, else clauses, navigation chains, argument lists -/
theorem stmt_fuel_independent (t : Tbl) (f : Nat) (ts : List Tok) (r : Block × List Tok)
    (h : parseBlock t f ts = some r) (g : Nat) (hg : 2 * ts.length + 2 ≤ g) : parseBlock t g ts = some r :=
  parseBlock_fuel_indep t h g hg

theorem stmt_reject_not_exhaustion (t : Tbl) (ts : List Tok) (h : parseStmts t ts = none) (f : Nat) (b : Block) :
    parseBlock t f ts ≠ some (b, []) :=
  parseStmts_complete t h f b

/-! ## 8. `render` writes no parenthesis that could be left out -/

/-- whatever token list the parser reads the tree `e` from — not only printer output — contains at least as many
    opening parentheses as `render t e m` (plus those of the unread rest), for any well-formed table -/
theorem render_minimal (t : Tbl) (wf : t.WF) (f m : Nat) (ts : List Tok) (e : Expr) (rest : List Tok)
    (h : parseExpr t f m ts = some (e, rest)) (hm : m ≤ t.ulevel) : lp (render t e m) + lp rest ≤ lp ts :=
  Pyx.Oal.render_minimal wf h hm

/-- erase any one `(` of the rendering and, with it, any other tokens (its `)`, say): the remaining tokens are
    rejected or parse to a DIFFERENT tree, with any fuel and any unread rest -/
theorem render_erase_paren (t : Tbl) (wf : t.WF) (e : Expr) (i : Nat) (a : Tok) (hi : (render t e 0)[i]? = some a)
    (ha : a.kind = .LPAREN) (ts : List Tok) (hsub : ts.Sublist ((render t e 0).eraseIdx i)) (f : Nat)
    (rest : List Tok) : parseExpr t f 0 ts ≠ some (e, rest) :=
  Pyx.Oal.render_erase_paren wf e i a hi ha ts hsub f rest

/-- `render` parenthesises an operand exactly when its level is below the level its position requires -/
theorem render_parens_iff (t : Tbl) (e : Expr) (need : Nat) :
    (render t e need = LP :: (renderRaw t e ++ [RP]) ∧ e.level t < need) ∨
    (render t e need = renderRaw t e ∧ need ≤ e.level t) :=
  Pyx.Oal.render_parens_iff t e need

/-! ## 9. TEXT → TREE: the character-level lexer model composed with the token-level parser model

  `LexemesOk b` (decidable): the token stream the printer emits for `b` splits into lexical units (one per token,
  a namespace fused with its `::`) each of which is a lexeme the lexer returns as exactly that token
  (Boolean checks, proved sound for `WellWord` / `WellNumber` / `WellFraction` / `WellString` / `WellTicked` /
  `WellEnd` / `WellNs` / the literal rules).  `PairOk` is the layout condition of `layout_irrelevant_tight`:
  between two units ANY layout string (blanks, tabs, CR, LF, block and line comments), or nothing where
  `tightOk` allows. -/

open Pyx.OalText (LexemesOk unitsOf withSeps) in
/-- for every `Ok` tree whose lexemes are lexable and every accepted layout: lex the text, convert the tokens,
    parse — the tree comes back -/
theorem text_roundtrip (b : Block) (hok : b.Ok table) (us : List Pyx.OalLex.LexUnit)
    (hl : unitsOf (printStmts table b) = some us) (sep0 : List Char) (seps : List (List Char))
    (hlen : seps.length = us.length) (h0 : Pyx.OalLex.Layout0 sep0) (h : Pyx.OalLex.PairOk (withSeps us seps)) :
    parseStmts table (Pyx.OalLex.toParserToks (Pyx.OalLex.lex (sep0 ++ Pyx.OalLex.renderT (withSeps us seps)))) =
      some b :=
  Pyx.OalText.text_roundtrip_of b us hl sep0 seps hlen h0 h (stmt_roundtrip_oal b hok)

open Pyx.OalText (LexemesOk unitsOf) in
/-- the domain of `text_roundtrip` is not empty for any `LexemesOk` tree: one blank after every lexeme is an
    accepted layout, so that text parses back to the tree -/
theorem text_roundtrip_blanks (b : Block) (hok : b.Ok table) (hlex : LexemesOk b) :
    ∃ us, unitsOf (printStmts table b) = some us ∧
      parseStmts table (Pyx.OalLex.toParserToks (Pyx.OalLex.lex (Pyx.OalLex.renderT (us.map (fun u => (u, [' '])))))) =
        some b := by
  obtain ⟨us, hus⟩ := Option.isSome_iff_exists.mp hlex
  refine ⟨us, hus, ?_⟩
  have hw := (Pyx.OalText.unitsOf_sound _ us hus).2
  have := text_roundtrip b hok us hus [] (us.map fun _ => [' ']) (by simp) .nil
    (by rw [Pyx.OalText.withSeps_blanks]; exact Pyx.OalText.pairOk_blanks us hw)
  rw [Pyx.OalText.withSeps_blanks] at this
  exact this

/-- the function the driver runs on the harness's texts (`parseText`, PyxModel/Oal/Text.lean: lexer model, conversion by
    the `Kind.name` table, parser model) IS the composition `text_roundtrip` is stated about -/
theorem driver_text_parser (text : List Char) :
    Pyx.OalText.parseText text = parseStmts table (Pyx.OalLex.toParserToks (Pyx.OalLex.lex text)) :=
  Pyx.OalText.parseText_eq text

open Pyx.OalText (inDomain unitsOf unitSeps withSeps ofLexTok) in
/-- the domain test the driver reports for every generated text (`inDomain`: tokens, layout before the first token,
    gaps after the tokens) implies the hypotheses of the layout theorem — on such a text the lexer model followed by
    the conversion returns exactly the written tokens -/
theorem driver_domain_sound (ts : List Tok) (sep0 : List Char) (gaps : List (List Char))
    (h : inDomain ts sep0 gaps = (true, true)) :
    ∃ us seps, unitsOf ts = some us ∧ unitSeps us gaps = some seps ∧
      (Pyx.OalLex.lex (sep0 ++ Pyx.OalLex.renderT (withSeps us seps))).map ofLexTok = ts :=
  Pyx.OalText.inDomain_lex ts sep0 gaps h

/-! ## non-vacuity: concrete instances of the hypotheses, and what the theorems then say -/

section examples

private def nm (s : String) : Tok := tk .ID s
private def va : Expr := .var (nm "a")
private def vb : Expr := .var (nm "b")
private def n3 : Expr := .int "3"
private def plus : Tok := ⟨.PLUS, "+"⟩
private def minus : Tok := ⟨.MINUS, "-"⟩
private def times : Tok := ⟨.TIMES, "*"⟩
private def lt : Tok := ⟨.LESSTHAN, "<"⟩
private def eqeq : Tok := ⟨.DOUBLEEQUAL, "=="⟩
private def knot : Tok := ⟨.NOT, "not"⟩
private def semi : Tok := ⟨.SEMICOLON, ";"⟩

/-- `(a + b) * 3` -/
private def e1 : Expr := .bin (.bin va plus vb) times n3
/-- `a < (b < 3)` -/
private def e2 : Expr := .bin va lt (.bin vb lt n3)
/-- `x.f[i + 1].g + ::h(p: not a, q: NS::c) * self.op()` -/
private def e3 : Expr :=
  .bin (.field (.index (.field (.var (nm "x")) (nm "f")) (.bin (.var (nm "i")) plus (.int "1"))) (nm "g")) plus
    (.bin (.fcall (nm "h") (.cons (nm "p") (.un knot va) (.cons (nm "q") (.enumc "NS" (nm "c")) .nil))) times
      (.ocall .self (nm "op") .nil))

-- prec_roundtrip / prec_roundtrip_oal: hypotheses are satisfiable, the required parentheses are written …
private theorem e1_ok : e1.Ok table := by simp [e1, Expr.Ok, va, vb, n3, plus, times, nm, Kind.isVarName]; decide
private theorem e3_ok : e3.Ok table := by
  simp [e3, Expr.Ok, Params.Ok, va, plus, times, knot, Expr.isChain, Expr.isIndexable, Expr.isStruct, nm,
    Kind.isVarName, Kind.isIdent]
  decide
private theorem stops_semi : Stops table 0 [semi] := stops_afterExpr table_stmt_wellformed 0 semi [] rfl
private theorem va_ok : va.Ok table := by simp [va, Expr.Ok, nm, Kind.isVarName]
private theorem vb_ok : vb.Ok table := by simp [vb, Expr.Ok, nm, Kind.isVarName]
private theorem n3_ok : n3.Ok table := by simp [n3, Expr.Ok]
private theorem e2_ok : e2.Ok table := by simp [e2, Expr.Ok, va, vb, n3, lt, nm, Kind.isVarName]; decide
-- the theorems APPLIED (every hypothesis discharged for a concrete tree)
-- left_assoc: `(a + b) * 3 - b + 3` with the compound left operand `e1`;  tighter_binds: `a + (a + b) * 3 * 3`;
-- unary_binds_tightest: `not ((a + b) * 3) == b`;  paren_kept_as_operand: `a * (a < (b < 3))` and `(a < (b < 3)) * a`
example := left_assoc table table_wellformed e1 vb n3 minus plus 4 (by decide) (by decide) e1_ok vb_ok n3_ok [semi] stops_semi
example := tighter_binds table table_wellformed va e1 n3 plus times 4 5 .left .left (by decide) (by decide) (by decide)
  va_ok e1_ok n3_ok [semi] stops_semi
example := unary_binds_tightest table table_wellformed e1 vb knot eqeq 3 .nonassoc (by decide) (by decide) e1_ok vb_ok
  [semi] stops_semi
example := paren_kept_as_operand table table_wellformed e2 va times 5 .left (by decide) e2_ok va_ok [semi] stops_semi
example := prec_roundtrip_fuel table table_wellformed e3 e3_ok 0 [semi] stops_semi 1000 (by decide)
example : parseExprTop table (render table e3 0 ++ [semi]) = some (e3, [semi]) :=
  prec_roundtrip table table_wellformed e3 e3_ok [semi] stops_semi
example : parseExprTop table (renderFull e1 ++ [semi]) = some (e1, [semi]) :=
  paren_roundtrip table table_wellformed e1 e1_ok [semi] stops_semi
example : parseExprTop table (knot :: LP :: (render table e1 0 ++ [RP]) ++ [semi]) = some (.un knot e1, [semi]) :=
  (paren_kept_as_operand_unary table table_wellformed e1 knot (by decide) e1_ok [semi] stops_semi).1
example : lp (render table e3 0) + lp [semi] ≤ lp (renderFull e3 ++ [semi]) :=
  render_minimal table table_wellformed _ 0 _ e3 [semi] (paren_roundtrip table table_wellformed e3 e3_ok [semi] stops_semi)
    (Nat.zero_le _)
example : parseExpr table 1000 0 (render table e3 0 ++ [semi]) = some (e3, [semi]) :=
  expr_fuel_independent table _ 0 _ _ (prec_roundtrip table table_wellformed e3 e3_ok [semi] stops_semi) 1000 (by decide)
example : render table e1 0 = [LP, tk .ID "a", plus, tk .ID "b", RP, times, tk .NUMBER "3"] := by decide
example : parseExprTop table (render table e1 0 ++ [semi]) = some (e1, [semi]) := by rfl
example : parseExprTop table (render table e3 0 ++ [semi]) = some (e3, [semi]) := by rfl
-- … a comparison nested in a comparison gets them, and without them the text is no expression of the language
example : render table e2 0 = [tk .ID "a", lt, LP, tk .ID "b", lt, tk .NUMBER "3", RP] := by decide
example : parseExprTop table (render table e2 0 ++ [semi]) = some (e2, [semi]) := by rfl
example : parseExprTop table [tk .ID "a", lt, tk .ID "b", lt, tk .NUMBER "3", semi] = none := by rfl
-- prec_roundtrip for a table that is NOT the generated one (right-associative `+` above `*`): still well-formed
example : (Tbl.ofLists [(.PLUS, 2, .right), (.TIMES, 1, .left)] [.MINUS] 3).WF := wf_ofLists (by decide)
-- a table that violates the hypotheses (a binary level not below the unary level) is rejected by the check
example : wfCheck [(.PLUS, 7, .left)] [.MINUS] 7 = false := by decide

-- left_assoc / tighter_binds / unary_binds_tightest / paren_kept_as_operand: hypotheses hold of the real operators
example : table.bin plus.kind = some (4, .left) ∧ table.bin minus.kind = some (4, .left) := by decide
example : parseExprTop table [tk .ID "a", minus, tk .ID "b", plus, tk .NUMBER "3", semi] =
    some (.bin (.bin va minus vb) plus n3, [semi]) := by rfl
example : table.bin times.kind = some (5, .left) ∧ 4 < 5 := by decide
example : parseExprTop table [tk .ID "a", plus, tk .ID "b", times, tk .NUMBER "3", semi] =
    some (.bin va plus (.bin vb times n3), [semi]) := by rfl
example : table.un knot.kind = true ∧ table.bin eqeq.kind = some (3, .nonassoc) := by decide
example : parseExprTop table [knot, tk .ID "a", eqeq, tk .ID "b", semi] =
    some (.bin (.un knot va) eqeq vb, [semi]) := by rfl
example : parseExprTop table [tk .ID "a", times, LP, tk .ID "b", RP, semi] = some (.bin va times vb, [semi]) := by rfl

-- prec_table_as_in_source / same_row_groups_left_as_in_source / later_row_binds_tighter_as_in_source: the row
-- hypotheses hold of `-` `+` (row 4, left) and of `+` (row 4) / `*` (row 5); a non-operator token has no level
example : rowOf precRows minus.kind.name 1 = some (4, .left) ∧ rowOf precRows times.kind.name 1 = some (5, .left) ∧
    rowOf precRows lt.kind.name 1 = some (3, .nonassoc) ∧ rowOf precRows semi.kind.name 1 = none := by decide +kernel
example := same_row_groups_left_as_in_source e1 vb n3 minus plus 4 (by decide) (by decide) (by decide +kernel)
  (by decide +kernel) e1_ok vb_ok n3_ok [semi] stops_semi
example := later_row_binds_tighter_as_in_source va e1 n3 plus times 4 5 .left .left (by decide) (by decide)
  (by decide +kernel) (by decide +kernel) (by decide) va_ok e1_ok n3_ok [semi] stops_semi
example : table.bin semi.kind = none := by rw [(prec_table_as_in_source _).1]; decide
-- a different precedence tuple gives a different table (the interpretation is not constant in the rows)
example : precInterp [(.left, ["TIMES"]), (.right, ["PLUS"])] [.PLUS, .TIMES, .MOD] =
    [(.PLUS, 2, .right), (.TIMES, 1, .left)] := by decide +kernel

-- paren_roundtrip
example : renderFull e1 = [LP, LP, tk .ID "a", plus, tk .ID "b", RP, times, tk .NUMBER "3", RP] := by decide
example : parseExprTop table (renderFull e1 ++ [semi]) = some (e1, [semi]) := by rfl

/-- `if a < 3 x = 1; elif not a then break; else select many ys related by self->K[R1.'p'] where selected.n == 3; end if;
     while a loop generate E1:'go'(v: 3) to K assigner; end while; return;` -/
private def prog : Block :=
  .cons (.if_ (.bin va lt n3) false (.cons (.assign false (.var (nm "x")) (.int "1")) .nil)
      (.cons (.un knot va) true (.cons .brk .nil) .nil)
      (.some (.cons (.selRel ⟨.many, "many"⟩ (nm "ys") .self [⟨nm "K", nm "R1", some (.ticked "'p'")⟩]
        (some (.bin (.field .selected (nm "n")) eqeq n3))) .nil)))
  (.cons (.while_ va true (.cons (.gen ⟨nm "E1", false, some (.ticked "'go'"), true, .cons (nm "v") n3 .nil⟩
      (.cls (nm "K") true)) .nil))
  (.cons (.ret none) .nil))

-- stmt_roundtrip / stmt_roundtrip_oal
private theorem prog_ok : prog.Ok table := by
  simp [prog, Block.Ok, Stmt.Ok, Elifs.Ok, Else.Ok, Expr.Ok, Params.Ok, EvSpec.Ok, EvTarget.Ok, NavStep.Ok, Phrase.Ok,
    optPhraseOk, optExprOk, va, n3, lt, knot, eqeq, Expr.isVarAccess, Expr.isHook, Expr.isSelf, Expr.isChain, nm,
    Kind.isVarName, Kind.isIdent]
  decide
example : parseStmts table (printStmts table prog) = some prog := stmt_roundtrip_oal prog prog_ok
example : parseBlock table 5000 (printStmts table prog) = some (prog, []) := by
  have h : parseBlock table (fuelForS (printStmts table prog)) (printStmts table prog) = some (prog, []) := by rfl
  exact stmt_fuel_independent table _ _ _ h 5000 (by decide)
example : (printStmts table prog).length = 57 := by decide
example : parseStmts table (printStmts table prog) = some prog := by rfl
example : BlockEnd [tk .END_IF "end if", semi] := blockEnd_cons _ _ rfl

/-- keywords as names, where the grammar allows them:
    `select = to.from[in] + ::class(and: 1);  select any any from instances;  relate to to from across across.using;
     generate self:event to stop class;` -/
private def kwprog : Block :=
  .cons (.assign false (.var (tk .SELECT "select"))
      (.bin (.index (.field (.var (tk .TO "to")) (tk .FROM "from")) (.var (tk .IN "in"))) plus
        (.fcall (tk .CLASS "class") (.cons (tk .AND "and") (.int "1") .nil))))
  (.cons (.selFrom ⟨.any, "any"⟩ (tk .ANY "any") false (tk .INSTANCES "instances") none)
  (.cons (.rel false (.var (tk .TO "to")) (.var (tk .FROM "from")) (tk .ACROSS "across")
      (some (.ident (tk .USING "using"))) none)
  (.cons (.gen ⟨tk .SELF "self", false, some (.ident (tk .EVENT "event")), false, .nil⟩ (.cls (tk .STOP "stop") false))
  .nil)))

example : kwprog.Ok table := by
  simp [kwprog, Block.Ok, Stmt.Ok, Expr.Ok, Params.Ok, EvSpec.Ok, EvTarget.Ok, InstName.Ok, Phrase.Ok, optPhraseOk,
    optInstOk, optExprOk, plus, Expr.isVarAccess, Expr.isChain, Expr.isIndexable, Kind.isVarName, Kind.isIdent]
  decide
example : (printStmts table kwprog).map (·.lex) =
    ["select", "=", "to", ".", "from", "[", "in", "]", "+", "::", "class", "(", "and", ":", "1", ")", ";",
     "select", "any", "any", "from", "instances", ";",
     "relate", "to", "to", "from", "across", "across", ".", "using", ";",
     "generate", "self", ":", "event", "to", "stop", "class", ";"] := by decide
example : parseStmts table (printStmts table kwprog) = some kwprog := by rfl
-- the same keyword in keyword role: `select any x from instances of K;` is a select, `select = 1;` an assignment
example : parseStmts table [tk .SELECT "select", tk .EQUAL "=", tk .NUMBER "1", semi] =
    some (.cons (.assign false (.var (tk .SELECT "select")) (.int "1")) .nil) := by rfl
-- a keyword that the grammar does not allow as a variable name is rejected: `x = of;`, `x = loop;`
example : parseStmts table [nm "x", tk .EQUAL "=", tk .OF "of", semi] = none := by rfl
example : parseStmts table [nm "x", tk .EQUAL "=", tk .LOOP "loop", semi] = none := by rfl

-- paren_kept_as_operand_unary: `not ( a )`
example : parseExprTop table [knot, LP, tk .ID "a", RP, semi] = some (.un knot va, [semi]) := by rfl

-- expr_reject_not_exhaustion / stmt_reject_not_exhaustion: `a < b < 3` is rejected with every fuel; too little
-- fuel does make the parser give up (so the statements are not about a parser that ignores its fuel)
example : ∀ f, parseExpr table f 0 [tk .ID "a", lt, tk .ID "b", lt, tk .NUMBER "3", semi] = none :=
  expr_reject_not_exhaustion table _ (by rfl)
example : parseExpr table 3 0 [tk .ID "a", plus, tk .ID "b", semi] = none := by rfl
example : parseExpr table 10 0 [tk .ID "a", plus, tk .ID "b", semi] = some (.bin va plus vb, [semi]) := by rfl
example : ∀ f b, parseBlock table f [nm "x", tk .EQUAL "=", tk .OF "of", semi] ≠ some (b, []) :=
  fun f b => stmt_reject_not_exhaustion table _ (by rfl) f b

-- render_minimal / render_erase_paren: `(a + b) * 3` has one `(`; without the pair the tokens are `a + b * 3`,
-- which is a different tree
example : lp (render table e1 0) = 1 := by decide
example : ∀ f rest, parseExpr table f 0 [tk .ID "a", plus, tk .ID "b", times, tk .NUMBER "3"] ≠ some (e1, rest) :=
  fun f rest => render_erase_paren table table_wellformed e1 0 LP (by decide) rfl _ (by decide) f rest
example : parseExprTop table [tk .ID "a", plus, tk .ID "b", times, tk .NUMBER "3"] =
    some (.bin va plus (.bin vb times n3), []) := by rfl

-- text_roundtrip: the hypotheses hold of the programs above, and of a text without a single blank
example : Pyx.OalText.LexemesOk prog := by decide +kernel
example : ∃ us, Pyx.OalText.unitsOf (printStmts table prog) = some us ∧
    parseStmts table (Pyx.OalLex.toParserToks (Pyx.OalLex.lex (Pyx.OalLex.renderT (us.map (fun u => (u, [' '])))))) =
      some prog := text_roundtrip_blanks prog prog_ok (by decide +kernel)
example : Pyx.OalText.LexemesOk kwprog := by decide +kernel
/-- `x=a+b*(c-1);` -/
private def tprog : Block :=
  .cons (.assign false (.var (nm "x")) (.bin va plus (.bin vb times (.bin (.var (nm "c")) minus (.int "1"))))) .nil
private def tunits : List Pyx.OalLex.LexUnit := (Pyx.OalText.unitsOf (printStmts table tprog)).getD []
private theorem tprog_text :
    parseStmts table (Pyx.OalLex.toParserToks (Pyx.OalLex.lex "x=a+b*(c-1);".toList)) = some tprog := by
  have hok : tprog.Ok table := by
    simp [tprog, Block.Ok, Stmt.Ok, Expr.Ok, va, vb, plus, times, minus, Expr.isVarAccess, nm, Kind.isVarName]
    decide
  have hus : Pyx.OalText.unitsOf (printStmts table tprog) = some tunits := by
    have h : (Pyx.OalText.unitsOf (printStmts table tprog)).isSome = true := by decide +kernel
    unfold tunits
    cases hx : Pyx.OalText.unitsOf (printStmts table tprog) with
    | none => rw [hx] at h; cases h
    | some v => rfl
  have hp : Pyx.OalText.pairOkB (Pyx.OalText.withSeps tunits (tunits.map fun _ => [])) = true := by decide +kernel
  have ht : ([] : List Char) ++ Pyx.OalLex.renderT (Pyx.OalText.withSeps tunits (tunits.map fun _ => [])) =
      "x=a+b*(c-1);".toList := by decide +kernel
  have := text_roundtrip tprog hok tunits hus [] (tunits.map fun _ => []) (by simp) .nil
    (Pyx.OalText.pairOkB_sound _ hp)
  rw [ht] at this
  exact this
-- driver_text_parser applied: what the driver computes on `x=a+b*(c-1);` is the tree
example : Pyx.OalText.parseText "x=a+b*(c-1);".toList = some tprog := by rw [driver_text_parser]; exact tprog_text
-- driver_domain_sound: `x = a/*c*/+b ;// d\n` is in the domain (comment glued to both neighbours, tight `+`)
private theorem dom_example : Pyx.OalText.inDomain [nm "x", tk .EQUAL "=", nm "a", plus, nm "b", semi] []
    [" ".toList, " ".toList, "/*c*/".toList, [], " ".toList, "// d\n".toList] = (true, true) := by decide +kernel
example := driver_domain_sound _ _ _ dom_example
-- `a/ /b` is not (a `/` token directly followed by a comment start would be swallowed), nor is `1x` (number glued to a word)
example : (Pyx.OalText.inDomain [nm "a", tk .DIV "/", nm "b"] [] [[], "//c\n".toList, []]).2 = false := by decide +kernel
example : (Pyx.OalText.inDomain [tk .NUMBER "1", nm "x"] [] [[], []]).2 = false := by decide +kernel
-- an identifier spelled `end` is outside `LexemesOk` (the lexer reads `end if` as ONE token)
example : ¬ Pyx.OalText.LexemesOk (.cons (.assign false (.var (nm "end")) (.int "1")) .nil) := by decide +kernel

-- grammar_shape: the compared lists are not empty
set_option maxRecDepth 4000 in
example : stmtGrammar.length = 153 ∧ exprGrammar.length = 66 := by decide

end examples


/-! ## layout at CHARACTER level (model: the character-level lexer of C13/C08, PyxModel/Oal/Lex.lean, over the
    GENERATED rule table).  Lexemes written one after the other with ANY layout between them — non-empty
    mixes of blank, tab, CR, LF, block comments and `//` comments; the layout before the first and after the last
    lexeme may be empty — are returned by the lexer exactly, in order, with their kinds: no token is split,
    merged or swallowed.  The composition with `stmt_roundtrip` (token level) — the statement's "with any
    whitespace, line breaks, comments … parses back to exactly that tree" for the modelled lexer and parser — is
    `text_roundtrip` (section 9), stated over the tight variant below.
    Side conditions are lexical facts of the language: the bare word `end` is not a lexeme (`end`+space+`if` is one
    token), a `/` token is not directly followed by a separator starting with `/`, a namespace and its `::`
    are one fused unit.  The tight variant (no separator where the next character cannot extend the token) is
    `layout_irrelevant_tight` below. -/

theorem layout_irrelevant (sep0 : List Char) (items : List (List Char × List Char × List Char))
    (h0 : Pyx.OalLex.Layout0 sep0) (h : Pyx.OalLex.ItemsOk items) :
    (Pyx.OalLex.lex (sep0 ++ Pyx.OalLex.render items)).map (fun t => (t.kind, t.lexeme)) =
      items.map (fun i => (i.1, i.2.1)) :=
  Pyx.OalLex.layout_irrelevant sep0 items h0 h

theorem layout_irrelevant_units (sep0 : List Char) (units : List (Pyx.OalLex.Item × List Char))
    (h0 : Pyx.OalLex.Layout0 sep0) (h : Pyx.OalLex.UnitsOk units) :
    (Pyx.OalLex.lex (sep0 ++ Pyx.OalLex.renderUnits units)).map (fun t => (t.kind, t.lexeme)) =
      (units.map (fun u => u.1.toks)).flatten :=
  Pyx.OalLex.layout_irrelevant_units sep0 units h0 h

/-- TIGHT layout (builder-A2, Proofs/OalTight.lean): no separator is needed between two lexical units whose
    adjacency the decidable `tightOk` accepts (`PairOk`), resp. under the semantic side condition `SemOk` -/
theorem layout_irrelevant_tight (sep0 : List Char) (units : List (Pyx.OalLex.LexUnit × List Char))
    (h0 : Pyx.OalLex.Layout0 sep0) (h : Pyx.OalLex.PairOk units) :
    (Pyx.OalLex.lex (sep0 ++ Pyx.OalLex.renderT units)).map (fun t => (t.kind, t.lexeme)) =
      (units.map (fun p => p.1.toks)).flatten :=
  Pyx.OalLex.layout_irrelevant_tight sep0 units h0 h

theorem layout_irrelevant_sem (sep0 : List Char) (units : List (Pyx.OalLex.LexUnit × List Char))
    (h0 : Pyx.OalLex.Layout0 sep0) (h : Pyx.OalLex.SemOk units) :
    (Pyx.OalLex.lex (sep0 ++ Pyx.OalLex.renderT units)).map (fun t => (t.kind, t.lexeme)) =
      (units.map (fun p => p.1.toks)).flatten :=
  Pyx.OalLex.layout_irrelevant_sem sep0 units h0 h

-- layout_irrelevant_tight applied to builder-A2's `x.y[1]=f(p:1)+2;` (no separator at all)
example := layout_irrelevant_tight [] Pyx.OalLex.sampleTight .nil Pyx.OalLex.sampleTight_ok
example := layout_irrelevant_sem [] Pyx.OalLex.sampleTight .nil (Pyx.OalLex.pair_sem _ Pyx.OalLex.sampleTight_ok)

end PyxProps.C07
