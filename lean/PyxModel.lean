import PyxModel.Sexp
import PyxModel.OSet
import PyxModel.OSetPtr
