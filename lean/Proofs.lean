import Proofs.OSet
import Proofs.OSetPtr
