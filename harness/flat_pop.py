"""C06 (and C05) — the REAL Body / Value population of one prebuilt action, dumped in the canonical form of the Lean
flat population model (lean/PyxModel/Prebuild/Flat.lean, printed by lean/Driver/C06Flat.lean):

    [[CLASS, row, row, ...], ...]     classes in CLASS_ORDER, empty classes left out, rows in creation order
                                      (`metamodel.select_many(kind)` keeps insertion order)
    row = [field, ...]                a link (read by NAVIGATING the association number) as [CLASS, index], index = the
                                      partner's creation index within its class; an absent conditional link as `none`;
                                      a link to a subtype instance is named by its supertype instance (ACT_EL -> ACT_IF
                                      over R682 is printed as the ACT_SMT of that ACT_IF: the subtype shares the
                                      supertype's identifier); model elements by what sourcegen prints of them
                                      (O_OBJ.Key_Lett, 'R' + R_REL.Numb, O_ATTR.Name, parameter name, enumerator, constant)

`observe(rig, m)` answers the dump, or `not-compared` when the population lies outside the subset the Lean model
builds (`in_subset`, evaluated on the REAL population; the Lean side decides the same from the tree — a disagreement
about membership is a correspondence failure like any other):
   * an instance of an ACT_* / V_* / E_* class the model has no row for (events, select related, invocations,
     parameters, array elements, structure members, `.length`, messages ...)
   * an assignment whose right-hand side may be an instance reference (the prebuilder then MIGRATES the transient:
     it deletes instances) — `plain` below mirrors Flat.plainE on the population
   * an attribute access whose root is neither an instance handle (V_IRF) nor `selected` (V_SLR)
Nothing here imports the repository at module load.
"""
import re

from sexp import Sym

CLASS_ORDER = ["ACT_BLK", "ACT_SMT", "ACT_AI", "ACT_RET", "ACT_BRK", "ACT_CON", "ACT_CTL", "ACT_CR", "ACT_CNV", "ACT_DEL",
               "ACT_REL", "ACT_RU", "ACT_UNR", "ACT_URU", "ACT_FIO", "ACT_FIW", "ACT_FOR", "ACT_WHL", "ACT_IF", "ACT_EL",
               "ACT_E", "V_VAL", "V_LIN", "V_LRL", "V_LST", "V_LBO", "V_TVL", "V_IRF", "V_ISR", "V_UNY", "V_BIN", "V_SLR",
               "V_AVL", "V_PVL", "V_LEN", "V_SCV", "V_VAR", "V_INT", "V_INS", "V_TRN"]
# instances the model leaves out on purpose (no link of theirs is navigated by sourcegen below ACT_BLK)
IGNORED = {'V_LOC', 'ACT_ACT', 'ACT_FNB', 'ACT_BRB', 'ACT_OPB', 'ACT_DAB', 'ACT_SAB', 'ACT_TAB'}
NOT_COMPARED = [Sym('not-compared')]

COMPARE_OPS = ('<', '<=', '==', '!=', '>=', '>', 'and', 'or')
BOOL_UN_OPS = ('not', 'empty', 'not_empty')
VAL_SUBTYPES = ['V_LIN', 'V_LRL', 'V_LST', 'V_LBO', 'V_TVL', 'V_IRF', 'V_ISR', 'V_UNY', 'V_BIN', 'V_SLR', 'V_AVL',
                'V_PVL', 'V_LEN', 'V_SCV']


def _nav(xtuml, inst, kind, rel, phrase=''):
    if inst is None:
        return None
    chain = getattr(xtuml.navigate_one(inst), kind)
    return (chain[rel, phrase] if phrase else chain[rel])()


def _val_subtype(xtuml, v_val):
    """(class name, instance) of the R801 subtype, None when there is none or it is not modelled"""
    for kind in VAL_SUBTYPES:
        x = _nav(xtuml, v_val, kind, 801)
        if x is not None:
            return kind, x
    return None, None


def plain(xtuml, v_val):
    """Flat.plainE, on the population: the value is certainly no instance reference"""
    kind, x = _val_subtype(xtuml, v_val)
    if kind in ('V_LIN', 'V_LRL', 'V_LST', 'V_LBO', 'V_LEN', 'V_SCV', 'V_AVL', 'V_TVL'):
        return True
    if kind == 'V_UNY':
        return x.Operator in BOOL_UN_OPS or x.Operator == 'cardinality' or plain(xtuml, _nav(xtuml, x, 'V_VAL', 804))
    if kind == 'V_BIN':
        return x.Operator in COMPARE_OPS or plain(xtuml, _nav(xtuml, x, 'V_VAL', 802))
    return False


def in_subset(xtuml, m, text=None):
    """(bool, reason): does the Lean flat model build this population?"""
    for mc in m.metaclasses.values():
        k = mc.kind
        if (k.startswith('ACT_') or k.startswith('V_') or k.startswith('E_')) and k not in CLASS_ORDER and k not in IGNORED:
            if next(iter(m.select_many(k)), None) is not None:
                return False, 'class ' + k
    for ai in m.select_many('ACT_AI'):
        if not plain(xtuml, _nav(xtuml, ai, 'V_VAL', 609)):
            return False, 'assignment of a possible instance reference'
        kind, _ = _val_subtype(xtuml, _nav(xtuml, ai, 'V_VAL', 689))
        if kind not in ('V_TVL', 'V_IRF', 'V_ISR', 'V_AVL'):
            return False, 'l-value ' + str(kind)
    for scv in m.select_many('V_SCV'):
        # a constant read by its BARE name regenerates qualified (`x = MAX` -> `x = Limits::MAX`): outside the C05 domain
        # and outside the flat model (for which an unknown bare name is a failure); told from the qualified form by the
        # SOURCE at the value's position: (optional redundant parentheses, then) an identifier not followed by `::`
        v = _nav(xtuml, scv, 'V_VAL', 801)
        if v is not None and text is not None:
            lines = text.split('\n')
            off = sum(len(l) + 1 for l in lines[:v.LineNumber - 1]) + v.StartPosition - 1
            mt = re.match(r'[\s(]*([A-Za-z_][A-Za-z0-9_]*)(::)?', text[off:])
            if mt is None or mt.group(2) is None:
                return False, 'bare constant name'
    for avl in m.select_many('V_AVL'):
        kind, _ = _val_subtype(xtuml, _nav(xtuml, avl, 'V_VAL', 807))
        if kind not in ('V_IRF', 'V_SLR'):
            return False, 'attribute access through ' + str(kind)
    return True, ''


def dump(xtuml, m):
    """the canonical dump of the real population (every modelled class)"""
    index = {}
    insts = {}
    for kind in CLASS_ORDER:
        insts[kind] = list(m.select_many(kind))
        for i, x in enumerate(insts[kind]):
            index[id(x)] = [Sym(kind), i]

    def nav(inst, kind, rel, phrase=''):
        return _nav(xtuml, inst, kind, rel, phrase)

    def lnk(x):
        if x is None:
            return Sym('none')
        return index.get(id(x), Sym('dangling'))

    def kl(inst, rel):
        o = nav(inst, 'O_OBJ', rel)
        return o.Key_Lett if o is not None else Sym('none')

    def rel_of(inst, rel):
        r = nav(inst, 'R_REL', rel)
        return 'R%d' % r.Numb if r is not None else Sym('none')

    def smt(x):
        return lnk(nav(x, 'ACT_SMT', 603))

    def val(x):
        return lnk(nav(x, 'V_VAL', 801))

    def var(x):
        return lnk(nav(x, 'V_VAR', 814))

    def name_of(x):
        return x.Name if x is not None else Sym('none')

    def pvl_name(x):
        for kind, rel in (('S_BPARM', 831), ('S_SPARM', 832), ('O_TPARM', 833)):
            p = nav(x, kind, rel)
            if p is not None:
                return p.Name
        return Sym('none')

    def s(x):
        return '' if x is None else str(x)

    rows = {
        'ACT_BLK': lambda x: [Sym('T') if nav(x, 'ACT_ACT', 666) is not None else Sym('F')],
        'ACT_SMT': lambda x: [lnk(nav(x, 'ACT_BLK', 602)), lnk(nav(x, 'ACT_SMT', 661, 'succeeds'))],
        'ACT_AI': lambda x: [smt(x), lnk(nav(x, 'V_VAL', 609)), lnk(nav(x, 'V_VAL', 689))],
        'ACT_RET': lambda x: [smt(x), lnk(nav(x, 'V_VAL', 668))],
        'ACT_BRK': lambda x: [smt(x)], 'ACT_CON': lambda x: [smt(x)], 'ACT_CTL': lambda x: [smt(x)],
        'ACT_CR': lambda x: [smt(x), lnk(nav(x, 'V_VAR', 633)), kl(x, 671)],
        'ACT_CNV': lambda x: [smt(x), kl(x, 672)],
        'ACT_DEL': lambda x: [smt(x), lnk(nav(x, 'V_VAR', 634))],
        'ACT_REL': lambda x: [smt(x), lnk(nav(x, 'V_VAR', 615)), lnk(nav(x, 'V_VAR', 616)), rel_of(x, 653),
                              s(x.relationship_phrase)],
        'ACT_RU': lambda x: [smt(x), lnk(nav(x, 'V_VAR', 617)), lnk(nav(x, 'V_VAR', 618)), lnk(nav(x, 'V_VAR', 619)),
                             rel_of(x, 654), s(x.relationship_phrase)],
        'ACT_UNR': lambda x: [smt(x), lnk(nav(x, 'V_VAR', 620)), lnk(nav(x, 'V_VAR', 621)), rel_of(x, 655),
                              s(x.relationship_phrase)],
        'ACT_URU': lambda x: [smt(x), lnk(nav(x, 'V_VAR', 622)), lnk(nav(x, 'V_VAR', 623)), lnk(nav(x, 'V_VAR', 624)),
                              rel_of(x, 656), s(x.relationship_phrase)],
        'ACT_FIO': lambda x: [smt(x), lnk(nav(x, 'V_VAR', 639)), kl(x, 677), s(x.cardinality)],
        'ACT_FIW': lambda x: [smt(x), lnk(nav(x, 'V_VAR', 665)), kl(x, 676), s(x.cardinality), lnk(nav(x, 'V_VAL', 610))],
        'ACT_FOR': lambda x: [smt(x), lnk(nav(x, 'ACT_BLK', 605)), lnk(nav(x, 'V_VAR', 614)), lnk(nav(x, 'V_VAR', 652)),
                              kl(x, 670)],
        'ACT_WHL': lambda x: [smt(x), lnk(nav(x, 'ACT_BLK', 608)), lnk(nav(x, 'V_VAL', 626))],
        'ACT_IF': lambda x: [smt(x), lnk(nav(x, 'ACT_BLK', 607)), lnk(nav(x, 'V_VAL', 625))],
        'ACT_EL': lambda x: [smt(x), lnk(nav(x, 'ACT_BLK', 658)), lnk(nav(x, 'V_VAL', 659)), smt(nav(x, 'ACT_IF', 682))],
        'ACT_E': lambda x: [smt(x), lnk(nav(x, 'ACT_BLK', 606)), smt(nav(x, 'ACT_IF', 683))],
        'V_VAL': lambda x: [lnk(nav(x, 'ACT_BLK', 826))],
        'V_LIN': lambda x: [val(x), s(x.Value)], 'V_LRL': lambda x: [val(x), s(x.Value)],
        'V_LST': lambda x: [val(x), s(x.Value)], 'V_LBO': lambda x: [val(x), s(x.Value)],
        'V_TVL': lambda x: [val(x), lnk(nav(x, 'V_VAR', 805))],
        'V_IRF': lambda x: [val(x), lnk(nav(x, 'V_VAR', 808))],
        'V_ISR': lambda x: [val(x), lnk(nav(x, 'V_VAR', 809))],
        'V_UNY': lambda x: [val(x), s(x.Operator), lnk(nav(x, 'V_VAL', 804))],
        'V_BIN': lambda x: [val(x), s(x.Operator), lnk(nav(x, 'V_VAL', 802)), lnk(nav(x, 'V_VAL', 803))],
        'V_SLR': lambda x: [val(x)],
        'V_AVL': lambda x: [val(x), lnk(nav(x, 'V_VAL', 807)), name_of(nav(x, 'O_ATTR', 806))],
        'V_PVL': lambda x: [val(x), pvl_name(x)],
        'V_LEN': lambda x: [val(x), name_of(nav(nav(nav(x, 'S_ENUM', 824), 'S_EDT', 27), 'S_DT', 17)),
                            name_of(nav(x, 'S_ENUM', 824))],
        'V_SCV': lambda x: [val(x), s(getattr(nav(nav(x, 'CNST_SYC', 850), 'CNST_CSP', 1504), 'InformalGroupName', None)),
                            name_of(nav(x, 'CNST_SYC', 850))],
        'V_VAR': lambda x: [s(x.Name), lnk(nav(x, 'ACT_BLK', 823))],
        'V_INT': lambda x: [var(x), kl(x, 818)],
        'V_INS': lambda x: [var(x), kl(x, 819)],
        'V_TRN': lambda x: [var(x)],
    }
    out = []
    for kind in CLASS_ORDER:
        if insts[kind]:
            out.append([Sym(kind)] + [rows[kind](x) for x in insts[kind]])
    return out


SAMPLE = 3          # the flat comparison is made on every SAMPLE-th body, chosen by the case's own PRNG draw (`style`)
NOT_SAMPLED = [Sym('not-sampled')]


def sampled(case):
    """deterministic per case (both sides of the correspondence evaluate it): keeps the quick run within its budget"""
    return case is None or int(case.get('style', 0)) % SAMPLE == 0


def observe(xtuml, m, stats=None, text=None, case=None):
    """the observation compared with the Lean model's dump; counts compared / not compared (and why) in `stats`"""
    if not sampled(case):
        if stats is not None:
            stats['flat_not_sampled'] = stats.get('flat_not_sampled', 0) + 1
        return list(NOT_SAMPLED)
    ok, why = in_subset(xtuml, m, text)
    if stats is not None:
        if ok:
            stats['flat_compared'] = stats.get('flat_compared', 0) + 1
        else:
            stats['flat_not_compared'] = stats.get('flat_not_compared', 0) + 1
            key = 'flat_not_compared: ' + (why.split(' ')[0] + ' ' + why.split(' ')[1] if why.startswith('class ') else why)
            stats[key] = stats.get(key, 0) + 1
    return dump(xtuml, m) if ok else list(NOT_COMPARED)


def model_obs(ans, case=None):
    """the Lean driver's dump (already in the same shape: symbols are Sym, indices int, names str)"""
    return ans if sampled(case) else list(NOT_SAMPLED)
