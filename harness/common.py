"""Shared machinery of the pyxtuml verification harness (see DESIGN.md section 2).

  Workspace   scratch copy of /repo's *working tree* (PLY tables removed, regenerated on import)
  LeanSide    translator -> Gen tables, `lake build`, axiom audit, forbidden-token scan, driver
  Prng        single deterministic PRNG; every random choice of a run derives from VERIF_SEED
  Findings    KNOWN_FINDINGS.txt (open findings suppress by signature; fixed entries suppress nothing)
"""
import fcntl
import hashlib
import json
import os
import random
import re
import shutil
import subprocess
import sys
import tempfile
import time
from pathlib import Path

VERIF = Path(__file__).resolve().parent.parent
REPO = Path(os.environ.get('PYXTUML_REPO', '/repo'))
LEAN_DIR = Path(os.environ.get('PYXVERIF_LEAN_DIR', str(VERIF / 'lean')))
SCRATCH_ROOT = os.environ.get('PYXVERIF_SCRATCH', '/var/tmp')
ALLOWED_AXIOMS = {'propext', 'Classical.choice', 'Quot.sound'}
FORBIDDEN = re.compile(r'\bsorry\b|\badmit\b|^\s*axiom\s|native_decide|bv_decide|implemented_by|'
                       r'\bunsafe\s|maxHeartbeats\s+0\b|ofReduceBool', re.M)
# `partial def` (opaque to the kernel: no theorem can mention its body) is allowed only in the driver's IO loop and
# decoders and in the wire codecs listed here, which turn protocol lines into model values and answers into text;
# everything the theorems are about is total
PARTIAL_ALLOWED = ('Driver/', 'PyxModel/Sexp.lean', 'PyxModel/Interp/Decode.lean', 'PyxModel/Prebuild/Decode.lean',
                   'PyxModel/Extract/XsdWire.lean')
TRUSTED_BASE = [
    'Lean 4.33.0 kernel (lake build; thorough tier re-checks with leanchecker)',
    'axioms allowed per theorem: propext, Classical.choice, Quot.sound (audited by #print axioms on every run); '
    'no native_decide, no bv_decide, no sorry, no own axioms',
    'Lean compiler/runtime for the model driver (lean/.lake/build/bin/pyxdriver)',
    'translator/extract.py (source tables -> lean/Gen) and the Python correspondence harness incl. canonicalisation',
    'all Python code is MODELLED, not verified: theorems are about lean/PyxModel; the tie is the regenerated '
    'tables plus the differential correspondence run on every check',
]


# --------------------------------------------------------------------------- workspace

class Workspace(object):
    """Scratch copy of the repository working tree, outside /repo, /verif and /tmp."""

    def __init__(self):
        # scratch directories of runs that were killed (SIGKILL, power loss) are swept when they are older than 3 hours
        try:
            now = time.time()
            for d in Path(SCRATCH_ROOT).glob('pyxverif-*'):
                if d.is_dir() and now - d.stat().st_mtime > 3 * 3600:
                    shutil.rmtree(str(d), ignore_errors=True)
        except OSError:
            pass
        self.root = Path(tempfile.mkdtemp(prefix='pyxverif-', dir=SCRATCH_ROOT))
        self.repo = self.root / 'repo'
        ignore = shutil.ignore_patterns('.git', '__pycache__', '*.pyc', '__*tab.py', '.pytest_cache',
                                        'build', 'dist', '*.egg-info', 'doc', 'examples')
        shutil.copytree(str(REPO), str(self.repo), ignore=ignore, symlinks=True)
        self.active = False

    def activate(self):
        """Make `import xtuml` / `import bridgepoint` resolve to the copy."""
        sys.dont_write_bytecode = True
        sys.path.insert(0, str(self.repo))
        # /venv holds an editable install of /repo whose meta-path finder would resolve submodules that are
        # missing in the copy (PLY's generated `__*tab` modules!) to /repo: drop it, the copy must be self-contained
        sys.meta_path[:] = [f for f in sys.meta_path
                            if '__editable__' not in str(getattr(f, '__module__', '')) + str(getattr(f, '__name__', ''))]
        for name in list(sys.modules):
            if name == 'xtuml' or name.startswith('xtuml.') or name == 'bridgepoint' \
                    or name.startswith('bridgepoint.'):
                del sys.modules[name]
        import logging
        logging.disable(logging.CRITICAL)
        import xtuml
        if not os.path.realpath(xtuml.__file__).startswith(os.path.realpath(str(self.repo))):
            raise HarnessError('xtuml was imported from %s, not from the workspace' % xtuml.__file__)
        import bridgepoint.oal
        import xtuml.load
        xtuml.load.ModelLoader()
        bridgepoint.oal.OALParser()
        import ply.lex
        ply.lex.lex(module=xtuml.load.ModelLoader(), optimize=1, outputdir=os.path.dirname(xtuml.load.__file__),
                    lextab='xtuml.__xtuml_lextab')
        for name, mod in list(sys.modules.items()):
            if name.endswith('tab') and (name.startswith('xtuml.') or name.startswith('bridgepoint.')):
                f = getattr(mod, '__file__', '') or ''
                if not os.path.realpath(f).startswith(os.path.realpath(str(self.repo))):
                    raise HarnessError('generated PLY table %s was loaded from %s, not from the workspace' % (name, f))
        self.active = True
        return xtuml

    def tmp(self, name):
        p = self.root / name
        p.mkdir(parents=True, exist_ok=True)
        return p

    def cleanup(self):
        shutil.rmtree(str(self.root), ignore_errors=True)

    def __enter__(self):
        return self

    def __exit__(self, *a):
        self.cleanup()


class HarnessError(Exception):
    """Something is wrong with the machinery itself: exit status 2, never a verdict."""


class BrokenTie(Exception):
    """Raised by a harness guard when the run can no longer show the property for a reason that lies in the implementation
    under test (e.g. "more than 15 % of the reference bodies fail"): the runner records it as a broken obligation and goes on
    to search for a failing input - it is never exit status 2."""


# --------------------------------------------------------------------------- prng

class Prng(random.Random):
    """One PRNG state per run; `fork(tag)` derives independent reproducible streams."""

    def __init__(self, seed):
        self.seed_value = seed
        random.Random.__init__(self, seed)

    def fork(self, *tag):
        h = hashlib.sha256(('%s|%s' % (self.seed_value, '|'.join(str(t) for t in tag))).encode()).digest()
        return Prng(int.from_bytes(h[:8], 'big'))


# --------------------------------------------------------------------------- lean side

def _strip_lean_comments(text):
    # nested block comments and line comments
    out = []
    i, n, depth = 0, len(text), 0
    while i < n:
        if text.startswith('/-', i):
            depth += 1
            i += 2
        elif depth and text.startswith('-/', i):
            depth -= 1
            i += 2
        elif depth:
            if text[i] == '\n':
                out.append('\n')
            i += 1
        elif text.startswith('--', i):
            while i < n and text[i] != '\n':
                i += 1
        elif text.startswith("'\"'", i) or text.startswith("'\\\"'", i):
            # the character literal '"' (or '\"') does not open a string
            k = 3 if text.startswith("'\"'", i) else 4
            out.append("' '")
            i += k
        elif text[i] == '"':
            j = i + 1
            while j < n and text[j] != '"':
                j += 2 if text[j] == '\\' else 1
            out.append('""')
            i = j + 1
        else:
            out.append(text[i])
            i += 1
    return ''.join(out)


def theorems_in(path):
    """Names of the theorems declared in a Props file (comments stripped), with their namespace."""
    text = _strip_lean_comments(Path(path).read_text())
    ns = []
    names = []
    for line in text.split('\n'):
        m = re.match(r'\s*namespace\s+(\S+)', line)
        if m:
            ns.append(m.group(1))
            continue
        m = re.match(r'\s*end\s+(\S+)\s*$', line)
        if m and ns and ns[-1] == m.group(1):
            ns.pop()
            continue
        if re.match(r'\s*(?:@\[[^\]]*\]\s*)?private\s+theorem\s', line):
            continue      # helpers of the non-vacuity examples: not addressable from outside the file, not property theorems
        m = re.match(r'\s*(?:@\[[^\]]*\]\s*)?(?:protected\s+)?theorem\s+([^\s:({\[]+)', line)
        if m:
            names.append('.'.join(ns + [m.group(1)]))
    return names


class LeanSide(object):
    """Regenerates Gen tables from the workspace, builds, audits.  Never raises on a *broken
    obligation* (that is a verdict input); raises HarnessError only when the tooling is unusable."""

    def __init__(self, ws, prop_id, log=None):
        self.ws = ws
        self.prop = prop_id
        self.dir = LEAN_DIR
        self.overlay = None
        self.broken = []          # human-readable descriptions of obligations that no longer check
        self.obligations = []     # {'name','ok','axioms'}
        self.gen_changed = []
        self.driver = None
        self.log = log or (lambda *a: None)
        self.build_output = ''
        self.timing = {}
        self.leanchecker_modules = []

    # -- translator ---------------------------------------------------------------
    def gen_deps(self):
        """names of the Gen/*.lean files that Props/<prop>.lean or Driver/<prop>.lean import, transitively"""
        seen, todo, gens = set(), ['Props.%s' % self.prop, 'Driver.%s' % self.prop], set()
        while todo:
            mod = todo.pop()
            if mod in seen:
                continue
            seen.add(mod)
            f = LEAN_DIR / (mod.replace('.', '/') + '.lean')
            if not f.exists():
                continue
            if mod.startswith('Gen.'):
                gens.add(f.name)
            for m in re.finditer(r'^\s*(?:public\s+)?import\s+(\S+)', f.read_text(), re.M):
                if m.group(1).split('.')[0] in ('PyxModel', 'Gen', 'Proofs', 'Props', 'Driver'):
                    todo.append(m.group(1))
        return gens

    def regenerate(self):
        t0 = time.time()
        sys.path.insert(0, str(VERIF / 'translator'))
        import extract
        out = self.ws.tmp('gen')
        deps = self.gen_deps()
        self.gen_dep_files = sorted(deps)
        try:
            errors = extract.generate(str(self.ws.repo), str(out), only=deps)
        except Exception as e:  # extractor crash: the source no longer has the expected shape
            errors = ['translator crashed: %s: %s' % (type(e).__name__, e)]
        for e in errors:
            self.broken.append('translator: ' + e)
        changed = []
        for f in sorted(out.glob('*.lean')):
            if f.name not in deps:
                continue
            ref = self.dir / 'Gen' / f.name
            if not ref.exists() or ref.read_bytes() != f.read_bytes():
                changed.append(f.name)
        self.gen_changed = changed
        # the hand-modelled environment of the translated functions (tools/meta/<prop>.json "environment"): a changed
        # definition is a broken tie (translator/env_fingerprint.py)
        try:
            import env_fingerprint
            for entry, was, now in env_fingerprint.differences(str(self.ws.repo), str(VERIF), self.prop):
                self.broken.append('environment: %s changed (hand-modelled code around the translated functions; '
                                   'snapshot %s, now %s)' % (entry, was, now))
        except Exception as e:
            self.broken.append('environment fingerprint crashed: %s: %s' % (type(e).__name__, e))
        if changed:
            self.log('generated tables differ from the committed snapshot: %s' % ', '.join(changed))
            self.overlay = self.ws.root / 'lean'
            shutil.copytree(str(LEAN_DIR), str(self.overlay), symlinks=True)
            for f in out.glob('*.lean'):
                shutil.copy(str(f), str(self.overlay / 'Gen' / f.name))
            self.dir = self.overlay
        self.timing['translate_s'] = round(time.time() - t0, 2)

    # -- build --------------------------------------------------------------------
    def _lake(self, *targets, timeout=1800):
        lock = open(str(self.dir / '.build.lock'), 'w')
        try:
            fcntl.flock(lock, fcntl.LOCK_EX)
            p = subprocess.run(['lake', 'build'] + list(targets), cwd=str(self.dir), stdout=subprocess.PIPE,
                               stderr=subprocess.STDOUT, text=True, timeout=timeout)
        finally:
            fcntl.flock(lock, fcntl.LOCK_UN)
            lock.close()
        return p.returncode, p.stdout

    def build(self):
        t0 = time.time()
        if shutil.which('lake') is None:
            raise HarnessError('lake not on PATH')
        props_file = self.dir / 'Props' / ('%s.lean' % self.prop)
        self.theorem_names = theorems_in(props_file) if props_file.exists() else []
        rc, out = self._lake('Props.%s' % self.prop)
        self.build_output = out
        self.props_ok = (rc == 0)
        if rc != 0:
            failing = re.findall(r'^(?:✖|error:).*$', out, re.M)
            self.broken.append('lake build Props.%s failed: %s' % (self.prop, '; '.join(failing[:6])))
        rc2, out2 = self._lake('pyxdriver')
        if rc2 == 0:
            self.driver = self.dir / '.lake' / 'build' / 'bin' / 'pyxdriver'
        else:
            self.build_output += out2
            self.broken.append('lake build pyxdriver failed (model driver unavailable)')
        self.timing['build_s'] = round(time.time() - t0, 2)

    # -- audit --------------------------------------------------------------------
    def audit(self):
        t0 = time.time()
        self.obligations = []
        if not self.theorem_names:
            self.broken.append('no theorems found in Props/%s.lean' % self.prop)
            return
        if not self.props_ok:
            self.obligations = [{'name': n, 'ok': False, 'axioms': None} for n in self.theorem_names]
            return
        # forbidden tokens anywhere in the project sources
        for f in sorted(self.dir.rglob('*.lean')):
            if '.lake' in f.parts:
                continue
            m = FORBIDDEN.search(_strip_lean_comments(f.read_text()))
            if m:
                self.broken.append('forbidden token %r in %s' % (m.group(0).strip(), f.relative_to(self.dir)))
            rel = str(f.relative_to(self.dir))
            if not rel.startswith(PARTIAL_ALLOWED) and re.search(r'\bpartial\s+def\b', _strip_lean_comments(f.read_text())):
                self.broken.append('partial def outside the driver / wire codecs in %s' % rel)
        audit_file = self.ws.tmp('audit') / ('Audit%s.lean' % self.prop)
        audit_file.write_text('import Props.%s\n' % self.prop +
                              ''.join('#print axioms %s\n' % n for n in self.theorem_names))
        p = subprocess.run(['lake', 'env', 'lean', str(audit_file)], cwd=str(self.dir), stdout=subprocess.PIPE,
                           stderr=subprocess.STDOUT, text=True, timeout=900)
        text = p.stdout.replace('\n  ', ' ')
        found = {}
        for m in re.finditer(r"'([^']+)' depends on axioms: \[([^\]]*)\]", text):
            found[m.group(1)] = [a.strip() for a in m.group(2).split(',') if a.strip()]
        for m in re.finditer(r"'([^']+)' does not depend on any axioms", text):
            found[m.group(1)] = []
        for n in self.theorem_names:
            ax = found.get(n)
            ok = ax is not None and set(ax) <= ALLOWED_AXIOMS
            self.obligations.append({'name': n, 'ok': ok, 'axioms': ax})
            if not ok:
                self.broken.append('theorem %s: %s' % (n, 'not found by audit' if ax is None else
                                                       'depends on disallowed axioms %s' % ax))
        self.timing['audit_s'] = round(time.time() - t0, 2)

    def leanchecker(self):
        """Thorough tier: independent re-check of the compiled property module."""
        t0 = time.time()
        self.leanchecker_modules = []
        if shutil.which('leanchecker') is None:
            self.log('leanchecker is not on PATH: the independent re-check is SKIPPED')
            return None
        # the property module and every module of this project it imports (models, generated tables, lemmas)
        mods = sorted(m for m in self.project_imports() if m.split('.')[0] in ('Props', 'Proofs', 'PyxModel', 'Gen'))
        p = subprocess.run(['lake', 'env', 'leanchecker'] + mods, cwd=str(self.dir),
                           stdout=subprocess.PIPE, stderr=subprocess.STDOUT, text=True, timeout=3600)
        self.timing['leanchecker_s'] = round(time.time() - t0, 2)
        self.leanchecker_modules = mods
        if p.returncode != 0:
            self.broken.append('leanchecker failed on %d modules of Props.%s: %s' % (len(mods), self.prop, p.stdout[-400:]))
        return p.returncode == 0

    def project_imports(self):
        """modules of this lake project that Props/<prop>.lean imports, transitively (incl. itself)"""
        seen, todo = set(), ['Props.%s' % self.prop]
        while todo:
            mod = todo.pop()
            if mod in seen:
                continue
            f = self.dir / (mod.replace('.', '/') + '.lean')
            if not f.exists():
                continue
            seen.add(mod)
            for m in re.finditer(r'^\s*import\s+(\S+)', _strip_lean_comments(f.read_text()), re.M):
                todo.append(m.group(1))
        return seen

    def prepare(self, thorough=False):
        self.regenerate()
        self.build()
        self.audit()
        if thorough and self.props_ok:
            self.leanchecker()
        return self

    # -- driver -------------------------------------------------------------------
    def run_driver(self, lines, timeout=3600):
        """Feed command lines to the model driver; returns the list of answer strings."""
        if self.driver is None:
            return None
        if not lines:
            return []
        data = '\n'.join(lines) + '\n'
        p = subprocess.run([str(self.driver)], input=data, stdout=subprocess.PIPE, stderr=subprocess.PIPE,
                           text=True, timeout=timeout)
        out = p.stdout.split('\n')
        if out and out[-1] == '':
            out.pop()
        if p.returncode != 0 or len(out) != len(lines):
            raise HarnessError('driver returned %d answers for %d commands (rc=%s, stderr=%s)'
                               % (len(out), len(lines), p.returncode, p.stderr[-300:]))
        return out


# --------------------------------------------------------------------------- known findings

class Findings(object):
    """KNOWN_FINDINGS.txt:  `open: property=<id> sig=<signature> <what fails>`  suppresses exactly the
    failures whose signature matches; `fixed: property=<id> <commit> <what failed>` suppresses nothing."""

    def __init__(self, path=None):
        self.open = {}
        path = path or (VERIF / 'KNOWN_FINDINGS.txt')
        if not Path(path).exists():
            return
        for line in Path(path).read_text().split('\n'):
            m = re.match(r'open:\s+property=(\S+)\s+sig=(\S+)\s+(.*)$', line.strip())
            if m:
                self.open.setdefault(m.group(1), {})[m.group(2)] = m.group(3)

    def match(self, prop, sig):
        return self.open.get(prop, {}).get(sig)


def jsonable(x):
    from sexp import Sym
    if isinstance(x, Sym):
        return ':' + str(x)
    if isinstance(x, (list, tuple)):
        return [jsonable(e) for e in x]
    if isinstance(x, dict):
        return {str(k): jsonable(v) for k, v in x.items()}
    if isinstance(x, (set, frozenset)):
        return sorted(jsonable(e) for e in x)
    if isinstance(x, (str, int, float, bool)) or x is None:
        return x
    return repr(x)
