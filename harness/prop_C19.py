"""C19 — New instances get typed defaults and fresh non-null identifiers.

A case fixes an id generator (xtuml.IntegerGenerator, xtuml.UUIDGenerator, or a user-supplied counting
generator derived from xtuml.IdGenerator) and a history on one metamodel: `define` (classes whose attribute
types are spelled in mixed letter case, sometimes an unknown type), optionally `assoc` (one referential
attribute), `new` with every mix of positional / keyword / omitted arguments, and `peek` / `next` calls on the
metamodel's generator interleaved with the creations.

  D  (property predicate, oracle independent of the implementation):
     a successful constructor leaves every non-referential attribute at: its keyword value if one was given,
     else its positional value, else the default of its declared type (False / 0 / 0.0 / '' with the right
     Python type; for UNIQUE_ID a value handed out by the generator); a class with an attribute of unknown
     type is rejected with MetaException and a class without one is not; defaulted ids are never null
     (0 / None) and pairwise distinct within the metamodel, and differ from every id supplied explicitly for another
     instance (signature explicit-id-collision - an OPEN finding: the library does not reserve supplied ids; family
     `explicit`); with the integer generator the values handed out are
     1, 2, 3, … in order (an explicitly supplied id still consumes one); `peek` returns what the next
     `next` / next default returns and never advances.
  K  (correspondence): the result of every op and the `__dict__` (keys in order, values) of every created
     instance against lean/PyxModel/NewInst.lean (driver command `(newinst (gen lin START STEP) op…)`).
     UUID values are never compared: the k-th value produced by the generator is renamed 1000001+k on the
     implementation side (the model runs that stream); D checks non-null and distinct on the raw values.

Family `hist` (D only, see _hist_case): the life of one metamodel whose generator is replaced, which is populated
through xtuml.ModelLoader, and whose MetaModel object the application may stop referencing (`drop`) while it goes
on creating instances through the metaclasses / instances it kept.  D: every defaulted id is non-null, new in the
metamodel, and one of the values of the generator the metamodel holds at that moment (the harness keeps the
generator objects); a creation advances that generator by exactly the number of ids it defaulted.

Family `dry` (D only, see _dry_case): finite user-supplied generators and more defaulted creations than ids: an exception
out of new() is accepted, an instance with a null / foreign / repeated defaulted id is not.

Family `layout` (D only, see _layout_case): the attribute list of a class is edited between creations; positional arguments
are paired with the attributes in their current order, keywords address the current attribute of that name.

Family `falsy` (D only, see _falsy_case): generators that yield falsy ids; peek returns the pending value whatever it is and
the following next returns that same value, next hands out the values in readfunc's order without skipping any (when readfunc is
called - read-ahead or on demand - is not demanded).

Families `override` and `kwnames` (D only, see _override_case / _kwnames_case): a generator overriding next() is what every
drawing route uses; a keyword named like an internal parameter of the library sets the attribute of that name.

Family `twin` (D only, see _twin_case): two metamodels with the same classes in one process, with separate generators or
sharing one generator object, swapping and sharing generators along the way.  D: a defaulted id comes from the current
generator of the metamodel the instance is created in, is non-null and new; only that generator advances, by the
number of defaulted ids; instances and loaded rows land in the metamodel addressed.
"""
import itertools

from sexp import Sym, dumps

PROP = 'C19'
RULE = ('(1) exhaustive: every interleaving of peek / next of length <= 9 (quick) / 13 (thorough) on each generator '
        'kind; (2) random: schemas of 1-3 classes with 1-6 attributes, type names BOOLEAN/INTEGER/REAL/STRING/'
        'UNIQUE_ID in random letter case plus unknown type names, optionally one association (referential attribute), '
        'then up to 14 (quick) / 30 (thorough) ops: new with positional prefix of random length + keywords under random '
        'spellings (explicit ids included), peek, next; generator kinds integer / uuid / counting(start, step); '
        '(3) history of one metamodel (D only): 1-2 classes with trailing unique ids, 3-12 ops of new / replace the '
        'generator / ModelLoader.populate of rows shorter than the table (some rejected); in half of the cases the '
        'application drops its reference to the MetaModel at a random point (only metaclasses and instances are kept, '
        'gc.collect()) and goes on through metaclass.new() / metaclass() / get_metaclass(inst).new() / '
        'get_metamodel(inst); generator j hands out 100000*j+1, +2, ...; '
        '(5) explicit ids inside the generator\'s future range (D and K): new(A, Id=<one of the next 5 values the generator will '
        'hand out>) interleaved with creations that omit the id, integer and counting generators (open finding '
        'explicit-id-collision); '
        '(6) generators that run dry (D only): a plain finite iterator or an IdGenerator whose readfunc raises StopIteration after '
        '0-5 values, more creations with the id omitted than values (no instance with a null id may be handed out); '
        '(7) edited attribute lists (D only): delete_attribute / insert_attribute / append_attribute between creations, incl. moves '
        'and replacements that keep the number of attributes, then positional and keyword creations (arguments follow the CURRENT '
        'order); '
        '(8) falsy ids (D only): IdGenerator subclasses whose readfunc yields 0, \'\', 0.0, False, () among ordinary values (zero-based '
        'counter, negative start, mixed), 2-10 peek / next / next() / next(iter()) calls: peek returns the pending value, the next '
        'next returns it, every value is handed out in order; '
        '(9) generators that OVERRIDE next() (D only: offset, skip, record): ids of new instances and gen.next() / next(gen) / '
        'gen.__next__() / next(iter(gen)) all yield the override\'s sequence; (10) attribute names equal to plausible internal '
        'parameter names (inst, args, kwargs, metaclass, cls, name, value, key, m, ...) supplied by keyword through all three '
        'creation routes (D only); '
        '(4) two metamodels in one process (D only) with the same classes, separate generators or one shared generator '
        'object, 4-14 ops of new (through metamodel / metaclass / call) / fresh generator / take over the other one\'s generator / '
        'load short rows, in either metamodel; '
        'non-trivial = at least two instances with defaulted ids and one explicit argument; distinct = distinct op sequence')
EXHAUSTIVE = {'quick': True, 'thorough': True}
ASSUMPTIONS = ['the theorems prove "never repeats" for ids LEFT TO THEIR DEFAULT (ids_fresh / ids_fresh_history) and that a '
               'defaulted id differs from every explicitly supplied id outside the values the generator hands out '
               '(ids_fresh_vs_explicit).  An id supplied EXPLICITLY inside the generator\'s range is not reserved by the library: '
               'IntegerGenerator, new(A, Id=2); new(A) gives two instances with Id 2.  That contradicts the property as worded and '
               'is the OPEN finding explicit-id-collision: the family `explicit` generates it and D reports exactly this symptom '
               '(a defaulted id equal to an explicitly supplied id of ANOTHER instance) under that signature; a repeat among '
               'defaulted ids is the ordinary failure id-repeats',
               'type names are ASCII (str.upper on ASCII; e.g. the dotless i of a Turkish-spelt INTEGER upper-cases to I in '
               'Python and would be accepted by the code, rejected by the model)',
               'uuid4 values are treated as an injective never-null stream (probabilistic assumption; values are never '
               'compared, only checked non-null and pairwise distinct)',
               'user-supplied generators are represented by counting generators start + step*k with start, step > 0 '
               '(theorem ids_fresh quantifies over every injective never-null stream)',
               'keyword names are spellings (any letter case) of declared attributes, referential or not; declared '
               'names are distinct after upper-casing; values are type-consistent '
               '(Python equates False == 0 == 0.0, the model does not)',
               'MetaClass.default_value is reached through a metaclass that belongs to a metamodel (the branch '
               '`if self.metamodel` false -> None is not exercised by a correct implementation: a metaclass made by '
               'define_class keeps its metamodel alive; the history family drops the application\'s own reference and '
               'demands that defaulted ids still come from the generator)']
CHUNK = 4000
CASE_TIMEOUT_S = 10

_x = None
UUID_BASE = 1000001
KNOWN = {'BOOLEAN': False, 'INTEGER': 0, 'REAL': 0.0, 'STRING': '', 'UNIQUE_ID': None}


def setup(ctx):
    global _x
    import xtuml
    _x = xtuml


# --------------------------------------------------------------------------- generation

def respell(r, name):
    mode = r.random()
    if mode < 0.25:
        return name
    if mode < 0.4:
        return name.upper()
    if mode < 0.5:
        return name.lower()
    return ''.join((c.upper() if r.random() < 0.5 else c.lower()) for c in name)


def _ident(r, lo=1, hi=6):
    first = 'abcdefghijklmnopqrstuvwxyzABCDEFGHIJKLMNOPQRSTUVWXYZ'
    rest = first + '0123456789_'
    return r.choice(first) + ''.join(r.choice(rest) for _ in range(r.randint(lo - 1, hi - 1)))


def _value(r, T):
    if r.random() < 0.06:
        return None
    if T == 'BOOLEAN':
        return r.random() < 0.5
    if T == 'STRING':
        return r.choice(['', 'a', 'bc', 'X y'])
    if T == 'REAL':
        return r.choice([0.5, 2.0, -1.25])
    if T in ('INTEGER', 'UNIQUE_ID'):
        return r.randint(0, 9)
    return r.choice([1, 'u', True])


def _gen_spec(r):
    k = r.random()
    if k < 0.45:
        return {'gen': 'int'}
    if k < 0.7:
        return {'gen': 'uuid'}
    return {'gen': 'user', 'start': r.randint(1, 50), 'step': r.randint(1, 7)}


def _random_case(r, maxops):
    case = _gen_spec(r)
    ops = []
    classes = []
    ncls = r.randint(1, 3)
    seen_k = set()
    for _ in range(ncls):
        kind = _ident(r, 1, 4)
        while kind.upper() in seen_k:
            kind = _ident(r, 1, 4)
        seen_k.add(kind.upper())
        attrs, seen = [], set()
        unknown_ok = r.random() < 0.18
        for _ in range(r.randint(1, 6)):
            nm = _ident(r)
            if nm.upper() in seen:
                continue
            seen.add(nm.upper())
            T = r.choice(['BOOLEAN', 'INTEGER', 'REAL', 'STRING', 'UNIQUE_ID', 'UNIQUE_ID', 'UNIQUE_ID'])
            ty = respell(r, T)
            if unknown_ok and r.random() < 0.3:
                ty = r.choice(['FOO', 'int', 'Uniqueid', 'unique-id', 'str', 'BOOL', 'inst_ref<X>', 'REAL ', 'integerr'])
            attrs.append([nm, ty])
        classes.append((kind, attrs, None))
        ops.append(['define', kind, attrs])
    if ncls >= 2 and r.random() < 0.5:
        # class 1 refers to class 0 through one attribute; key types must agree and be known
        tk, ta, _ = classes[0]
        sk, sa, _ = classes[1]
        key = ta[0]
        if key[1].upper() in ('INTEGER', 'STRING', 'UNIQUE_ID'):
            pos = r.randrange(len(sa))
            sa[pos][1] = respell(r, key[1].upper())
            classes[1] = (sk, sa, sa[pos][0])
            ops.append(['assoc', respell(r, sk), sa[pos][0], respell(r, tk), respell(r, key[0])])
    for _ in range(r.randint(1, maxops)):
        w = r.random()
        if w < 0.12:
            ops.append(['peek'])
        elif w < 0.22:
            ops.append([r.choice(['next', 'next2'])])
        else:
            kind, attrs, ref = r.choice(classes)
            if r.random() < 0.03:
                ops.append(['new', kind + 'x', [], []])
                continue
            npos = r.choice([0, 0, 0, 1, 2, len(attrs), r.randint(0, len(attrs) + 1)])
            args = []
            for i in range(npos):
                T = attrs[i][1].upper() if i < len(attrs) else 'INTEGER'
                args.append(_value(r, T))
            kws, seen = [], set()
            for nm, ty in attrs:
                if r.random() < 0.3:
                    sp = respell(r, nm)
                    if sp not in seen:
                        seen.add(sp)
                        kws.append([sp, _value(r, ty.upper())])
                    if nm != ref and r.random() < 0.1:
                        sp2 = respell(r, nm)
                        if sp2 not in seen:
                            seen.add(sp2)
                            kws.append([sp2, _value(r, ty.upper())])
            r.shuffle(kws)
            ops.append(['new', respell(r, kind), args, kws])
    case['fam'] = 'rand'
    case['ops'] = ops
    return case


def _hist_case(r):
    """D-only family: the life of ONE metamodel whose generator is replaced (`m.id_generator = …`, as
    bridgepoint.ooaofooa users do after load_metamodel) and which is also populated through xtuml.ModelLoader
    (rows shorter than the table keep defaulted trailing ids; a rejected populate() is followed by more
    creations).  Generator j hands out 100000*j + 1, +2, … so that the oracle knows which generator a defaulted
    id came from.  In about half of the cases the application, at some point of the history, DROPS its own
    reference to the MetaModel (`drop`: the harness keeps only the metaclasses returned by define_class and the
    instances, forgets `m` and runs gc.collect() - the helper-function pattern `return m.find_metaclass('A')`);
    the later creations go through `metaclass.new()`, `metaclass()` or `xtuml.get_metaclass(inst).new()`, the
    later generator swaps and loads through `xtuml.get_metamodel(inst)` / `metaclass.metamodel`.  The harness
    keeps the GENERATOR objects, so the oracle still knows which values a defaulted id may take."""
    classes = []
    ops = []
    for c in range(r.randint(1, 2)):
        kind = 'K%d' % c
        attrs = []
        for a in range(r.randint(1, 4)):
            attrs.append(['a%d' % a, respell(r, r.choice(['INTEGER', 'STRING', 'BOOLEAN', 'UNIQUE_ID']))])
        attrs.append(['id%d' % c, respell(r, 'UNIQUE_ID')])         # a trailing id: short rows leave it defaulted
        if r.random() < 0.4:
            attrs.append(['z', respell(r, 'UNIQUE_ID')])
        classes.append((kind, attrs))
        ops.append(['define', kind, attrs])

    def lit(T):
        return {'INTEGER': str(r.randint(0, 9)), 'STRING': "'s%d'" % r.randint(0, 9), 'BOOLEAN': r.choice(['true', 'false']),
                'UNIQUE_ID': r.choice(['%d' % r.randint(1, 9), '"00000000-0000-0000-0000-00000000000%d"' % r.randint(1, 9)])}[T.upper()]

    def wrong(T):
        return {'INTEGER': "'x'", 'STRING': '1.5', 'BOOLEAN': "'x'", 'UNIQUE_ID': "'x'"}[T.upper()]

    dropped = False
    will_drop = r.random() < 0.5
    for _ in range(r.randint(3, 12)):
        if will_drop and not dropped and r.random() < 0.3:
            ops.append(['drop'])
            dropped = True
        w = r.random()
        kind, attrs = r.choice(classes)
        if w < (0.6 if dropped else 0.35):
            ops.append(['new', respell(r, kind), [], []] + ([r.choice(['mc', 'call', 'inst'])] if dropped else []))
        elif w < 0.55:
            ops.append(['swapgen'])
        else:
            rows = []
            for _ in range(r.randint(1, 3)):
                k2, a2 = r.choice(classes)
                n = r.randint(1, len(a2) - 1)
                rows.append([respell(r, k2), [lit(t) for _, t in a2[:n]]])
            if w > 0.85:
                # a row the loader refuses while populating (a value of the wrong lexical form), after good rows
                k2, a2 = r.choice(classes)
                rows.append([k2, [wrong(a2[0][1])]])
            ops.append(['load', rows])
    return {'gen': 'user', 'start': 1, 'step': 1, 'fam': 'hist', 'ops': ops}


def _explicit_case(r):
    """family `explicit` (D and K): callers SUPPLY unique ids that lie in the generator's future range - `new('A', Id=k)` with k
    one of the next values the generator will hand out - and go on creating instances with the id omitted.  The library does
    not reserve supplied ids, so a later defaulted id equals the supplied one: two instances of the metamodel carry the same
    id ("never repeats within the metamodel" fails as worded).  D reports exactly that symptom as `explicit-id-collision`
    (open finding); a repeat among DEFAULTED ids stays `id-repeats`."""
    case = {'gen': 'int'} if r.random() < 0.6 else {'gen': 'user', 'start': r.randint(1, 9), 'step': r.randint(1, 3)}
    value = (lambda k: k + 1) if case['gen'] == 'int' else (lambda k: case['start'] + case['step'] * k)
    classes, ops = [], []
    for c in range(r.randint(1, 2)):
        attrs = [['Id', respell(r, 'UNIQUE_ID')]]
        if r.random() < 0.4:
            attrs.append(['N', respell(r, 'INTEGER')])
        if r.random() < 0.4:
            attrs.append(['Id2', respell(r, 'UNIQUE_ID')])
        r.shuffle(attrs)
        classes.append(('E%d' % c, attrs))
        ops.append(['define', 'E%d' % c, attrs])
    draws = 0
    for _ in range(r.randint(2, 9)):
        kind, attrs = r.choice(classes)
        n_ids = sum(1 for a, t in attrs if t.upper() == 'UNIQUE_ID')
        kws = []
        if r.random() < 0.45:
            # an id the generator has not handed out yet (or is handing out in this very call)
            a = r.choice([a for a, t in attrs if t.upper() == 'UNIQUE_ID'])
            kws.append([respell(r, a), value(draws + r.randint(0, 4))])
        ops.append(['new', respell(r, kind), [], kws])
        draws += n_ids
        if r.random() < 0.15:
            ops.append([r.choice(['peek', 'next'])])
            draws += 1 if ops[-1][0] == 'next' else 0
    case['fam'] = 'explicit'
    case['ops'] = ops
    return case


def _dry_case(r):
    """D-only family `dry`: user-supplied generators that RUN DRY - a plain finite iterator given as id_generator, or an
    IdGenerator subclass whose readfunc raises StopIteration after k values - and more creations with the id omitted than
    there are ids.  Whatever the library does on exhaustion (letting the exception out of new() is fine), it must not HAND
    OUT an instance whose defaulted id is null, and the ids it does hand out stay distinct values of the generator."""
    attrs = []
    if r.random() < 0.5:
        attrs.append(['n', respell(r, 'INTEGER')])
    attrs.append(['Id', respell(r, 'UNIQUE_ID')])
    if r.random() < 0.3:
        attrs.append(['Id2', respell(r, 'UNIQUE_ID')])
    r.shuffle(attrs)
    k = r.randint(0, 5)
    ops = [['new', r.choice(['m', 'mc', 'call'])] for _ in range(r.randint(k // 2 + 1, k + 5))]
    return {'gen': 'user', 'start': 1, 'step': 1, 'fam': 'dry', 'kind_of_generator': r.choice(['iterator', 'idgen']),
            'values': k, 'attrs': attrs, 'ops': ops}


def _layout_case(r):
    """D-only family `layout`: the attribute list of a class is EDITED between creations - MetaClass.delete_attribute,
    insert_attribute, append_attribute, including moves that keep the number of attributes (delete + insert of the same
    name at another position) - and creations with positional and keyword arguments follow.  D: positional arguments are
    paired with the attributes in their CURRENT order, keywords (any letter case) address the current attribute of that name,
    every other attribute holds the typed default of its current type."""
    types = ['INTEGER', 'STRING', 'REAL', 'BOOLEAN']
    pool = ['Id', 'Name', 'Weight', 'Flag', 'Cnt', 'Tag']
    attrs = [[a, respell(r, r.choice(types))] for a in r.sample(pool, r.randint(2, 4))]
    cur = [list(a) for a in attrs]
    ops = []
    serial = [0]

    def creation():
        npos = r.choice([0, 1, len(cur), r.randint(0, len(cur))])
        args = []
        for i in range(npos):
            serial[0] += 1
            args.append(1000 + serial[0])                      # distinct values: which attribute got which argument shows
        kws = []
        for a, _ in cur[npos:]:
            if r.random() < 0.3:
                serial[0] += 1
                kws.append([respell(r, a), 5000 + serial[0]])
        ops.append(['new', args, kws, r.choice(['m', 'mc', 'call'])])
    creation()                                                 # whatever the class remembers about its layout is warm now
    for _ in range(r.randint(2, 8)):
        w = r.random()
        unused = [a for a in pool if a not in [c[0] for c in cur]]
        if w < 0.35 and len(cur) >= 2:
            # a move: the same attribute at another position, the number of attributes unchanged
            j = r.randrange(len(cur))
            a, t = cur[j]
            k = r.choice([i for i in range(len(cur)) if i != j])
            ops.append(['delattr', a])
            ops.append(['insattr', k, a, t])
            del cur[j]
            cur.insert(k, [a, t])
        elif w < 0.5 and len(cur) >= 2:
            # a replacement: one attribute goes, another one comes (same number of attributes)
            j = r.randrange(len(cur))
            ops.append(['delattr', cur[j][0]])
            del cur[j]
            if unused:
                a, t, k = r.choice(unused), respell(r, r.choice(types)), r.randint(0, len(cur))
                ops.append(['insattr', k, a, t])
                cur.insert(k, [a, t])
        elif w < 0.6 and unused:
            a, t = r.choice(unused), respell(r, r.choice(types))
            ops.append(['appattr', a, t])
            cur.append([a, t])
        elif w < 0.68 and unused:
            a, t, k = r.choice(unused), respell(r, r.choice(types)), r.randint(0, len(cur))
            ops.append(['insattr', k, a, t])
            cur.insert(k, [a, t])
        else:
            creation()
    creation()
    return {'gen': 'user', 'start': 1, 'step': 1, 'fam': 'layout', 'attrs': attrs, 'ops': ops}


FALSY = [0, '', 0.0, False, ()]


def _falsy_case(r):
    """D-only family `falsy`: user-defined IdGenerator subclasses whose readfunc yields FALSY ids among ordinary ones (a
    zero-based counter, a counter coming up from a negative start, '', 0.0, False, an empty tuple) under peek / next histories.
    'Peeking never advances a generator' is unconditional: peek returns the pending value - whatever it is - and the next
    `next` returns that same value; the values come out in the order readfunc produced them, none is skipped."""
    kind = r.choice(['zero-based', 'negative-start', 'mixed'])
    if kind == 'zero-based':
        seq = list(range(0, 12))
    elif kind == 'negative-start':
        start = -r.randint(1, 4)
        seq = list(range(start, start + 12))
    else:
        seq = []
        for i in range(12):
            seq.append(r.choice(FALSY) if r.random() < 0.4 else 100 + i)
    ops = [r.choice(['peek', 'peek', 'next', 'next2', 'iter']) for _ in range(r.randint(2, 10))]
    return {'gen': 'user', 'start': 1, 'step': 1, 'fam': 'falsy', 'kind_of_sequence': kind, 'seq': seq, 'ops': [[o] for o in ops]}


INTERNAL_NAMES = ['self', 'inst', 'args', 'kwargs', 'metaclass', 'cls', 'name', 'value', 'attr', 'key', 'm', 'metamodel', 'kind',
                  'attributes', 'ty', 'type_name', 'instance', 'other', 'link', 'names', 'lookup', 'default']


def _override_case(r):
    """D-only family `override`: a user generator that overrides next() itself (not readfunc): it offsets every id, skips some
    values, or records what it hands out.  Every way of drawing - MetaClass.default_value for a new instance, gen.next(),
    next(gen), gen.__next__(), next(iter(gen)) - must go through the override: the values, in order, are the override's sequence."""
    ops = []
    for _ in range(r.randint(3, 12)):
        ops.append([r.choice(['new', 'new', 'new-mc', 'new-call', 'next', 'next2', 'dunder', 'iter'])])
    return {'gen': 'user', 'start': 1, 'step': 1, 'fam': 'override', 'variant': r.choice(['offset', 'skip', 'record']),
            'two_ids': r.random() < 0.3, 'ops': ops}


def _kwnames_case(r):
    """D-only family `kwnames`: attributes whose names are plausible INTERNAL parameter / variable names of the library (inst,
    args, kwargs, metaclass, cls, name, value, attr, key, m, metamodel, kind, ...), supplied by keyword through MetaModel.new,
    MetaClass.new and MetaClass.__call__: the keyword sets the attribute, whatever it is called - `self` and `kind` included (the receivers of new /
    __call__ are positional-only since fix f67e417)."""
    names = r.sample(INTERNAL_NAMES, r.randint(2, 5))
    attrs = [[nm if r.random() < 0.7 else nm.capitalize(), respell(r, r.choice(['INTEGER', 'STRING']))] for nm in names]
    ops = []
    for _ in range(r.randint(2, 6)):
        route = r.choice(['m', 'mc', 'call'])
        kws = []
        for a, t in attrs:
            if r.random() < 0.6:
                sp = r.choice([a, a.lower(), a.lower(), respell(r, a)])
                if sp not in [k for k, _ in kws]:
                    kws.append([sp, r.randint(1, 99) if t.upper() == 'INTEGER' else 'v%d' % r.randint(1, 99)])
        ops.append(['new', route, kws])
    return {'gen': 'user', 'start': 1, 'step': 1, 'fam': 'kwnames', 'attrs': attrs, 'ops': ops}


def _twin_case(r):
    """D-only family: TWO metamodels in one process that define the same classes (same kinds, same attribute names).  They
    start with separate generators or SHARE one generator object; during the history either one gets a fresh generator
    (`swapgen w`) or is given the other one's (`share w`); instances are created in either one through the metamodel, the
    metaclass or the metaclass call, and short rows are loaded into either one.  Generator j hands out 100000*j + 1, +2, ...,
    so the oracle knows for every defaulted id which generator it came from: it must be the CURRENT generator of the metamodel
    the instance was created in, the value must be new, and no OTHER generator may have been advanced."""
    attrs = []
    for a in range(r.randint(0, 3)):
        attrs.append(['a%d' % a, respell(r, r.choice(['INTEGER', 'STRING', 'UNIQUE_ID']))])
    attrs.append(['id', respell(r, 'UNIQUE_ID')])
    if r.random() < 0.4:
        attrs.append(['z', respell(r, 'UNIQUE_ID')])
    kinds = ['K0'] + (['K1'] if r.random() < 0.5 else [])
    ops = []
    for _ in range(r.randint(4, 14)):
        w = r.randrange(2)
        c = r.random()
        if c < 0.6:
            ops.append(['new', w, respell(r, r.choice(kinds)), r.choice(['m', 'mc', 'call'])])
        elif c < 0.72:
            ops.append(['swapgen', w])
        elif c < 0.84:
            ops.append(['share', w])
        else:
            rows = []
            for _ in range(r.randint(1, 2)):
                n = r.randint(0, len(attrs) - 1)
                lits = []
                for _, t in attrs[:n]:
                    lits.append({'INTEGER': '3', 'STRING': "'s'", 'UNIQUE_ID': '%d' % r.randint(1, 9)}[t.upper()])
                rows.append([respell(r, r.choice(kinds)), lits])
            ops.append(['load', w, rows])
    return {'gen': 'user', 'start': 1, 'step': 1, 'fam': 'twin', 'shared': r.random() < 0.5, 'kinds': kinds, 'attrs': attrs, 'ops': ops}


def generate(ctx):
    depth = ctx.pick(9, 13)
    for spec in ({'gen': 'int'}, {'gen': 'uuid'}, {'gen': 'user', 'start': 7, 'step': 3}):
        for seq in itertools.product(['peek', 'next', 'next2'] if spec['gen'] == 'int' else ['peek', 'next'],
                                     repeat=depth if spec['gen'] != 'int' else depth - 2):
            c = dict(spec)
            c['fam'] = 'gen'
            c['ops'] = [[o] for o in seq]
            yield c
    hr = ctx.rng.fork('hist')
    for i in range(ctx.pick(1500, 20000)):
        yield _hist_case(hr.fork(i))
    er = ctx.rng.fork('explicit')
    for i in range(ctx.pick(1500, 15000)):
        yield _explicit_case(er.fork(i))
    dr = ctx.rng.fork('dry')
    for i in range(ctx.pick(800, 8000)):
        yield _dry_case(dr.fork(i))
    lr = ctx.rng.fork('layout')
    for i in range(ctx.pick(1200, 12000)):
        yield _layout_case(lr.fork(i))
    fr = ctx.rng.fork('falsy')
    for i in range(ctx.pick(1500, 12000)):
        yield _falsy_case(fr.fork(i))
    orr = ctx.rng.fork('override')
    for i in range(ctx.pick(1000, 8000)):
        yield _override_case(orr.fork(i))
    kr = ctx.rng.fork('kwnames')
    for i in range(ctx.pick(1000, 8000)):
        yield _kwnames_case(kr.fork(i))
    tr = ctx.rng.fork('twin')
    for i in range(ctx.pick(1200, 15000)):
        yield _twin_case(tr.fork(i))
    rng = ctx.rng.fork('random')
    n = ctx.pick(6000, 60000)
    maxops = ctx.pick(14, 30)
    for i in range(n):
        yield _random_case(rng.fork(i), maxops)


# --------------------------------------------------------------------------- implementation side

def _make_generator(case, log):
    x = _x
    if case['gen'] == 'int':
        return x.IntegerGenerator()
    if case['gen'] == 'uuid':
        class RecordingUUID(x.UUIDGenerator):
            def readfunc(self):
                v = x.UUIDGenerator.readfunc(self)
                log.append(v)
                return v
        return RecordingUUID()

    class Counting(x.IdGenerator):
        def __init__(self, start, step):
            self.count = 0
            self.start = start
            self.step = step
            x.IdGenerator.__init__(self)

        def readfunc(self):
            v = self.start + self.step * self.count
            self.count += 1
            return v
    return Counting(case['start'], case['step'])


def _exc_name(e):
    x = _x
    for cls, nm in ((x.UnknownClassException, 'UnknownClass'), (x.MetaModelException, 'MetaModel'),
                    (x.RelateException, 'Relate'), (x.UnrelateException, 'Unrelate'),
                    (x.UnknownLinkException, 'UnknownLink'), (x.MetaException, 'Meta'),
                    (AttributeError, 'AttributeError')):
        if isinstance(e, cls):
            return Sym(nm)
    return Sym('Other')


def r_pick(size, n):
    """a deterministic choice of one of `size` existing instances at op number n"""
    return (7 * n + 3) % size


def _run_hist(case):
    x = _x
    import logging
    logging.getLogger('xtuml.load').setLevel(logging.ERROR)
    BASE = 100000

    def make(j):
        class Counting(x.IdGenerator):
            def __init__(self):
                self.count = 0
                x.IdGenerator.__init__(self)

            def readfunc(self):
                self.count += 1
                return BASE * j + self.count
        return Counting()

    import gc
    j = 0
    gens = [make(0)]      # the harness keeps every generator: the oracle's handle on "the metamodel's generator"
    m = x.MetaModel(gens[0])
    classes = {}
    mcs = {}              # KIND -> metaclass as returned by define_class (what the application keeps after `drop`)
    dropped = False

    def metamodel(n):
        """the metamodel as the application can reach it: its own reference, or after `drop` through an instance /
        a metaclass it kept"""
        if not dropped:
            return m
        for mc in mcs.values():
            for inst in mc.storage:
                mm = x.get_metamodel(inst)
                break
            else:
                mm = mc.metamodel
            if mm is None:
                fail('metamodel-unreachable', 'after the application dropped its reference to the metamodel, the metaclass '
                     '%r / its instances no longer lead to it (None)' % (mc.kind,), n)
            return mm
    fails, seen = [], set()
    stats = {'cases_hist': 1}
    checked = 0

    def fail(sig, what, upto):
        if len(fails) < 4:
            fails.append({'sig': sig, 'what': '%s; history: %r' % (what, case['ops'][:upto + 1])})

    def check_id(v, where, n):
        nonlocal checked
        checked += 1
        if v is None or isinstance(v, bool) or not isinstance(v, int) or v == 0:
            fail('null-id', '%s: defaulted unique id is %r' % (where, v), n)
            return
        if not (BASE * j < v < BASE * (j + 1)):
            fail('id-not-from-metamodel-generator', '%s: defaulted unique id %r was not handed out by the metamodel\'s '
                 'current generator (number %d, range %d..%d)' % (where, v, j, BASE * j + 1, BASE * (j + 1) - 1), n)
        if v in seen:
            fail('id-repeats', '%s: defaulted unique id %r was already handed out in this metamodel' % (where, v), n)
        seen.add(v)

    for n, op in enumerate(case['ops']):
        nm = op[0]
        stats['op_' + nm] = stats.get('op_' + nm, 0) + 1
        if nm == 'define':
            mcs[op[1].upper()] = m.define_class(op[1], [tuple(a) for a in op[2]])
            classes[op[1].upper()] = [tuple(a) for a in op[2]]
        elif nm == 'drop':
            dropped = True
            m = None
            gc.collect()
        elif nm == 'swapgen':
            mm = metamodel(n)
            if mm is None:
                continue
            j += 1
            gens.append(make(j))
            mm.id_generator = gens[j]
            mm = None
        elif nm == 'new':
            how = op[4] if len(op) > 4 else 'm'
            mc = mcs[op[1].upper()]
            if how == 'inst' and len(mc.storage) == 0:
                how = 'mc'
            stats['new_via_' + how] = stats.get('new_via_' + how, 0) + 1
            drawn_before = gens[j].count
            if how == 'm':
                inst = m.new(op[1])
            elif how == 'mc':
                inst = mc.new()
            elif how == 'call':
                inst = mc()
            else:
                inst = x.get_metaclass(mc.storage[r_pick(len(mc.storage), n)]).new()
            if inst is None or not any(inst is o for o in mc.storage):
                fail('new-returns-other', 'new(%r) (route %s) returned %r, not the instance it created' % (op[1], how, inst), n)
                break
            n_ids = sum(1 for a, t in classes[op[1].upper()] if t.upper() == 'UNIQUE_ID')
            if gens[j].count != drawn_before + n_ids:
                fail('generator-not-advanced', 'new(%r) left %d unique ids to their default, the metamodel\'s generator '
                     'handed out %d values' % (op[1], n_ids, gens[j].count - drawn_before), n)
            for a, t in classes[op[1].upper()]:
                if t.upper() == 'UNIQUE_ID':
                    check_id(inst.__dict__.get(a), 'new(%r).%s' % (op[1], a), n)
        elif nm == 'load':
            mm = metamodel(n)
            if mm is None:
                continue
            before = dict((k, len(mcs[k].storage)) for k in classes)
            text = '\n'.join('INSERT INTO %s VALUES (%s);' % (k, ', '.join(vs)) for k, vs in op[1])
            loader = x.ModelLoader()
            try:
                loader.input(text)
                loader.populate(mm)
                ok = True
            except x.ParsingException:
                ok = False
            loader = mm = None
            stats['load_ok' if ok else 'load_rejected'] = stats.get('load_ok' if ok else 'load_rejected', 0) + 1
            if ok:
                for K in classes:
                    rows = [vs for k, vs in op[1] if k.upper() == K]
                    made = list(mcs[K].storage)[before[K]:]
                    if len(made) != len(rows):
                        fail('load-instance-count', 'loading %d rows of %s created %d instances' % (len(rows), K, len(made)), n)
                        continue
                    for vs, inst in zip(rows, made):
                        for pos, (a, t) in enumerate(classes[K]):
                            if pos >= len(vs) and t.upper() == 'UNIQUE_ID':
                                check_id(inst.__dict__.get(a), 'row (%s) of %s, attribute %s left to its default'
                                         % (', '.join(vs), K, a), n)
        else:
            raise ValueError(nm)
    return {'obs': [], 'd_fail': fails, 'nontrivial': checked >= 2 and bool(stats.get('op_swapgen') or stats.get('op_load')
                                                                                   or stats.get('op_drop')),
            'key': 'hist/%r' % (case['ops'],), 'stats': stats, 'model_line': None}


def _run_dry(case):
    x = _x
    k = case['values']
    handed = list(range(501, 501 + k))
    if case['kind_of_generator'] == 'iterator':
        gen = iter(list(handed))
    else:
        class Finite(x.IdGenerator):
            def __init__(self):
                self.left = list(handed)
                x.IdGenerator.__init__(self)

            def readfunc(self):
                if not self.left:
                    raise StopIteration
                return self.left.pop(0)
        try:
            gen = Finite()
        except StopIteration:
            # a generator without a single value cannot even be constructed (IdGenerator reads one value ahead)
            return {'obs': [], 'd_fail': [], 'nontrivial': False, 'key': 'dry/%r' % (case,), 'stats': {'cases_dry': 1, 'dry_unconstructible': 1},
                    'model_line': None}
    m = x.MetaModel(gen)
    attrs = [tuple(a) for a in case['attrs']]
    mc = m.define_class('D', list(attrs))
    fails, seen = [], set()
    stats = {'cases_dry': 1, 'dry_' + case['kind_of_generator']: 1}
    returned = refused = 0
    for n, op in enumerate(case['ops']):
        try:
            inst = m.new('D') if op[1] == 'm' else (mc.new() if op[1] == 'mc' else mc())
        except (StopIteration, RuntimeError, x.MetaException) as e:
            refused += 1
            stats['dry_refused_' + type(e).__name__] = stats.get('dry_refused_' + type(e).__name__, 0) + 1
            continue
        returned += 1
        if inst is None or not any(inst is o for o in mc.storage):
            fails.append({'sig': 'new-returns-other', 'what': 'creation number %d (route %s) returned %r, not the instance it created'
                          % (n + 1, op[1], inst)})
            break
        for a, t in attrs:
            if t.upper() != 'UNIQUE_ID':
                continue
            v = inst.__dict__.get(a)
            where = 'creation number %d (of %d) with a %s that hands out %d value(s): attribute %s' % (
                n + 1, len(case['ops']), 'plain iterator' if case['kind_of_generator'] == 'iterator' else
                'IdGenerator whose readfunc raises StopIteration', k, a)
            if v is None or isinstance(v, bool) or not isinstance(v, int) or v == 0:
                if len(fails) < 3:
                    fails.append({'sig': 'null-id', 'what': '%s: new() RETURNED an instance whose defaulted unique id is %r (the generator is '
                                  'exhausted); attributes %r' % (where, v, case['attrs'])})
            elif v not in handed:
                if len(fails) < 3:
                    fails.append({'sig': 'id-not-from-metamodel-generator', 'what': '%s: defaulted id %r is none of the generator\'s values %r'
                                  % (where, v, handed)})
            elif v in seen:
                if len(fails) < 3:
                    fails.append({'sig': 'id-repeats', 'what': '%s: defaulted id %r was already handed out' % (where, v)})
            seen.add(v)
    stats['dry_returned'] = returned
    return {'obs': [], 'd_fail': fails, 'nontrivial': refused > 0 and returned > 0, 'key': 'dry/%r' % (case,), 'stats': stats,
            'model_line': None}


def _run_layout(case):
    x = _x
    m = x.MetaModel(x.IntegerGenerator())
    mc = m.define_class('L', [tuple(a) for a in case['attrs']])
    cur = [tuple(a) for a in case['attrs']]
    fails = []
    stats = {'cases_layout': 1}
    edits_before_creation = 0
    checked_after_edit = 0
    for n, op in enumerate(case['ops']):
        nm = op[0]
        stats['op_' + nm] = stats.get('op_' + nm, 0) + 1
        if nm == 'delattr':
            mc.delete_attribute(op[1])
            cur = [a for a in cur if a[0] != op[1]]
            edits_before_creation += 1
        elif nm == 'insattr':
            mc.insert_attribute(op[1], op[2], op[3])
            cur.insert(op[1], (op[2], op[3]))
            edits_before_creation += 1
        elif nm == 'appattr':
            mc.append_attribute(op[1], op[2])
            cur.append((op[1], op[2]))
            edits_before_creation += 1
        else:
            args, kws = op[1], dict((k, v) for k, v in op[2])
            inst = m.new('L', *args, **kws) if op[3] == 'm' else (mc.new(*args, **kws) if op[3] == 'mc' else mc(*args, **kws))
            if inst is None or not any(inst is o for o in mc.storage):
                fails.append({'sig': 'new-returns-other', 'what': 'new(%r, %r) (route %s) returned %r, not the instance it created'
                              % (args, op[2], op[3], inst)})
                break
            if [tuple(a) for a in mc.attributes] != cur:
                fails.append({'sig': 'attribute-list', 'what': 'the class holds the attributes %r, the edits give %r; history %r'
                              % (list(mc.attributes), cur, case['ops'][:n + 1])})
                break
            want = {}
            for a, t in cur:
                want[a] = KNOWN[t.upper()]
            for (a, t), v in zip(cur, args):
                want[a] = v
            for k, v in op[2]:
                for a, t in cur:
                    if a.upper() == k.upper():
                        want[a] = v
            got = dict(inst.__dict__)
            if edits_before_creation:
                checked_after_edit += 1
            for a, t in cur:
                have = got.get(a, Sym('ABSENT'))
                if have != want[a] or type(have) is not type(want[a]):
                    if len(fails) < 3:
                        fails.append({'sig': 'argument-order', 'what': 'new(%r, %r) after the attribute list was edited to %r: attribute %r '
                                      'holds %r, the arguments in the CURRENT attribute order give %r; class first defined with %r; '
                                      'history %r' % (args, op[2], [a_ for a_, _ in cur], a, have, want[a], case['attrs'],
                                                      case['ops'][:n + 1])})
            stray = [k for k in got if k not in [a for a, _ in cur]]
            if stray and len(fails) < 3:
                fails.append({'sig': 'argument-order', 'what': 'new(%r, %r): the instance holds values under %r, which are not attributes of '
                              'the class now (%r); history %r' % (args, op[2], stray, [a for a, _ in cur], case['ops'][:n + 1])})
    return {'obs': [], 'd_fail': fails, 'nontrivial': checked_after_edit >= 1, 'key': 'layout/%r/%r' % (case['attrs'], case['ops']),
            'stats': stats, 'model_line': None}


def _run_falsy(case):
    x = _x
    seq = [tuple(v) if isinstance(v, list) else v for v in case['seq']]       # a replayed case holds () as []

    class Seq(x.IdGenerator):
        def __init__(self):
            self.pos = 0
            x.IdGenerator.__init__(self)

        def readfunc(self):
            v = seq[self.pos] if self.pos < len(seq) else 1000 + self.pos
            self.pos += 1
            return v
    g = Seq()
    fails = []
    stats = {'cases_falsy': 1, 'falsy_' + case['kind_of_sequence']: 1}
    handed = 0            # values handed out by next so far: the pending value is seq[handed]
    peeked_falsy = False

    def same(a, b):
        return a == b and type(a) is type(b)
    for n, (op,) in enumerate(case['ops']):
        want = seq[handed] if handed < len(seq) else 1000 + handed
        if op == 'peek':
            v = g.peek()
            if not want:
                peeked_falsy = True
            if not same(v, want):
                fails.append({'sig': 'peek-value', 'what': 'peek returned %r, the pending value is %r (readfunc yields %r ...); history %r'
                              % (v, want, seq[:handed + 3], case['ops'][:n + 1])})
            # (WHEN readfunc is called is the implementation's business - read-ahead or on demand -: "peeking never advances" is
            # about the VALUES: the peeked value is what the following next returns, repeated peeks agree, nothing is skipped)
        else:
            v = next(g) if op == 'next' else (g.next() if op == 'next2' else next(iter(g)))
            if not same(v, want):
                fails.append({'sig': 'id-sequence', 'what': 'next returned %r as value number %d, readfunc produced %r there (sequence %r ...); '
                              'history %r' % (v, handed + 1, want, seq[:handed + 3], case['ops'][:n + 1])})
            handed += 1
        if len(fails) >= 3:
            break
    return {'obs': [], 'd_fail': fails[:3], 'nontrivial': peeked_falsy, 'key': 'falsy/%r/%r' % (case['seq'], case['ops']), 'stats': stats,
            'model_line': None}


def _run_override(case):
    x = _x
    variant = case['variant']
    record = []

    class Over(x.IdGenerator):
        def __init__(self):
            self.n = 0
            x.IdGenerator.__init__(self)

        def readfunc(self):
            self.n += 1
            return self.n

        def next(self):
            v = x.IdGenerator.next(self)
            if variant == 'offset':
                return v + 1000
            if variant == 'skip':
                while v % 3 == 0:
                    v = x.IdGenerator.next(self)
                return v
            record.append(v)
            return v
    g = Over()
    m = x.MetaModel(g)
    attrs = [('Id', 'unique_id'), ('n', 'integer')] + ([('Id2', 'UNIQUE_ID')] if case['two_ids'] else [])
    mc = m.define_class('O', attrs)

    def expected(k):
        """the k-th value (0-based) the OVERRIDE hands out"""
        if variant == 'offset':
            return 1001 + k
        if variant == 'skip':
            return [v for v in range(1, 3 * k + 6) if v % 3][k]
        return k + 1
    fails = []
    stats = {'cases_override': 1, 'override_' + variant: 1}
    drawn = 0

    def check(v, how, n):
        nonlocal drawn
        want = expected(drawn)
        if v != want or type(v) is not int:
            if len(fails) < 3:
                fails.append({'sig': 'override-bypassed', 'what': '%s yielded %r as value number %d; the generator overrides next() (%s) and '
                              'hands out %r there; history %r' % (how, v, drawn + 1, variant, want, case['ops'][:n + 1])})
        drawn += 1
    for n, (op,) in enumerate(case['ops']):
        stats['op_' + op] = stats.get('op_' + op, 0) + 1
        if op in ('new', 'new-mc', 'new-call'):
            inst = m.new('O') if op == 'new' else (mc.new() if op == 'new-mc' else mc())
            if inst is None:
                fails.append({'sig': 'new-returns-other', 'what': 'new returned None; history %r' % (case['ops'][:n + 1],)})
                break
            for a, t in attrs:
                if t.upper() == 'UNIQUE_ID':
                    check(inst.__dict__.get(a), 'the default of %s of a new instance' % a, n)
        elif op == 'next':
            check(next(g), 'next(gen)', n)
        elif op == 'next2':
            check(g.next(), 'gen.next()', n)
        elif op == 'dunder':
            check(g.__next__(), 'gen.__next__()', n)
        else:
            check(next(iter(g)), 'next(iter(gen))', n)
    if variant == 'record' and record != [expected(k) for k in range(drawn)] and len(fails) < 3:
        fails.append({'sig': 'override-bypassed', 'what': 'the recording override saw %r, %d values were handed out; history %r'
                      % (record, drawn, case['ops'])})
    kinds = set(o[0][:3] for o in case['ops'])
    return {'obs': [], 'd_fail': fails, 'nontrivial': len(kinds) >= 2, 'key': 'override/%s/%r/%r' % (variant, case['two_ids'], case['ops']),
            'stats': stats, 'model_line': None}


def _run_kwnames(case):
    x = _x
    m = x.MetaModel(x.IntegerGenerator())
    attrs = [tuple(a) for a in case['attrs']]
    mc = m.define_class('W', list(attrs))
    fails = []
    stats = {'cases_kwnames': 1}
    for n, (_, route, kws) in enumerate(case['ops']):
        kw = dict((k, v) for k, v in kws)
        try:
            inst = m.new('W', **kw) if route == 'm' else (mc.new(**kw) if route == 'mc' else mc(**kw))
        except TypeError as e:
            fails.append({'sig': 'keyword-name-collides', 'what': 'creating an instance (route %s) with the keywords %r raised TypeError: %s; '
                          'the class declares %r' % (route, kws, e, case['attrs'])})
            continue
        if inst is None:
            fails.append({'sig': 'new-returns-other', 'what': 'new returned None (route %s)' % route})
            continue
        want = dict((a, KNOWN[t.upper()]) for a, t in attrs)
        for k, v in kws:
            for a, t in attrs:
                if a.upper() == k.upper():
                    want[a] = v
        for a, t in attrs:
            have = inst.__dict__.get(a, Sym('ABSENT'))
            if have != want[a] or type(have) is not type(want[a]):
                fails.append({'sig': 'argument-order', 'what': 'new (route %s) with the keywords %r: attribute %r holds %r, expected %r; the class '
                              'declares %r' % (route, kws, a, have, want[a], case['attrs'])})
        stray = [k for k in inst.__dict__ if k not in [a for a, _ in attrs]]
        if stray:
            fails.append({'sig': 'argument-order', 'what': 'new (route %s) with the keywords %r left values under %r' % (route, kws, stray)})
    return {'obs': [], 'd_fail': fails[:3], 'nontrivial': any(len(o[2]) >= 2 for o in case['ops']),
            'key': 'kwnames/%r/%r' % (case['attrs'], case['ops']), 'stats': stats, 'model_line': None}


def _run_twin(case):
    x = _x
    import logging
    logging.getLogger('xtuml.load').setLevel(logging.ERROR)
    BASE = 100000
    gens = []

    def make():
        j = len(gens)

        class Counting(x.IdGenerator):
            def __init__(self):
                self.count = 0
                self.number = j
                x.IdGenerator.__init__(self)

            def readfunc(self):
                self.count += 1
                return BASE * j + self.count
        gens.append(Counting())
        return gens[-1]

    g0 = make()
    cur = [g0, g0 if case['shared'] else make()]          # the oracle's view: the generator each metamodel holds now
    ms = [x.MetaModel(cur[0]), x.MetaModel(cur[1])]
    attrs = [tuple(a) for a in case['attrs']]
    n_ids = sum(1 for a, t in attrs if t.upper() == 'UNIQUE_ID')
    mcs = [dict((k.upper(), m.define_class(k, list(attrs))) for k in case['kinds']) for m in ms]
    fails, seen = [], set()
    stats = {'cases_twin': 1, 'twin_shared_start' if case['shared'] else 'twin_separate_start': 1}
    checked = 0

    def fail(sig, what, upto):
        if len(fails) < 4:
            fails.append({'sig': sig, 'what': '%s; two metamodels (0 and 1) with the classes %s %r, %s; history: %r'
                          % (what, case['kinds'], case['attrs'], 'sharing one generator at the start' if case['shared']
                             else 'with separate generators at the start', case['ops'][:upto + 1])})

    def check_id(v, w, where, n):
        nonlocal checked
        checked += 1
        j = cur[w].number
        if v is None or isinstance(v, bool) or not isinstance(v, int) or v == 0:
            fail('null-id', '%s: defaulted unique id is %r' % (where, v), n)
            return
        if not (BASE * j < v < BASE * (j + 1)):
            fail('id-not-from-metamodel-generator', '%s: defaulted unique id %r was not handed out by the current generator of '
                 'metamodel %d (generator number %d, range %d..%d)' % (where, v, w, j, BASE * j + 1, BASE * (j + 1) - 1), n)
        if v in seen:
            fail('id-repeats', '%s: defaulted unique id %r was already handed out' % (where, v), n)
        seen.add(v)

    for n, op in enumerate(case['ops']):
        nm, w = op[0], op[1]
        stats['op_' + nm] = stats.get('op_' + nm, 0) + 1
        counts = [g.count for g in gens]
        expect_draws = 0
        if nm == 'swapgen':
            cur[w] = make()
            ms[w].id_generator = cur[w]
            counts.append(cur[w].count)          # creating a generator reads its first value ahead
        elif nm == 'share':
            cur[w] = cur[1 - w]
            ms[w].id_generator = cur[w]
        elif nm == 'new':
            mc = mcs[w][op[2].upper()]
            inst = ms[w].new(op[2]) if op[3] == 'm' else (mc.new() if op[3] == 'mc' else mc())
            if inst is None or not any(inst is o for o in mc.storage):
                fail('new-returns-other', 'new(%r) (route %s) in metamodel %d returned %r, not the instance it created'
                     % (op[2], op[3], w, inst), n)
                break
            if x.get_metaclass(inst) is not mc:
                fail('instance-in-other-metamodel', 'new(%r) in metamodel %d created an instance of another metaclass' % (op[2], w), n)
            expect_draws = n_ids
            for a, t in attrs:
                if t.upper() == 'UNIQUE_ID':
                    check_id(inst.__dict__.get(a), w, 'new(%r) in metamodel %d, attribute %s' % (op[2], w, a), n)
        elif nm == 'load':
            before = dict((K, len(mc.storage)) for K, mc in mcs[w].items())
            other_before = dict((K, len(mc.storage)) for K, mc in mcs[1 - w].items())
            loader = x.ModelLoader()
            loader.input('\n'.join('INSERT INTO %s VALUES (%s);' % (k, ', '.join(vs)) for k, vs in op[2]))
            loader.populate(ms[w])
            for K, mc in mcs[1 - w].items():
                if len(mc.storage) != other_before[K]:
                    fail('instance-in-other-metamodel', 'loading rows into metamodel %d created instances of %s in metamodel %d'
                         % (w, K, 1 - w), n)
            for K, mc in mcs[w].items():
                rows = [vs for k, vs in op[2] if k.upper() == K]
                made = list(mc.storage)[before[K]:]
                if len(made) != len(rows):
                    fail('load-instance-count', 'loading %d rows of %s created %d instances' % (len(rows), K, len(made)), n)
                    continue
                expect_draws += n_ids * len(rows)          # the loader creates with defaults first, then overwrites
                for vs, inst in zip(rows, made):
                    for pos, (a, t) in enumerate(attrs):
                        if pos >= len(vs) and t.upper() == 'UNIQUE_ID':
                            check_id(inst.__dict__.get(a), w, 'row (%s) of %s in metamodel %d, attribute %s left to its default'
                                     % (', '.join(vs), K, w, a), n)
        else:
            raise ValueError(nm)
        for j, g in enumerate(gens):
            d = g.count - counts[j]
            if g is cur[w] and nm in ('new', 'load'):
                if d != expect_draws:
                    fail('generator-not-advanced', '%s in metamodel %d: its generator (number %d) handed out %d values, %d unique ids '
                         'were defaulted' % (nm, w, j, d, expect_draws), n)
            elif d != 0:
                fail('other-generator-advanced', '%s in metamodel %d advanced generator number %d by %d, which is not the '
                     'generator of that metamodel (number %d)' % (nm, w, j, d, cur[w].number), n)
        for ww in (0, 1):
            if ms[ww].id_generator is not cur[ww]:
                fail('generator-binding', 'after %s in metamodel %d, metamodel %d holds generator number %s, it was given number %d'
                     % (nm, w, ww, getattr(ms[ww].id_generator, 'number', '?'), cur[ww].number), n)
    both = len(set(o[1] for o in case['ops'] if o[0] in ('new', 'load'))) == 2
    return {'obs': [], 'd_fail': fails, 'nontrivial': checked >= 2 and both,
            'key': 'twin/%r/%r/%r' % (case['shared'], case['attrs'], case['ops']), 'stats': stats, 'model_line': None}


def run_impl(case):
    if case.get('fam') == 'hist':
        return _run_hist(case)
    if case.get('fam') == 'twin':
        return _run_twin(case)
    if case.get('fam') == 'dry':
        return _run_dry(case)
    if case.get('fam') == 'layout':
        return _run_layout(case)
    if case.get('fam') == 'falsy':
        return _run_falsy(case)
    if case.get('fam') == 'override':
        return _run_override(case)
    if case.get('fam') == 'kwnames':
        return _run_kwnames(case)
    x = _x
    uuid_log = []
    gen = _make_generator(case, uuid_log)
    m = x.MetaModel(gen)
    rename = {}

    def canon(v):
        if v is None:
            return Sym('none')
        if isinstance(v, bool):
            return Sym('T') if v else Sym('F')
        if isinstance(v, float):
            return [Sym('real'), repr(v)]
        if isinstance(v, int):
            if case['gen'] == 'uuid':
                for k in range(len(rename), len(uuid_log)):
                    rename.setdefault(uuid_log[k], UUID_BASE + k)
                return rename.get(v, v)
            return v
        if isinstance(v, str):
            return v
        return Sym('other:%s' % type(v).__name__)

    def expected_draw(k):
        """the k-th value (0-based) the generator hands out, where the oracle can know it"""
        if case['gen'] == 'int':
            return k + 1
        if case['gen'] == 'user':
            return case['start'] + case['step'] * k
        return None

    classes = {}          # KIND -> (kind, attrs, ref)
    obs, fails = [], []
    stats = {'cases_' + case['fam']: 1, 'gen_' + case['gen']: 1}
    draws = 0             # values handed out so far (oracle)
    defaulted = []        # all defaulted ids of successfully created instances
    id_log = []           # (instance number, attribute, value, 'explicit' | 'defaulted') of every unique id held by an instance
    n_insts = 0
    pending_peek = None   # (value, op index) of the last peek not yet followed by a draw
    n_defaulted_insts = 0
    explicit_seen = False

    def fail(sig, what, upto):
        # the open finding is listed once per case and does not use up the cap of the other failures
        if sig == 'explicit-id-collision':
            if any(f['sig'] == sig for f in fails):
                return
        elif len([f for f in fails if f['sig'] != 'explicit-id-collision']) >= 4:
            return
        fails.append({'sig': sig, 'what': '%s; generator %s; history: %s'
                      % (what, case['gen'], dumps(_ops_sexp(case['ops'][:upto + 1])))})

    exact = True          # does the oracle still know how many values the generator has handed out?

    def drawn(v, n):
        """the oracle's view of one value handed out by the generator and observed"""
        nonlocal draws, pending_peek
        want = expected_draw(draws) if exact else None
        if want is not None and v != want:
            fail('id-sequence', 'the generator handed out %r as its value number %d, expected %r' % (v, draws + 1, want), n)
        if pending_peek is not None and pending_peek != v:
            fail('peek-differs-from-next', 'peek returned %r, the next value handed out is %r' % (pending_peek, v), n)
        pending_peek = None
        draws += 1

    def unobserved_draws():
        """the constructor may have consumed generator values that no attribute shows (an explicitly supplied
        id, a half-initialised instance): from here on the oracle no longer predicts exact values"""
        nonlocal exact, pending_peek
        exact = False
        pending_peek = None

    for n, op in enumerate(case['ops']):
        nm = op[0]
        stats['op_' + nm] = stats.get('op_' + nm, 0) + 1
        if case['gen'] == 'uuid':
            # an application may reseed the global PRNG at any time ("reproducible runs"); fresh ids must not
            # depend on it (uuid4 draws from os.urandom)
            import random as _global_random
            _global_random.seed(20240917)
        if nm == 'define':
            try:
                m.define_class(op[1], [tuple(a) for a in op[2]])
                classes[op[1].upper()] = (op[1], [tuple(a) for a in op[2]], None)
                obs.append(Sym('ok'))
            except x.MetaModelException:
                obs.append(Sym('MetaModel'))
        elif nm == 'assoc':
            ass = m.define_association('R1', op[1], [op[2]], True, True, '', op[3], [op[4]], False, True, '')
            ass.formalize()
            k, a, _ = classes[op[1].upper()]
            classes[op[1].upper()] = (k, a, op[2])
            obs.append(Sym('ok'))
        elif nm == 'peek':
            v = m.id_generator.peek()
            if pending_peek is not None and v != pending_peek:
                fail('peek-advances', 'two peeks in a row returned %r then %r' % (pending_peek, v), n)
            want = expected_draw(draws) if exact else None
            if want is not None and v != want:
                fail('peek-value', 'peek returned %r, the next value is %r' % (v, want), n)
            pending_peek = v
            obs.append(canon(v))
        elif nm in ('next', 'next2'):
            v = next(m.id_generator) if nm == 'next' else m.id_generator.next()
            drawn(v, n)
            if v is None or v == 0:
                fail('null-id', 'the generator handed out the null id %r' % (v,), n)
            obs.append(canon(v))
        elif nm == 'new':
            K = op[1].upper()
            mc = m.metaclasses.get(K)
            before = len(mc.storage) if mc is not None else 0
            exc = None
            returned = None
            try:
                returned = m.new(op[1], *op[2], **dict((k, v) for k, v in op[3]))
                res = Sym('ok')
            except (x.MetaException, AttributeError) as e:
                exc = e
                res = _exc_name(e)
            inst = mc.storage[-1] if mc is not None and len(mc.storage) > before else None
            # the instance the caller GETS is the one that was created (the attribute values below are read from the pool's last
            # instance; what new() returns must be that very object, of the class that was named)
            if exc is None and K in classes:
                if returned is None or returned is not inst or x.get_metaclass(returned).kind != classes[K][0] or \
                        not any(returned is o for o in m.select_many(classes[K][0])):
                    fail('new-returns-other', 'new(%r) returned %r, not the instance of %r it created' % (op[1], returned, classes[K][0]), n)
            if inst is None:
                obs.append([res])
                if K in classes:
                    fail('no-instance', 'new(%r) created no instance (%s)' % (op[1], res), n)
                continue
            kind, attrs, ref = classes[K]
            plain = [(a, t) for a, t in attrs if a != ref]
            unknown_at = None
            for i, (a, t) in enumerate(plain):
                if t.upper() not in KNOWN:
                    unknown_at = i
                    break
            stats['new_' + str(res)] = stats.get('new_' + str(res), 0) + 1
            if unknown_at is not None:
                stats['new_unknown_type'] = stats.get('new_unknown_type', 0) + 1
                if not isinstance(exc, x.MetaException) or isinstance(exc, x.MetaModelException):
                    fail('unknown-type-accepted', 'class %r has the attribute %r of unknown type %r but new() %s'
                         % (kind, plain[unknown_at][0], plain[unknown_at][1],
                            'succeeded' if exc is None else 'raised ' + type(exc).__name__), n)
                unobserved_draws()
            else:
                if exc is not None and res == Sym('Meta'):
                    fail('constructor-rejected', 'new(%r, %r, %r) raised MetaException although every type is known'
                         % (op[1], op[2], op[3]), n)
                given = {}
                for (a, t), v in zip(attrs, op[2]):
                    given[a.upper()] = v
                for k, v in op[3]:
                    given[k.upper()] = v
                if given:
                    explicit_seen = True
                got_default_id = False
                me = n_insts
                n_insts += 1

                def collisions(value, how, a):
                    """an id LEFT TO ITS DEFAULT equal to an id SUPPLIED EXPLICITLY for another instance of the metamodel (in
                    either order of creation): the library does not reserve supplied ids"""
                    if value is None or isinstance(value, bool) or not isinstance(value, int) or value == 0:
                        return
                    for (j, b, w, how2) in id_log:
                        if j != me and w == value and type(w) is type(value) and {how, how2} == {'explicit', 'defaulted'}:
                            fail('explicit-id-collision', 'new(%r): %s unique id %r of %r equals the %s id of %r of instance number %d: '
                                 'two instances of the metamodel carry the same id' % (op[1], how, value, a, how2, b, j), n)
                            stats['explicit_id_collisions'] = stats.get('explicit_id_collisions', 0) + 1
                            return
                # ids are drawn for every non-referential UNIQUE_ID attribute, in order, whether or not overridden
                for a, t in plain:
                    T = t.upper()
                    have = inst.__dict__.get(a, Sym('ABSENT'))
                    if a.upper() in given:
                        want = given[a.upper()]
                        if have != want or type(have) is not type(want):
                            fail('argument-order', 'new(%r, %r, %r): attribute %r holds %r, the argument given is %r'
                                 % (op[1], op[2], op[3], a, have, want), n)
                        if T == 'UNIQUE_ID':
                            unobserved_draws()
                            collisions(have, 'explicit', a)
                            id_log.append((me, a, have, 'explicit'))
                    elif T == 'UNIQUE_ID':
                        drawn(have, n)
                        got_default_id = True
                        if have is None or have == 0 or isinstance(have, bool) or not isinstance(have, int):
                            fail('null-id', 'new(%r): defaulted unique id %r of %r is null / not an id' % (op[1], have, a), n)
                        if any(have == d for d in defaulted):
                            fail('id-repeats', 'new(%r): defaulted unique id %r of %r was already handed out in this '
                                 'metamodel' % (op[1], have, a), n)
                        defaulted.append(have)
                        collisions(have, 'defaulted', a)
                        id_log.append((me, a, have, 'defaulted'))
                    else:
                        want = KNOWN[T]
                        if have != want or type(have) is not type(want):
                            fail('typed-default', 'new(%r): attribute %r of type %r defaults to %r, expected %r'
                                 % (op[1], a, t, have, want), n)
                if got_default_id:
                    n_defaulted_insts += 1
            obs.append([res, [[k, canon(v)] for k, v in inst.__dict__.items()]])
        else:
            raise ValueError(nm)
    key = '%s/%s' % (case['gen'], dumps(_ops_sexp(case['ops'])))
    return {'obs': obs, 'd_fail': fails, 'nontrivial': (n_defaulted_insts >= 2 and explicit_seen) or
            (case['fam'] == 'gen' and len(set(o[0] for o in case['ops'])) > 1),
            'key': key, 'stats': stats}


def _ops_sexp(ops):
    out = []
    for op in ops:
        nm = op[0]
        if nm == 'define':
            out.append([Sym('define'), op[1]] + [[a, t] for a, t in op[2]])
        elif nm == 'new':
            out.append([Sym('new'), op[1], [Sym('args')] + [_val_sexp(v) for v in op[2]],
                        [Sym('kw')] + [[k, _val_sexp(v)] for k, v in op[3]]])
        elif nm in ('next', 'next2'):
            out.append([Sym('next')])
        else:
            out.append([Sym(nm)] + list(op[1:]))
    return out


def _val_sexp(v):
    if isinstance(v, float):
        return [Sym('real'), repr(v)]
    return v


def model_line(case):
    if case['gen'] == 'user':
        start, step = case['start'], case['step']
    elif case['gen'] == 'uuid':
        start, step = UUID_BASE, 1          # far away from every explicitly supplied id
    else:
        start, step = 1, 1
    return dumps([Sym('newinst'), [Sym('gen'), Sym('lin'), start, step]] + _ops_sexp(case['ops']))


def model_obs(case, ans):
    return ans


def shrink_candidates(case):
    ops = case['ops']
    for i in range(len(ops) - 1, -1, -1):
        if ops[i][0] in ('define', 'assoc'):
            continue
        c = dict(case)
        c['ops'] = ops[:i] + ops[i + 1:]
        yield c
