"""C10 — Names are case-insensitive and every spelling addresses one stored value.

A case is a history of operations on a small metamodel built in the case itself: `define` (class), `assoc`
(define_association + formalize), `new` (positional / keyword arguments under arbitrary spellings), `set`,
`del`, `reads` (getattr under a list of spellings), `sel` (select_many + where_eq), `rel` / `unrel`, `ser`
(xtuml.serialize_instance), `find` (find_metaclass), `sel1` (select_any).  Every name is spelled independently at
every use; in the class-lookup family the lookups also come BEFORE the class is defined (D: every spelling is
rejected with UnknownClassException before define_class and reaches the class after it).

  D  (property predicate; oracle = one cell per (instance, NAME.upper()) kept by the harness):
     a read of a non-referential attribute under every spelling gives the last value written to the
     case-folded name; `__dict__` holds no key that folds to a declared name other than the declared name;
     a referential attribute reads, under every spelling, the key value of the related instance; writing it
     under any spelling raises MetaException and changes nothing; serialize_instance and where_eq see the
     cell values; every spelling of a kind addresses the same class in find_metaclass / new / select_many;
     constructor keywords on non-referential attributes under any spelling set the cell; an operation on one instance
     leaves the dictionaries of all other instances and of the classes unchanged (other-instance-changed,
     class-dict-changed); arguments stay the caller's (argument-changed, class-aliases-argument).
  K  (correspondence): result of every op, and the final `__dict__` of every instance (keys in order, values)
     and the link pairs, against lean/PyxModel/Attr.lean run by the driver command `(attr op…)`.

Family `load` (D only).  The two classes, the association and the first rows are given as SQL TEXT (CREATE TABLE,
CREATE ROP, positional INSERTs and NAMED INSERTs whose kind and column names are respelled, shuffled and partly
omitted; referential values that match a row, that match none (dangling) and null ones) and built by
xtuml.ModelLoader; the history (new / set / del / reads / where_eq / relate / unrelate / serialize under every
spelling) then runs on the loaded metamodel.  The oracle cells start from the generated rows (not from what the
implementation stored): a plain column holds the inserted value under its DECLARED name whatever the statement
spelled, an omitted column holds None, a referential column holds no value of its own (signature
referential-value-stored-twice) and reads the key of the instance the loader linked (None for dangling / null).
D is checked on every loaded instance before the first op and after every op.  The model does not construct the
post-load state, so these cases have no K counterpart (model_line returns None).

Family `words` (a flag on `rand` / `load` cases; D and K as there).  Attribute names are the words the library uses for the
parameters of its own functions (setup reads them from the source text: a name source only, never an expectation).  A
keyword that names an attribute must reach the attribute also when it is spelled exactly like a parameter of the function
it passes through (new, MetaClass.new, the metaclass call, where_eq); the three constructor routes are used in turn.

Family `uni` (names beyond ASCII; D only, model_line returns None: the model matches names as ASCII strings).  Kinds and
attribute names contain letters beyond ASCII, among them letters whose case mapping is not one-to-one (sharp s -> SS, long s -> S,
micro sign, final sigma, ligatures, ...).  A spelling counts as the same name in another letter case when its upper-case form AND
its case-folded form equal those of the declared name (`_same_name`; for ASCII this is the old rule); only such spellings are
generated and demanded.  (a) exhaustive: every history of writes and deletes of a two-letter name `a<letter>` under (up to four
of) its spellings, every state read under all spellings; (b) the random histories of family `rand` (a fifth with late
formalisation) over such names.  D as everywhere: e.g. a value that reads under the upper-case spelling must be deletable under it.

Domain.  Names in the other families are ASCII; association keys spelled as declared on the
referential side.  Deletes address ANY attribute: one that holds a value (its value goes away), one that holds
none or a referential one (D: no OTHER attribute may lose or change its value — signature
delete-absent-removes-other-value); constructor keywords name non-referential and referential attributes in
ANY letter case (D: a referential keyword in another spelling must not be rejected — signature
ctor-ref-keyword-case).  Both were defects of the original code (repaired by fix: commits 2867bd3, 8edc1ab).
"""
import itertools
import os
import re
import uuid

from sexp import Sym, dumps

PROP = 'C10'
RULE = ('(1) exhaustive: every history of length L (quick 3, thorough 4) over the alphabet {write fresh value, delete} x '
        'all 4 + 8 case patterns of a 2-letter and a 3-letter attribute name of one instance, every state observed '
        'by reads under all 12 spellings (deletes of an empty cell included), plus length L+1 over the 2-letter '
        'name alone; (2) random: schemas of two classes with plain, '
        'identifying and one referential attribute, mixed-case kinds, names and type names, histories of up to 40 '
        'ops (new with positional/keyword mixes incl. referential keywords in any spelling, set, del of present, '
        'absent and referential attributes, reads, where_eq selections, relate/unrelate, serialize, '
        'find) with an independently chosen spelling at every use, a fifth of the attribute names beginning with _ or __ (not of the '
        'reserved form), a third of the where_eq filters naming one attribute twice under '
        'two spellings with different or equal values (also as a dict and on a plain instance set); (3) class lookup: exhaustively one lookup '
        '(find_metaclass / new / select_many / select_any) under each of the 4 spellings of a 2-letter kind BEFORE '
        'define_class under each spelling, then every lookup kind under every spelling after it, plus random '
        'histories over 2-4 kinds interleaving lookups before and after each definition (spellings used before the '
        'definition are revisited after it) and redefinition attempts under other spellings; in (2) a third of the schemas give the '
        'second class attribute names of the first in another spelling, every write / delete / creation / selection is framed by a '
        'snapshot of all OTHER instances\' dictionaries and of the class dictionaries (must be unchanged), argument lists / dicts '
        'are checked unchanged and mutated after the call; (4) loaded from text (D only): the same two-class schema with its association and 3-7 rows written as SQL text (named INSERTs with respelled, shuffled, partly omitted columns; matching, dangling and null referential values; uuid and integer spellings of unique_id values), built by xtuml.ModelLoader, then a random history of up to 25 ops as in (2); (5) families (2) and (4) once more with about half of the attribute names taken from the parameter names of the functions of the library itself (read with ast from the source text of the tree under test; preferred: the parameters, *args / **kwargs names and identifier-like string constants of the functions that take attribute names as keywords - new, the metaclass call, where_eq), declared as they are or in another letter case, a third of their uses (constructor keywords, where_eq items, reads, writes, deletes, INSERT columns) spelled EXACTLY like the parameter, the instances created in turn through MetaModel.new, MetaClass.new and the metaclass call; (6) names beyond ASCII (D only): kinds and attribute names with letters outside ASCII, about half of them letters whose case mapping is not one-to-one (sharp s, long s, micro sign, final sigma, fi / fl ligatures, n with apostrophe, j with caron, beta symbol, dz digraph, capital sharp s), every use spelled in another letter case of the same name (same upper-case form and same case-folded form: Mass written MASS, maSS, mA\u00df ...): exhaustively every history of length L over {write, delete} x up to 4 spellings of a two-letter name a<letter> for each of 13 letters, every state read under all spellings, the kind K<letter> created under its upper-case form, plus random histories as in (2) (a fifth with the association formalised late) over such names; non-trivial = some cell was written under two '
        'different spellings and read under yet another; distinct = distinct op sequence')
EXHAUSTIVE = {'quick': True, 'thorough': True}
ASSUMPTIONS = ['names are ASCII identifiers (str.upper on ASCII) in all families but `names beyond ASCII`; there a spelling is in the domain (the same name in another letter case) when both its str.upper form and its str.casefold form equal those of the declared name - spellings on which the two disagree (dotless i, capital I with dot, lower-case form of the capital sharp s) are neither generated nor demanded, and that family has no model counterpart (D only); association keys on the referential side are spelled as '
               'declared; a class whose attribute names coincide apart from letter case cannot exist: define_class '
               'rejects it (generated and checked: MetaModelException, nothing defined; the attribute list is handed to define_class '
               'as list, tuple, zip, generator, iterator, map or dict items view in turn); likewise an attribute name of the '
               'form __x__ (reserved by python; names with underscores that are not of that form are generated and accepted)',
               'attribute names do not collide, in their DECLARED spelling, with Python-level attributes of xtuml.meta.Class (it has no '
               'public ones); a fifth of the names are words a class could plausibly define (keys, items, get, name, kind, self, query, '
               '...) declared in another letter case and read in every case, lower case included',
               'loaded-from-text family: identifiers the text grammar cannot spell (R<digit>... lexes as a relation id, '
               'reserved words) are not generated; this family is checked by D alone (no model counterpart)']
CHUNK = 6000
CASE_TIMEOUT_S = 10

LATE_SIG = 'late-formalise-stale-spelling'
ABSENT = Sym('ABSENT')        # oracle: the cell holds no value (deleted)
UNKNOWN = Sym('UNKNOWN')      # oracle: no demand (outside the domain / not determined by the history)

_x = None
_API_WORDS = ((), ())     # (names of the keyword-taking API functions, all other parameter names), filled by setup


def _api_words(pkg_dir):
    """The words the library's own functions use for THEIR parameters, read from the source text of the package (ast, nothing is
    executed).  A modelled attribute may be called like any of them; where a function takes attribute names as keywords
    (**kwargs: new, the metaclass call, where_eq, ...) a keyword spelled exactly like one of the function's own parameters must
    still address the attribute.  First component: the parameter names (and identifier-like string constants) of the functions
    that take **kwargs; second: the parameter names of every other function.  Only a source of NAMES for the generator - no
    expectation is derived from it."""
    import ast
    import glob
    hot, cold = set(), set()
    for f in sorted(glob.glob(os.path.join(pkg_dir, '*.py'))):
        try:
            with open(f, encoding='utf-8') as fh:
                tree = ast.parse(fh.read())
        except (OSError, SyntaxError, ValueError):
            continue
        for node in ast.walk(tree):
            if not isinstance(node, (ast.FunctionDef, ast.AsyncFunctionDef, ast.Lambda)):
                continue
            a = node.args
            names = [p.arg for p in list(a.posonlyargs) + list(a.args) + list(a.kwonlyargs)]
            for star in (a.vararg, a.kwarg):
                if star is not None:
                    names.append(star.arg)
            if a.kwarg is not None:
                hot.update(names)
                for c in ast.walk(node):
                    if isinstance(c, ast.Constant) and isinstance(c.value, str):
                        hot.add(c.value)
            else:
                cold.update(names)

    def usable(w):
        return (re.fullmatch(r'[A-Za-z_][A-Za-z0-9_]{0,11}', w) is not None and any(ch.isalpha() for ch in w)
                and not _is_dunder(w))
    hot = sorted(w for w in hot if usable(w))
    return hot, sorted(w for w in cold if usable(w) and w not in hot)


def setup(ctx):
    global _x, _API_WORDS
    import xtuml
    _x = xtuml
    _API_WORDS = _api_words(os.path.dirname(os.path.abspath(xtuml.__file__)))


# --------------------------------------------------------------------------- generation

def case_patterns(name):
    """all spellings of an ASCII name that differ in letter case only"""
    alts = [(c.lower(), c.upper()) if c.isalpha() else (c,) for c in name]
    return [''.join(p) for p in itertools.product(*alts)]


def respell(r, name):
    mode = r.random()
    if mode < 0.2:
        return name
    if mode < 0.3:
        return name.upper()
    if mode < 0.4:
        return name.lower()
    return ''.join((c.upper() if r.random() < 0.5 else c.lower()) for c in name)


def _ident(r, n_lo=1, n_hi=7):
    first = 'abcdefghijklmnopqrstuvwxyzABCDEFGHIJKLMNOPQRSTUVWXYZ'
    rest = first + '0123456789_'
    return r.choice(first) + ''.join(r.choice(rest) for _ in range(r.randint(n_lo - 1, n_hi - 1)))


# ---- names beyond ASCII (family `uni`, D only)
# letters whose case mapping is NOT one-to-one (the upper-case form has another length, several letters share one upper-case
# form, the lower-case form of the upper-case form is another letter) and, for contrast, ordinary letters with a simple mapping
UNI_SPECIAL = ['\u00df',      # sharp s: upper SS
               '\u017f',      # long s: upper S
               '\u00b5',      # micro sign: upper GREEK CAPITAL MU, whose lower is the greek small mu
               '\u03c2',      # final sigma: upper SIGMA, whose lower is the medial sigma
               '\ufb01',      # ligature fi: upper FI
               '\ufb02',      # ligature fl: upper FL
               '\u0149',      # n preceded by apostrophe: upper is two characters
               '\u01f0',      # j with caron: upper is J + combining caron
               '\u03d0',      # beta symbol: upper BETA, whose lower is the ordinary beta
               '\u01c6',      # digraph dz with caron: lower, title and upper form
               '\u1e9e']      # capital sharp s: lower is the sharp s, whose upper is SS (so only the capital spells itself)
UNI_PLAIN = list('\u00e4\u00f6\u00fc\u00e9\u00f1\u00e7\u00f8\u00e5\u00c4\u00d6\u00dc\u00c9\u03bb\u03c0\u03a9\u0416\u0434\u044f')


def _same_name(sp, name):
    """The domain of the property beyond ASCII: `sp` is the name `name` in another letter case when both notions of "equal
    apart from letter case" that the language offers agree - equal upper-case forms AND equal case-folded forms.  (For ASCII
    names this is str.upper equality, as before.)  Spellings on which the two notions disagree (dotless i, capital I with dot,
    the lower-case form of the capital sharp s) are outside the domain: they are neither generated nor demanded."""
    return sp.upper() == name.upper() and sp.casefold() == name.casefold()


def uni_patterns(name, limit=64):
    """every spelling of `name` made by putting each of its letters into lower or upper case (a letter may become several:
    sharp s -> SS), as far as it is the same name (_same_name); the declared spelling first"""
    alts = []
    for c in name:
        forms = []
        for f in (c, c.lower(), c.upper(), c.title()):
            if f not in forms:
                forms.append(f)
        alts.append(forms)
    out = []
    for p in itertools.product(*alts):
        sp = ''.join(p)
        if sp not in out and _same_name(sp, name):
            out.append(sp)
            if len(out) >= limit:
                break
    return out


def _respell_uni(r, name):
    mode = r.random()
    if mode < 0.12:
        sp = name
    elif mode < 0.30:
        sp = name.upper()
    elif mode < 0.40:
        sp = name.lower()
    elif mode < 0.48:
        sp = name.swapcase()
    else:
        sp = ''.join((c.upper() if r.random() < 0.5 else c.lower()) for c in name)
    if not _same_name(sp, name):
        sp = name.upper() if _same_name(name.upper(), name) else name
    return sp


def _ident_uni(r, n_lo=1, n_hi=7):
    """an identifier in which about every third letter is not ASCII (half of those with a case mapping that is not one-to-one)"""
    ascii_first = 'abcdefghijklmnopqrstuvwxyzABCDEFGHIJKLMNOPQRSTUVWXYZ'

    def letter(first):
        w = r.random()
        if w < 0.2:
            return r.choice(UNI_SPECIAL)
        if w < 0.35:
            return r.choice(UNI_PLAIN)
        return r.choice(ascii_first if first else ascii_first + '0123456789_')
    return letter(True) + ''.join(letter(False) for _ in range(r.randint(n_lo - 1, n_hi - 1)))


def _exhaustive_uni(ctx):
    """as _exhaustive, for a two-letter attribute name whose second letter has a case mapping that is not one-to-one: every
    history of writes and deletes under every spelling of the name, every state read under every spelling; the kind contains
    the letter as well and is spelled in its upper-case form at the creation"""
    depth = ctx.pick(3, 4)
    for L in UNI_SPECIAL + UNI_PLAIN[:2]:
        name, other = 'a' + L, 'cD'
        sps = uni_patterns(name)
        allsp = sps + case_patterns(other)
        kind = 'K' + L
        setup_ops = [['define', kind, [[name, 'integer'], [other, 'Integer']]], ['new', _respell_fixed(kind), [], []]]
        # written / deleted under at most four spellings (the declared one, the upper-case, the lower-case form, then the others),
        # read under all
        acts = []
        for sp in [name, name.upper(), name.lower()] + sps:
            if sp in sps and sp not in acts and len(acts) < 4:
                acts.append(sp)
        alphabet = [('set', sp) for sp in acts] + [('del', sp) for sp in acts]
        for seq in itertools.product(alphabet, repeat=depth):
            ops = list(setup_ops)
            for step, (kind_, sp) in enumerate(seq):
                ops.append(['set', 0, sp, 10 + step] if kind_ == 'set' else ['del', 0, sp])
                ops.append(['reads', 0, allsp])
            yield {'fam': 'exh', 'uni': True, 'ops': ops}


def _respell_fixed(name):
    up = name.upper()
    return up if _same_name(up, name) else name


def _exhaustive(ctx):
    n2, n3 = 'aB', 'cDe'
    sp2, sp3 = case_patterns(n2), case_patterns(n3)
    allsp = sp2 + sp3
    setup_ops = [['define', 'Kk', [[n2, 'integer'], [n3, 'Integer']]], ['new', 'kK', [], []]]

    def histories(spellings, depth):
        alphabet = [('set', sp) for sp in spellings] + [('del', sp) for sp in spellings]
        for seq in itertools.product(alphabet, repeat=depth):
            present = {n2.upper(): True, n3.upper(): True}
            ops = list(setup_ops)
            ok = True
            for step, (kind, sp) in enumerate(seq):
                u = sp.upper()
                if kind == 'set':
                    ops.append(['set', 0, sp, 10 + step])
                    present[u] = True
                else:
                    ops.append(['del', 0, sp])
                    present[u] = False
                ops.append(['reads', 0, allsp])
            if ok:
                yield {'fam': 'exh', 'ops': ops}

    depth = ctx.pick(3, 4)
    for c in histories(allsp, depth):
        yield c
    for c in histories(sp2, depth + 1):
        yield c


TYPES = ['integer', 'string', 'unique_id']


def _value(r, ty, allow_none=True):
    if allow_none and r.random() < 0.05:
        return None
    if ty.upper() == 'STRING':
        return r.choice(['', 'a', 'b', "q'r", 'Ab'])
    return r.randint(0, 4)


SQL_RESERVED = ('CREATE', 'FALSE', 'FROM', 'INDEX', 'INSERT', 'INTO', 'ON', 'PHRASE', 'REF_ID', 'ROP', 'TABLE', 'TO',
                'TRUE', 'UNIQUE', 'VALUES')


# names python reserves for itself (`__x__`, longer than four characters) cannot be attribute names: define_class refuses
# them; names with underscores that are not of that form are ordinary names
RESERVED_NAMES = ['__class__', '__dict__', '__init__', '__x__', '__Name__', '_____', '__getattr__']
NEAR_RESERVED = ['____', '__a', 'a__', '_x_', '__ab_', '_ab__', '___']


PLAUSIBLE = ['keys', 'items', 'values', 'get', 'update', 'copy', 'clear', 'pop', 'index', 'count', 'name', 'kind', 'self', 'id', 'type',
             'delete', 'new', 'clone', 'navigate', 'query', 'select_one', 'select_many', 'attributes', 'metaclass', 'links',
             'storage', 'relate', 'unrelate', 'setdefault', 'format', 'next', 'iter', 'len', 'str', 'repr', 'dict']


def _is_dunder(name):
    return len(name) >= 5 and name[:2] == '__' and name[-2:] == '__'


def _sql_value(v, ty, r):
    T = ty.upper()
    if T == 'STRING':
        return "'%s'" % v.replace("'", "''")
    if T == 'UNIQUE_ID' and r.random() < 0.6:
        return '"%s"' % uuid.UUID(int=v)
    return '%d' % v


def _random_case(r, maxlen, load=False, words=None, late=False, uni=False):
    # schema: target class A (first attribute is the key), source class B with one referential attribute;
    # with `load` the classes, the association and the first rows are given as SQL text to xtuml.ModelLoader;
    # with `words` = (hot, cold) about half of the attribute names are words the library uses for the parameters of its own
    # functions (hot: those of the functions that take attribute names as keywords), declared as they are or in another letter
    # case, and a third of their uses spell them EXACTLY like the parameter
    # with `uni` kinds and attribute names contain letters beyond ASCII, among them letters whose case mapping is not one-to-one;
    # every use is spelled in another letter case of the SAME name (_same_name)
    origin = {}           # NAME -> the word it was taken from (empty outside the `words` family: rs() then is respell())
    resp = _respell_uni if uni else respell

    def rs(nm):
        w = origin.get(nm.upper())
        if w is not None and r.random() < 0.3:
            return w
        return resp(r, nm)

    def ident(lo, hi):
        while True:
            nm = (_ident_uni if uni else _ident)(r, lo, hi)
            # the text grammar cannot spell every identifier: R<digit>... lexes as a relation id (any respelling may be used), keywords are reserved
            if not (load and (re.match(r'[Rr][0-9]', nm) or nm.upper() in SQL_RESERVED)):
                return nm

    def mk_attrs(n):
        out, seen, seen_cf = [], set(), set()
        while len(out) < n:
            nm = ident(1, 6)
            if r.random() < 0.2:
                # names a class could plausibly define for itself (methods of a mapping, of the metaclass, common words), declared
                # in ANOTHER letter case: the lower-case spelling of such an attribute must reach the stored value, not
                # something found on the class
                w = r.choice(PLAUSIBLE)
                cand = w.capitalize() if r.random() < 0.5 else resp(r, w)
                if cand == w:
                    cand = w.upper()
                if not (load and cand.upper() in SQL_RESERVED):
                    nm = cand
            elif r.random() < 0.2:
                # names that begin with one or two underscores are ordinary attribute names (only __x__ is reserved): every
                # spelling of them addresses the one stored value like any other name
                cand = r.choice(['_', '__']) + nm
                if not _is_dunder(cand):
                    nm = cand
            w = None
            if words is not None and r.random() < 0.5:
                hot, cold = words
                pool = hot if (hot and (not cold or r.random() < 0.5)) else (cold or PLAUSIBLE)
                w = r.choice(pool)
                how = r.random()
                cand = w if how < 0.35 else (w.capitalize() if how < 0.55 else (w.upper() if how < 0.7 else resp(r, w)))
                if not (load and (re.match(r'[Rr][0-9]', cand) or cand.upper() in SQL_RESERVED)):
                    nm = cand
                else:
                    w = None
            if nm.upper() in seen or (uni and nm.casefold() in seen_cf):
                continue
            seen.add(nm.upper())
            seen_cf.add(nm.casefold())
            if w is not None:
                origin[nm.upper()] = w
            out.append([nm, resp(r, r.choice(TYPES))])
        return out
    ka, kb = ident(1, 5), ident(1, 5)
    while kb.upper() == ka.upper() or kb.casefold() == ka.casefold():
        kb = ident(1, 5)
    a_attrs = mk_attrs(r.randint(1, 4))
    key_ty = r.choice(['unique_id', 'integer', 'string'])
    a_attrs[0][1] = resp(r, key_ty)
    b_attrs = mk_attrs(r.randint(2, 5))
    if r.random() < 0.35:
        # two of a kind: the second class declares some of the FIRST class's attribute names, in another spelling (a
        # resolution remembered per spelling instead of per class would confuse them)
        for pos in r.sample(range(len(b_attrs)), r.randint(1, len(b_attrs))):
            cand = resp(r, r.choice(a_attrs)[0])
            if all(cand.upper() != nm.upper() and cand.casefold() != nm.casefold() for nm, _ in b_attrs):
                b_attrs[pos][0] = cand
    with_assoc = r.random() < 0.85 or load or late
    ref_name = None
    if with_assoc:
        pos = r.randrange(len(b_attrs))
        ref_name = b_attrs[pos][0]
        b_attrs[pos][1] = resp(r, key_ty)
    ops = [['define', ka, a_attrs], ['define', kb, b_attrs]]
    if load:
        ops = []
    if not load and r.random() < 0.2:
        ops.append(['define', resp(r, ka), []])                      # rejected: already defined
    if not load and r.random() < 0.15:
        kc = ka + kb + 'C'                                              # rejected: attribute names collide
        ops.append(['define', kc, [['Val', 'integer'], ['vAL', 'string']]])
        ops.append(['find', resp(r, kc)])
    if not load and r.random() < 0.15:
        kr = ka + kb + 'R'                                              # rejected: a name python reserves for itself
        ops.append(['define', kr, [['Val', 'integer'], [r.choice(RESERVED_NAMES), 'string']]])
        ops.append(['find', resp(r, kr)])
    if not load and r.random() < 0.15:
        kn = ka + kb + 'N'                                              # accepted: underscores, but not of the reserved form
        ops.append(['define', kn, [[nm, 'integer'] for nm in r.sample(NEAR_RESERVED, r.randint(1, 3))]])
        ops.append(['find', resp(r, kn)])
    if with_assoc and not load and not late:
        ops.append(['assoc', resp(r, kb), ref_name, resp(r, ka), resp(r, a_attrs[0][0])])
    # `late`: the association is formalised AFTER the first instances exist; until then its source key is a plain attribute
    classes = {ka.upper(): (ka, a_attrs, None), kb.upper(): (kb, b_attrs, None if late else ref_name)}
    insts = []            # KIND per instance
    present = {}          # (i, NAME) -> bool
    sql, rows = [], []
    if load:
        tkey = resp(r, a_attrs[0][0])
        for kind, attrs in ((ka, a_attrs), (kb, b_attrs)):
            sql.append('CREATE TABLE %s (%s);' % (kind, ', '.join('%s %s' % (a, t) for a, t in attrs)))
        sql.append('CREATE ROP REF_ID R1 FROM MC %s (%s) TO 1C %s (%s);' % (resp(r, kb), ref_name, resp(r, ka), tkey))
        kT = a_attrs[0][1].upper()
        keys = r.sample(['k1', 'k2', 'k3', 'k4'] if kT == 'STRING' else [1, 2, 3, 4, 5], r.randint(1, 3))
        null_key = '' if kT == 'STRING' else 0
        planned = [(ka, a_attrs, k) for k in keys]
        for _ in range(r.randint(2, 4)):
            # a referential value: an existing key, a dangling one, or the null value
            planned.append((kb, b_attrs, r.choice(keys + [99 if kT != 'STRING' else 'zz', null_key])))
        r.shuffle(planned)
        for kind, attrs, special in planned:
            row = {}
            for n, (a, t) in enumerate(attrs):
                if (kind == ka and n == 0) or (kind == kb and a == ref_name):
                    row[a] = special
                else:
                    row[a] = _value(r, t, allow_none=False)
            named = r.random() < 0.6
            if named:
                cols = [a for a, _ in attrs if r.random() < 0.85 or a == attrs[0][0]]
                r.shuffle(cols)
                sql.append('INSERT INTO %s (%s) VALUES (%s);' % (
                    resp(r, kind), ', '.join(rs(a) for a in cols),
                    ', '.join(_sql_value(row[a], dict(attrs)[a], r) for a in cols)))
                for a, _ in attrs:
                    if a not in cols:
                        row[a] = None                                       # a column the statement does not mention
            else:
                sql.append('INSERT INTO %s VALUES (%s);' % (
                    resp(r, kind), ', '.join(_sql_value(row[a], t, r) for a, t in attrs)))
            i = len(insts)
            insts.append(kind.upper())
            rows.append([kind.upper(), [[a, row[a]] for a, _ in attrs]])
            for a, _ in attrs:
                present[(i, a.upper())] = (a != classes[kind.upper()][2])

    def pick_inst(kind=None):
        c = [i for i, k in enumerate(insts) if kind is None or k == kind]
        return r.choice(c) if c else None

    def gen_new():
        kind = r.choice([ka, kb, kb])
        K = kind.upper()
        _, attrs, ref = classes[K]
        if r.random() < 0.04:
            bad = kind + 'Q'
            while bad.upper() in classes:
                bad += 'Q'
            return ['new', bad, [], []]                                 # UnknownClass, no instance
        npos = r.choice([0, 0, 1, len(attrs), r.randint(0, len(attrs))])
        args = [_value(r, ty) for _, ty in attrs[:npos]]
        kws = []
        for nm, ty in attrs:
            if r.random() < 0.35:
                sp = rs(nm)
                if nm != ref:
                    if r.random() < 0.15:                               # the same attribute under two spellings
                        kws.append([rs(nm), _value(r, ty)])
                kws.append([sp, _value(r, ty)])
        seen, kw2 = set(), []
        for k, v in kws:                                                # Python keyword names are unique (exact)
            if k not in seen:
                seen.add(k)
                kw2.append([k, v])
        r.shuffle(kw2)
        i = len(insts)
        insts.append(K)
        for nm, _ in attrs:
            present[(i, nm.upper())] = (nm != ref)
        return ['new', resp(r, kind), args, kw2]

    for _ in range(r.randint(0 if load else 2, 4)):
        ops.append(gen_new())
    if late:
        # the documented API routes on which instances exist before Association.formalize():
        #   define_association + formalize at once, after the instances;   define_association, more instances, formalize;
        #   define_association, more instances, batch_relate (links from the stored referential values), formalize
        spec = [resp(r, kb), ref_name, resp(r, ka), resp(r, a_attrs[0][0])]
        route = r.choice(['assoc', 'formalize', 'batch', 'batch'])
        if route == 'assoc':
            ops.append(['assoc'] + spec)
        else:
            ops.append(['assocdef'] + spec)
            for _ in range(r.randint(0, 2)):
                ops.append(gen_new())
            if route == 'batch':
                ops.append(['batch'])
            ops.append(['formalize'])
        classes[kb.upper()] = (kb, b_attrs, ref_name)
        for i, K in enumerate(insts):
            if K == kb.upper():
                present[(i, ref_name.upper())] = False
    n = r.randint(3, maxlen)
    for _ in range(n):
        what = r.random()
        i = pick_inst()
        if i is None or what < 0.08:
            ops.append(gen_new())
            continue
        K = insts[i]
        _, attrs, ref = classes[K]
        nm, ty = r.choice(attrs)
        if what < 0.40:
            ops.append(['set', i, rs(nm), _value(r, ty)])
            if nm != ref:
                present[(i, nm.upper())] = True
        elif what < 0.50:
            cands = [a for a, _ in attrs if a != ref and present.get((i, a.upper()))]
            if r.random() < 0.3:
                cands = [a for a, _ in attrs]                           # also empty cells and the referential attribute
            if cands:
                a = r.choice(cands)
                ops.append(['del', i, rs(a)])
                present[(i, a.upper())] = False
        elif what < 0.68:
            k = r.randint(1, 4)
            names = [r.choice(attrs)[0] for _ in range(k)]
            ops.append(['reads', i, [rs(a) for a in names]])
        elif what < 0.80:
            kind = r.choice([ka, kb])
            _, cattrs, _ = classes[kind.upper()]
            filt = []
            for a, t in r.sample(cattrs, r.randint(0, min(2, len(cattrs)))):
                filt.append([rs(a), _value(r, t)])
            if filt and r.random() < 0.35:
                # the SAME attribute named twice, under two spellings: both items address the one stored value, so with
                # different values nothing can match, with equal values the second item changes nothing
                a0, v0 = r.choice(filt)
                t0 = dict((nm.upper(), ty) for nm, ty in cattrs)[a0.upper()]
                for _ in range(6):
                    sp2 = rs(a0)
                    if all(sp2 != f[0] for f in filt):
                        filt.append([sp2, v0 if r.random() < 0.4 else _value(r, t0)])
                        break
                r.shuffle(filt)
            bad = kind + 'Z'
            while bad.upper() in classes:
                bad += 'Z'
            ops.append(['sel', resp(r, kind) if r.random() < 0.95 else bad, filt])
        elif what < 0.90:
            j = pick_inst()
            if r.random() < 0.8:
                b, a = pick_inst(kb.upper()), pick_inst(ka.upper())
                if b is not None and a is not None:
                    i, j = (b, a) if r.random() < 0.5 else (a, b)
            ops.append([r.choice(['rel', 'rel', 'unrel']), i, j])
        elif what < 0.97:
            ops.append(['ser', i, [t for _, t in attrs]])
        else:
            ops.append(['find', resp(r, r.choice([ka, kb])) if r.random() < 0.8 else (_ident_uni if uni else _ident)(r, 1, 3)])
    out = {'fam': 'rand', 'ops': ops}
    if load:
        out = {'fam': 'load', 'ops': ops, 'sql': '\n'.join(sql) + '\n', 'rows': rows,
               'schema': {'a': [ka, a_attrs], 'b': [kb, b_attrs], 'ref': ref_name, 'tkey': a_attrs[0][0]}}
    if words is not None:
        out['words'] = sorted(set(origin.values()))
    if late:
        out['late'] = True
    if uni:
        out['uni'] = True
    return out


LOOKUPS = ('find', 'new', 'sel', 'sel1')


def _lookup_op(kind_sp, how, r=None):
    if how == 'find':
        return ['find', kind_sp]
    if how == 'new':
        return ['new', kind_sp, [], []]
    filt = [] if r is None or r.random() < 0.7 else [['N', 0]]
    return [how, kind_sp, filt]


def _class_lookup_exhaustive():
    sps = case_patterns('aB')
    for pre_sp in sps:
        for pre_how in LOOKUPS:
            for def_sp in sps:
                ops = [_lookup_op(pre_sp, pre_how), ['define', def_sp, [['n', 'integer'], ['N', 'string']]],
                       _lookup_op(def_sp, pre_how), ['define', def_sp, [['n', 'integer']]]]
                for sp in sps:
                    for how in LOOKUPS:
                        ops.append(_lookup_op(sp, how))
                ops.append(['define', pre_sp, []])                       # redefinition under (maybe) another spelling
                ops.append(_lookup_op(pre_sp, 'find'))
                yield {'fam': 'cls', 'ops': ops}


def _class_lookup_random(r):
    kinds = []
    nk = r.randint(2, 4)
    while len(kinds) < nk:
        k = _ident(r, 2, 3)
        if k.upper() not in [x.upper() for x in kinds]:
            kinds.append(k)
    defined = set()
    used = {k.upper(): [] for k in kinds}            # spellings looked up so far, per kind
    ops = []
    for _ in range(r.randint(6, 30)):
        k = r.choice(kinds)
        K = k.upper()
        w = r.random()
        if w < 0.03 and K not in defined:
            # an attribute name python reserves for itself: rejected, nothing is defined
            ops.append(['define', respell(r, k), [['n', 'integer'], [r.choice(RESERVED_NAMES), 'string']]])
        elif w < 0.06 and K not in defined:
            # attribute names that coincide apart from letter case: rejected, nothing is defined
            ops.append(['define', respell(r, k), [['n', 'integer'], [r.choice(['N', 'n']), 'string']] if r.random() < 0.5
                        else [['Ab', 'integer'], ['x', 'string'], ['aB', 'integer']]])
        elif w < 0.22:
            ops.append(['define', respell(r, k), [['n', 'integer']] if K not in defined else []])
            defined.add(K)
        else:
            if used[K] and r.random() < 0.6:
                sp = r.choice(used[K])                # the same spelling again (before / after the definition)
            else:
                sp = respell(r, k)
            used[K].append(sp)
            ops.append(_lookup_op(sp, r.choice(LOOKUPS), r))
    for k in kinds:                                   # every kind ends defined and is looked up once more
        if k.upper() not in defined:
            ops.append(['define', respell(r, k), [['n', 'integer']]])
        for sp in set(used[k.upper()][:3]):
            ops.append(_lookup_op(sp, r.choice(LOOKUPS), r))
    return {'fam': 'cls', 'ops': ops}


def generate(ctx):
    for c in _class_lookup_exhaustive():
        yield c
    rng = ctx.rng.fork('class-lookup')
    for i in range(ctx.pick(1500, 20000)):
        yield _class_lookup_random(rng.fork(i))
    if os.environ.get('VERIF_C10_FAMILY', '') != 'random':        # development aid: look at one family only
        for c in _exhaustive(ctx):
            yield c
    rng = ctx.rng.fork('random')
    n = ctx.pick(5000, 40000)
    for i in range(n):
        yield _random_case(rng.fork(i), 40)
    rng = ctx.rng.fork('loaded')
    for i in range(ctx.pick(2500, 20000)):
        yield _random_case(rng.fork(i), 25, load=True)
    # attributes named like the parameters of the library's own functions (read from the source text of the tree under test)
    rng = ctx.rng.fork('api-words')
    for i in range(ctx.pick(1000, 8000)):
        yield _random_case(rng.fork(i), 30, words=_API_WORDS)
    # late formalisation: instances that exist before Association.formalize()
    rng = ctx.rng.fork('late-formalize')
    for i in range(ctx.pick(800, 6000)):
        yield _random_case(rng.fork(i), 25, late=True)
    rng = ctx.rng.fork('api-words-loaded')
    for i in range(ctx.pick(300, 2500)):
        yield _random_case(rng.fork(i), 20, load=True, words=_API_WORDS)
    # names beyond ASCII, among them letters whose case mapping is not one-to-one (D only)
    for c in _exhaustive_uni(ctx):
        yield c
    rng = ctx.rng.fork('beyond-ascii')
    for i in range(ctx.pick(1500, 12000)):
        yield _random_case(rng.fork(i), 30, uni=True, late=(i % 5 == 4))


# --------------------------------------------------------------------------- implementation side

def _canon(v):
    if v is None:
        return Sym('none')
    if isinstance(v, bool):
        return Sym('T') if v else Sym('F')
    if isinstance(v, (int, str)):
        return v
    return Sym('other:%s' % type(v).__name__)


def _exc_name(e):
    x = _x
    for cls, nm in ((x.UnknownClassException, 'UnknownClass'), (x.MetaModelException, 'MetaModel'),
                    (x.RelateException, 'Relate'), (x.UnrelateException, 'Unrelate'),
                    (x.UnknownLinkException, 'UnknownLink'), (x.MetaException, 'Meta'),
                    (AttributeError, 'AttributeError'), (KeyError, 'KeyError')):
        if isinstance(e, cls):
            return Sym(nm)
    return None


def _parse_serialized(text, types):
    """the value tokens of an INSERT statement, read back by declared type"""
    lines = text.split('\n')[1:-2]
    out = []
    for ln, ty in zip(lines, types):
        tok = ln.strip()
        tok = tok[:tok.rindex(' -- ')]
        if tok.endswith(','):
            tok = tok[:-1]
        T = ty.upper()
        if T == 'STRING':
            out.append(tok[1:-1].replace("''", "'"))
        elif T == 'UNIQUE_ID':
            out.append(uuid.UUID(tok.strip('"')).int)
        else:
            out.append(int(tok))
    return out


def _null_of(ty):
    return '' if ty.upper() == 'STRING' else 0


class _Oracle(object):
    """one cell per (instance index, upper-cased attribute name)"""

    def __init__(self):
        self.classes = {}      # KIND -> dict(kind, attrs=[(name, type)], ref=name|None, key=None)
        self.assoc = None      # (SRC KIND, src key name, TGT KIND, TGT KEY NAME upper)
        self.inst_kind = []    # KIND per instance
        self.cells = {}        # (i, NAME) -> value | ABSENT | UNKNOWN
        self.link = {}         # b -> a | None | UNKNOWN
        self.next_id = 1       # the value the metamodel's IntegerGenerator hands out next (one per non-referential
        #                        unique_id attribute of every creation, also when the caller supplies the id)

    def decl(self, i):
        return self.classes[self.inst_kind[i]]

    def declared_name(self, i, sp):
        for nm, ty in self.decl(i)['attrs']:
            if nm.upper() == sp.upper():
                return nm, ty
        return None, None

    def is_ref(self, i, sp):
        ref = self.decl(i)['ref']
        return ref is not None and ref.upper() == sp.upper()

    def expected(self, i, sp):
        """expected read of attribute `sp` of instance i: value, ABSENT or UNKNOWN"""
        nm, _ = self.declared_name(i, sp)
        if nm is None:
            return UNKNOWN
        if self.is_ref(i, sp):
            a = self.link.get(i)
            if a is UNKNOWN:
                return UNKNOWN
            if a is None:
                return None
            v = self.cells.get((a, self.assoc[3]), UNKNOWN)
            return None if v is ABSENT else v           # fget reads getattr(other, key, None)
        return self.cells.get((i, nm.upper()), UNKNOWN)


def run_impl(case):
    x = _x
    m = x.MetaModel(x.IntegerGenerator())
    orc = _Oracle()
    insts = []
    index_of = {}
    obs, fails = [], []
    stats = {'cases_' + case['fam']: 1}
    if case.get('uni'):
        stats['cases_names_beyond_ascii'] = 1
    if case.get('words') is not None:
        stats['cases_api_words'] = 1
        if case['words']:
            stats['cases_api_words_with_such_attribute'] = 1
    written = {}           # (i, NAME) -> set of spellings written since the cell was last emptied
    nontrivial = False
    pre_formal = set()     # instances of the referring class that existed when the association was formalised: they keep the
    #                        value they were created with in __dict__ (nothing removes it); the property must shadow it under
    #                        EVERY spelling.  Failures on them carry the narrow signature LATE_SIG
    late_assoc = {}        # 'obj': the Association defined by `assocdef`, 'spec': its op

    def late_sig(i, default):
        return LATE_SIG if i in pre_formal else default

    def formalised(spec, upto):
        orc.classes[spec[0].upper()]['ref'] = spec[1]
        orc.assoc = (spec[0].upper(), spec[1], spec[2].upper(), spec[3].upper())
        for j, k in enumerate(orc.inst_kind):
            if k == spec[0].upper():
                pre_formal.add(j)
        if pre_formal:
            stats['instances_before_formalize'] = len(pre_formal)
        for j in sorted(pre_formal):
            check_instance(j, upto)

    def fail(sig, what, upto):
        if len(fails) < 4:
            pre = ('loaded from: %s ; ' % ' '.join(case['sql'].split('\n'))) if case['fam'] == 'load' else ''
            fails.append({'sig': sig, 'what': '%s; %shistory: %s' % (what, pre, dumps(_ops_sexp(case['ops'][:max(upto, -1) + 1])))})

    def check_instance(i, upto):
        """D on one instance: every spelling reads the cell; no stray __dict__ key"""
        inst = insts[i]
        d = orc.decl(i)
        up = {nm.upper(): nm for nm, _ in d['attrs']}
        for k in list(inst.__dict__):
            if k.upper() in up and up[k.upper()] != k:
                fail('stray-dict-key', '__dict__ of instance %d holds the key %r beside the declared attribute %r'
                     % (i, k, up[k.upper()]), upto)
            elif d['ref'] is not None and k.upper() == d['ref'].upper() and i not in pre_formal:
                fail('referential-value-stored-twice', '__dict__ of instance %d holds a value under the referential attribute '
                     '%r, whose value is given by the link (spellings other than the declared one read this copy)'
                     % (i, k), upto)
        for nm, _ in d['attrs']:
            want = orc.expected(i, nm)
            if want is UNKNOWN or want is ABSENT:
                continue
            if nm.isascii():
                sps = case_patterns(nm) if len(nm) <= 3 else [nm, nm.upper(), nm.lower(), nm.swapcase(), nm.capitalize()]
            else:
                # beyond ASCII: only spellings that are the same name (_same_name); the declared and the upper-case form first
                sps = [sp for sp in [nm, nm.upper(), nm.lower(), nm.swapcase(), nm.capitalize()] if _same_name(sp, nm)]
                sps += [sp for sp in uni_patterns(nm, 24) if sp not in sps]
            for sp in sps:
                try:
                    got = getattr(inst, sp)
                except AttributeError:
                    got = Sym('AttributeError')
                if got != want or type(got) is not type(want):
                    fail('read-differs-from-last-write' if not orc.is_ref(i, nm) else late_sig(i, 'referential-read-differs'),
                         'instance %d: reading %r gives %r, the value addressed by %r is %r' % (i, sp, got, nm, want), upto)
                    break

    def others(i):
        """what an operation on instance i (or the creation of a new one: i = None) must leave alone: the dictionaries of all
        OTHER instances, and the dictionaries of the classes themselves (a value stored on the class would be read by every
        instance that has none of its own)"""
        snap = [(j, list(o.__dict__.items())) for j, o in enumerate(insts) if j != i]
        cls_keys = {}
        for o in insts:
            cls_keys[id(type(o))] = (type(o), sorted(k for k in vars(type(o)) if not k.startswith('__')))
        return snap, cls_keys

    def check_others(before, op_text, upto):
        snap, cls_keys = before
        for j, items in snap:
            if list(insts[j].__dict__.items()) != items:
                fail('other-instance-changed', '%s changed the dictionary of ANOTHER instance (%d) from %r to %r'
                     % (op_text, j, items, list(insts[j].__dict__.items())), upto)
        for t, keys in cls_keys.values():
            now = sorted(k for k in vars(t) if not k.startswith('__'))
            if now != keys:
                fail('class-dict-changed', '%s changed the dictionary of the CLASS %s: %r -> %r' % (op_text, t.__name__, keys, now), upto)

    def register_new(K, before):
        mc = m.metaclasses.get(K)
        if mc is None or len(mc.storage) <= before:
            return None
        inst = mc.storage[-1]
        i = len(insts)
        insts.append(inst)
        index_of[id(inst)] = i
        orc.inst_kind.append(K)
        return i

    if case['fam'] == 'load':
        loader = x.ModelLoader()
        loader.input(case['sql'])
        m = loader.build_metamodel(x.IntegerGenerator())
        sch = case['schema']
        (ka, a_attrs), (kb, b_attrs) = sch['a'], sch['b']
        orc.classes[ka.upper()] = {'kind': ka, 'attrs': [tuple(a) for a in a_attrs], 'ref': None}
        orc.classes[kb.upper()] = {'kind': kb, 'attrs': [tuple(a) for a in b_attrs], 'ref': sch['ref']}
        orc.assoc = (kb.upper(), sch['ref'], ka.upper(), sch['tkey'].upper())
        seen = {}
        for K, row in case['rows']:
            mc = m.metaclasses.get(K)
            k = seen.get(K, 0)
            seen[K] = k + 1
            if mc is None or k >= len(mc.storage):
                fail('row-not-loaded', 'row %d of %s was not created by the loader' % (k, K), -1)
                return {'obs': [], 'd_fail': fails, 'nontrivial': False, 'key': case['sql'], 'stats': stats}
            inst = mc.storage[k]
            i = len(insts)
            insts.append(inst)
            index_of[id(inst)] = i
            orc.inst_kind.append(K)
            for a, v in row:
                orc.cells[(i, a.upper())] = v
            # the loader creates the instance with defaults first: one generator value per non-referential unique id
            decl = orc.classes[K]
            orc.next_id += sum(1 for a, t in decl['attrs'] if t.upper() == 'UNIQUE_ID' and a != decl['ref'])
        kT = dict((a.upper(), t) for a, t in a_attrs)[sch['tkey'].upper()].upper()
        for i, (K, row) in enumerate(case['rows']):
            if K != kb.upper():
                continue
            v = dict((a, w) for a, w in row)[sch['ref']]
            null = v is None or (kT == 'STRING' and v == '') or (kT != 'STRING' and v == 0)
            hits = [j for j, (K2, row2) in enumerate(case['rows'])
                    if K2 == ka.upper() and dict((a, w) for a, w in row2)[sch['tkey']] == v]
            orc.link[i] = hits[0] if (hits and not null) else None
        stats['loaded_rows'] = len(insts)
        stats['loaded_dangling_or_null_refs'] = sum(1 for i, (K, _) in enumerate(case['rows'])
                                                    if K == kb.upper() and orc.link[i] is None)
        for i in range(len(insts)):
            check_instance(i, -1)
    abort = False
    for n, op in enumerate(case['ops']):
        if abort:
            break                  # the class table no longer is what the history says: nothing after it is meaningful
        nm = op[0]
        stats['op_' + nm] = stats.get('op_' + nm, 0) + 1
        res = Sym('ok')
        try:
            if nm == 'define':
                K = op[1].upper()
                dup = K in orc.classes
                unames = [a.upper() for a, _ in op[2]]
                collide = len(set(unames)) < len(unames)      # two attribute names coincide apart from letter case
                reserved = any(_is_dunder(a) for a, _ in op[2])  # a name of the form __x__
                try:
                    given = [tuple(a) for a in op[2]]
                    # the attributes are handed over in every form an iterable of pairs can take - also ONE-SHOT iterables
                    # (zip of names and types, a generator, an iterator, a map, the items view of a dict), which can be read once
                    form = (n + len(op[1]) + len(given)) % 8
                    exact_distinct = len(set(a for a, _ in given)) == len(given)
                    if form == 1:
                        handed = tuple(given)
                    elif form == 2:
                        handed = zip([a for a, _ in given], [t for _, t in given])
                    elif form == 3:
                        handed = (pair for pair in list(given))
                    elif form == 4:
                        handed = iter(list(given))
                    elif form == 5:
                        handed = map(tuple, [list(pair) for pair in given])
                    elif form == 6 and exact_distinct:
                        handed = dict(given).items()
                    else:
                        form, handed = 0, given
                    stats['define_form_%d' % form] = stats.get('define_form_%d' % form, 0) + 1
                    made = m.define_class(op[1], handed)
                    if [tuple(a) for a in made.attributes] != [tuple(a) for a in op[2]]:
                        fail('class-attributes-differ', 'define_class(%r, <%s of %r>) defined a class with the attributes %r'
                             % (op[1], ['list', 'tuple', 'zip', 'generator', 'iterator', 'map', 'dict items'][form], op[2],
                                list(made.attributes)), n)
                        abort = True
                    # the caller's list stays the caller's: it is not changed, and changing it afterwards does not change the class
                    if given != [tuple(a) for a in op[2]]:
                        fail('argument-changed', 'define_class(%r) changed the attribute list it was given to %r' % (op[1], given), n)
                    given.append(('Zz_%d' % n, 'integer'))
                    given[:1] = [('Qq_%d' % n, 'string')]
                    # (with a one-shot form the class was built from a copy; the mutation then shows nothing, which is fine)
                    if [tuple(a) for a in made.attributes] != [tuple(a) for a in op[2]]:
                        fail('class-aliases-argument', 'changing the list given to define_class(%r) afterwards changed the class: '
                             'attributes %r' % (op[1], list(made.attributes)), n)
                    if dup:
                        fail('class-redefined', 'define_class(%r) succeeded although %r exists' % (op[1], orc.classes[K]['kind']), n)
                    elif collide:
                        fail('colliding-attributes-accepted', 'define_class(%r, %r) accepted attribute names that coincide '
                             'apart from letter case (no spelling could address one of them)' % (op[1], op[2]), n)
                    elif reserved:
                        fail('reserved-attribute-accepted', 'define_class(%r, %r) accepted an attribute name python reserves '
                             'for itself (it would shadow the instance machinery)' % (op[1], op[2]), n)
                    if not dup:
                        # (also when it was wrongly accepted: the oracle must follow the implementation to stay usable)
                        orc.classes[K] = {'kind': op[1], 'attrs': [tuple(a) for a in op[2]], 'ref': None}
                except x.MetaModelException:
                    res = Sym('MetaModel')
                    if K in m.metaclasses and not dup:
                        fail('rejected-class-defined', 'define_class(%r) raised but left a class behind' % op[1], n)
                    if not dup and not collide and not reserved:
                        fail('class-definition-rejected', 'define_class(%r) raised although no such class exists' % op[1], n)
            elif nm == 'assoc':
                ass = m.define_association('R1', op[1], [op[2]], True, True, '', op[3], [op[4]], False, True, '')
                ass.formalize()
                formalised(op[1:], n)
            elif nm == 'assocdef':
                late_assoc['obj'] = m.define_association('R1', op[1], [op[2]], True, True, '', op[3], [op[4]], False, True, '')
                late_assoc['spec'] = op[1:]
            elif nm == 'batch':
                # links from the values the referring instances hold (the route a loader takes before it formalises)
                late_assoc['obj'].batch_relate()
                _oracle_batch(orc, late_assoc['spec'])
            elif nm == 'formalize':
                late_assoc['obj'].formalize()
                formalised(late_assoc['spec'], n)
            elif nm == 'find':
                K = op[1].upper()
                try:
                    mc = m.find_metaclass(op[1])
                    res = mc.kind
                    if K not in orc.classes:
                        fail('unknown-class-found', 'find_metaclass(%r) found %r' % (op[1], mc.kind), n)
                    elif mc is not m.find_metaclass(orc.classes[K]['kind']):
                        fail('class-lookup-case', 'find_metaclass(%r) and find_metaclass(%r) differ' % (op[1], orc.classes[K]['kind']), n)
                    else:
                        decl = orc.classes[K]
                        # what was found is compared with what the HISTORY defined, not with another lookup
                        if mc.kind != decl['kind'] or [tuple(a) for a in mc.attributes] != [tuple(a) for a in decl['attrs']]:
                            fail('class-lookup-case', 'find_metaclass(%r) found the class %r with attributes %r, defined was %r with %r'
                                 % (op[1], mc.kind, list(mc.attributes), decl['kind'], decl['attrs']), n)
                        try:
                            if m.find_class(op[1]) is not mc.clazz:
                                fail('class-lookup-case', 'find_class(%r) is not the class of find_metaclass(%r)' % (op[1], op[1]), n)
                        except (x.UnknownClassException, KeyError, AttributeError) as e:
                            fail('class-lookup-case', 'find_class(%r) raised %s although class %r exists'
                                 % (op[1], type(e).__name__, decl['kind']), n)
                        for a, t in decl['attrs']:
                            for sp in (a, a.upper(), a.lower(), a.swapcase()):
                                if not _same_name(sp, a):
                                    continue            # (beyond ASCII: not every such form is the same name)
                                if mc.attribute_type(sp) != t:
                                    fail('attribute-type-case', 'attribute_type(%r) of %r gives %r, %r is declared as %r'
                                         % (sp, decl['kind'], mc.attribute_type(sp), a, t), n)
                        if mc.attribute_type('no_such_attribute_') is not None:
                            fail('attribute-type-case', 'attribute_type of an undeclared name gives %r'
                                 % (mc.attribute_type('no_such_attribute_'),), n)
                except x.UnknownClassException:
                    res = Sym('UnknownClass')
                    if K in orc.classes:
                        fail('class-lookup-case', 'find_metaclass(%r) raised although class %r exists' % (op[1], orc.classes[K]['kind']), n)
                    else:
                        try:
                            m.find_class(op[1])
                            fail('unknown-class-found', 'find_class(%r) found a class' % op[1], n)
                        except x.UnknownClassException:
                            pass
            elif nm == 'new':
                K = op[1].upper()
                mc0 = m.metaclasses.get(K)
                before = len(mc0.storage) if mc0 is not None else 0
                kwargs = dict((k, v) for k, v in op[3])
                exc = None
                around = others(None)
                returned = None
                try:
                    route = (n + len(op[2]) + len(op[3])) % 3 if (case.get('words') is not None and mc0 is not None) else 0
                    stats['new_route_%d' % route] = stats.get('new_route_%d' % route, 0) + 1
                    if route == 1:
                        # the other routes to the same constructor (family `words` only; the class exists): the metaclass's own
                        # new() and calling the metaclass
                        returned = m.find_metaclass(op[1]).new(*op[2], **kwargs)
                    elif route == 2:
                        returned = m.find_metaclass(op[1])(*op[2], **kwargs)
                    else:
                        returned = m.new(op[1], *op[2], **kwargs)
                except (x.MetaException, AttributeError) as e:
                    exc = e
                    res = _exc_name(e)
                except TypeError as e:
                    # a keyword that names an attribute must not collide with a parameter of the constructor (kind, self, ...)
                    exc = e
                    res = Sym('TypeError')
                    fail('keyword-name-collides', 'new(%r, %r, %s) raised TypeError: %s' % (op[1], op[2], kwargs, e), n)
                    obs.append(res)
                    abort = True           # the instance numbering of the rest of the history no longer holds
                    continue
                if exc is None and K in orc.classes:
                    pool = m.select_many(orc.classes[K]['kind'])
                    if returned is None or not any(returned is o for o in pool) or \
                            x.get_metaclass(returned).kind != orc.classes[K]['kind']:
                        fail('new-returns-other', 'new(%r) returned %r, which is not the instance of %r it created'
                             % (op[1], returned, orc.classes[K]['kind']), n)
                check_others(around, 'new(%r, ...)' % op[1], n)
                if list(kwargs.items()) != [(k, v) for k, v in op[3]]:
                    fail('argument-changed', 'new(%r) changed the keyword dictionary it was given to %r' % (op[1], kwargs), n)
                i = register_new(K, before)
                if K not in orc.classes and exc is None:
                    fail('unknown-class-found', 'new(%r) succeeded although no such class is defined' % op[1], n)
                if K in orc.classes and i is None:
                    fail('class-lookup-case', 'new(%r) created no instance of %r (%s)' % (op[1], orc.classes[K]['kind'], res), n)
                if i is not None:
                    _oracle_new(orc, i, op, insts[i], exc, written)
                    if exc is not None and isinstance(exc, x.MetaException) and not isinstance(exc, x.RelateException):
                        # the constructor only fails through the batch relate
                        fail('ctor-ref-keyword-case', 'new(%r, %s) raised %s: a keyword naming a referential attribute '
                             'in another letter case was rejected' % (op[1], kwargs, type(exc).__name__), n)
                        for a, _ in orc.decl(i)['attrs']:
                            orc.cells[(i, a.upper())] = UNKNOWN
                        orc.link[i] = UNKNOWN
                    check_instance(i, n)
            elif nm == 'set':
                i, sp, v = op[1], op[2], op[3]
                inst = insts[i]
                dn, _ = orc.declared_name(i, sp)
                is_ref = orc.is_ref(i, sp)
                before = list(inst.__dict__.items())
                around = others(i)
                try:
                    setattr(inst, sp, v)
                    if is_ref:
                        fail(late_sig(i, 'referential-write-accepted'), 'instance %d: writing the referential attribute under %r '
                             'did not raise' % (i, sp), n)
                except x.MetaException:
                    res = Sym('Meta')
                    if not is_ref:
                        fail('plain-write-rejected', 'instance %d: writing %r raised MetaException' % (i, sp), n)
                    elif list(inst.__dict__.items()) != before:
                        fail(late_sig(i, 'referential-write-changed-state'), 'instance %d: rejected write under %r changed __dict__' % (i, sp), n)
                check_others(around, 'writing %r of instance %d' % (sp, i), n)
                if dn is not None and not is_ref:
                    orc.cells[(i, dn.upper())] = v
                    written.setdefault((i, dn.upper()), set()).add(sp)
                    if sp != dn:
                        stats['writes_other_spelling'] = stats.get('writes_other_spelling', 0) + 1
                check_instance(i, n)
            elif nm == 'del':
                i, sp = op[1], op[2]
                inst = insts[i]
                dn, _ = orc.declared_name(i, sp)
                cur = orc.cells.get((i, dn.upper()), UNKNOWN) if dn is not None else UNKNOWN
                in_domain = dn is not None and not orc.is_ref(i, sp) and cur is not ABSENT and cur is not UNKNOWN
                around = others(i)
                try:
                    delattr(inst, sp)
                except (KeyError, AttributeError) as e:
                    res = _exc_name(e)
                    if in_domain:
                        fail('delete-rejected', 'instance %d: del under %r raised %s although %r holds a value'
                             % (i, sp, type(e).__name__, dn), n)
                check_others(around, 'deleting %r of instance %d' % (sp, i), n)
                if in_domain:
                    orc.cells[(i, dn.upper())] = ABSENT
                    written.pop((i, dn.upper()), None)
                    if dn in inst.__dict__ or any(k.upper() == dn.upper() for k in inst.__dict__):
                        fail('delete-ineffective', 'instance %d: after del under %r the value of %r is still stored'
                             % (i, sp, dn), n)
                else:
                    # nothing to delete under this name: no OTHER attribute may lose or change its value
                    stats['delete_of_empty_or_referential'] = stats.get('delete_of_empty_or_referential', 0) + 1
                    for a, _ in orc.decl(i)['attrs']:
                        want = orc.cells.get((i, a.upper()), UNKNOWN)
                        if want is UNKNOWN or want is ABSENT or orc.is_ref(i, a):
                            continue
                        if a not in inst.__dict__ or inst.__dict__[a] != want:
                            fail('delete-absent-removes-other-value', 'instance %d: del under %r (no value stored under '
                                 'that name) removed or changed the value of %r' % (i, sp, a), n)
                            orc.cells[(i, a.upper())] = UNKNOWN
                check_instance(i, n)
            elif nm == 'reads':
                i = op[1]
                inst = insts[i]
                res = []
                for sp in op[2]:
                    try:
                        v = getattr(inst, sp)
                        res.append(_canon(v))
                        dn, _ = orc.declared_name(i, sp)
                        if dn is not None:
                            w = written.get((i, dn.upper()), ())
                            if len(w) >= 2 and sp not in w:
                                nontrivial = True
                    except AttributeError:
                        res.append(Sym('AttributeError'))
                check_instance(i, n)
            elif nm in ('sel', 'sel1'):
                K = op[1].upper()
                try:
                    # the same filter object serves two selections (a filter that remembers or consumes something would show)
                    flt = x.where_eq(**dict((k, v) for k, v in op[2]))
                    around = others(None)
                    if nm == 'sel':
                        q = m.select_many(op[1], flt)
                        again = m.select_many(op[1], flt)
                        if [id(o) for o in q] != [id(o) for o in again]:
                            fail('where-eq-differs', 'the same where_eq filter used twice on %r gave %d and then %d instances'
                                 % (op[1], len(q), len(again)), n)
                    else:
                        one = m.select_any(op[1], flt)
                        q = [] if one is None else [one]
                    check_others(around, 'a selection on %r' % op[1], n)
                    res = [index_of.get(id(o), -1) for o in q]
                    if len(set(a.upper() for a, _ in op[2])) < len(op[2]):
                        stats['filter_names_attribute_twice'] = stats.get('filter_names_attribute_twice', 0) + 1
                    # for contrast the same clause on a plain instance set (what a navigation applies it to): the class-level
                    # selection and the filtered set must agree
                    if nm == 'sel' and K in orc.classes:
                        pool = list(m.find_metaclass(op[1]).storage)
                        plain = [index_of.get(id(o), -1) for o in x.where_eq(**dict((k, v) for k, v in op[2]))(pool)]
                        as_dict = [index_of.get(id(o), -1) for o in m.select_many(op[1], dict((k, v) for k, v in op[2]))]
                        by_query = [index_of.get(id(o), -1) for o in m.find_metaclass(op[1]).query(dict((k, v) for k, v in op[2]))]
                        if by_query != res:
                            fail('where-eq-differs', 'select_many(%r, where_eq(%s)) gave %r, MetaClass.query with the same names and '
                                 'values gives %r' % (op[1], op[2], res, by_query), n)
                        if plain != res or as_dict != res:
                            fail('where-eq-differs', 'select_many(%r, where_eq(%s)) gave %r, the same clause applied to the plain '
                                 'instance set gives %r, passed as a dict %r' % (op[1], op[2], res, plain, as_dict), n)
                    if K in orc.classes:
                        want, known = [], True
                        for i, k in enumerate(orc.inst_kind):
                            if k != K:
                                continue
                            hit = True
                            for a, v in op[2]:
                                e = orc.expected(i, a)
                                if e is UNKNOWN or e is ABSENT:
                                    known = False
                                    break
                                if e != v or type(e) is not type(v):
                                    hit = False
                                    break
                            if not known:
                                break
                            if hit:
                                want.append(i)
                        if nm == 'sel1':
                            want = want[:1]
                        if known and want != res:
                            ref = orc.classes[K]['ref']
                            stale = ref is not None and any(a.upper() == ref.upper() for a, _ in op[2]) and \
                                any(orc.inst_kind[j] == K for j in pre_formal)
                            fail(LATE_SIG if stale else 'where-eq-differs', '%s(%r, where_eq(%s)) gave instances %r, the cells match for %r'
                                 % ('select_many' if nm == 'sel' else 'select_any', op[1], op[2], res, want), n)
                    else:
                        fail('unknown-class-found', 'select(%r) did not raise' % op[1], n)
                except x.UnknownClassException:
                    res = Sym('UnknownClass')
                    if K in orc.classes:
                        fail('class-lookup-case', 'select(%r) raised UnknownClassException although class %r is defined'
                             % (op[1], orc.classes[K]['kind']), n)
                except AttributeError:
                    res = Sym('AttributeError')
            elif nm in ('rel', 'unrel'):
                i, j = op[1], op[2]
                # the outcome the history determines (not taken from the implementation): the pair must be one instance of the
                # referring and one of the referred class; a referring instance has at most one partner
                want_ok = None
                if orc.assoc is not None and {orc.inst_kind[i], orc.inst_kind[j]} == {orc.assoc[0], orc.assoc[2]} \
                        and orc.assoc[0] != orc.assoc[2]:
                    b, a = (i, j) if orc.inst_kind[i] == orc.assoc[0] else (j, i)
                    cur = orc.link.get(b)
                    if cur is not UNKNOWN:
                        want_ok = (cur is None or cur == a) if nm == 'rel' else (cur == a)
                elif orc.assoc is None or orc.inst_kind[i] == orc.inst_kind[j]:
                    want_ok = False
                accepted = False
                try:
                    (x.relate if nm == 'rel' else x.unrelate)(insts[i], insts[j], 'R1')
                    accepted = True
                    _oracle_link(orc, nm, i, j)
                except (x.MetaException, AttributeError) as e:
                    # building a Relate/UnrelateException formats both instances (Class.__str__ reads every
                    # attribute): with a deleted attribute that raises AttributeError instead
                    res = _exc_name(e)
                if want_ok is not None and accepted != want_ok:
                    fail('relate-outcome', '%s(%d, %d) was %s, the links of the history (%r) require it to be %s'
                         % ('relate' if nm == 'rel' else 'unrelate', i, j, 'accepted' if accepted else 'rejected',
                            dict((k, v) for k, v in orc.link.items() if v is not UNKNOWN), 'accepted' if want_ok else 'rejected'), n)
                for t in {i, j}:
                    check_instance(t, n)
            elif nm == 'ser':
                i = op[1]
                try:
                    text = x.serialize_instance(insts[i])
                    vals = _parse_serialized(text, op[2])
                    res = [_canon(v) for v in vals]
                    for (a, ty), got in zip(orc.decl(i)['attrs'], vals):
                        want = orc.expected(i, a)
                        if want is UNKNOWN or want is ABSENT:
                            continue
                        if want is None:
                            want = _null_of(ty)
                        if got != want:
                            fail('serialized-differs', 'instance %d: serialize_instance wrote %r for %r, the cell holds %r'
                                 % (i, got, a, want), n)
                except AttributeError:
                    res = Sym('AttributeError')
            else:
                raise ValueError(nm)
        except IndexError:
            res = Sym('no-such-instance')        # only after shrinking removed a creation
        if isinstance(res, Sym) and res != 'ok':
            stats['result_' + str(res)] = stats.get('result_' + str(res), 0) + 1
        obs.append(res)
    state = [[[k, _canon(v)] for k, v in inst.__dict__.items()] for inst in insts]
    links = []
    if orc.assoc is not None:
        for ass in m.associations:
            for b, targets in ass.target_link.items():
                for a in targets:
                    links.append([index_of.get(id(b), -1), index_of.get(id(a), -1)])
    obs.append([Sym('state')] + state)
    obs.append([Sym('links')] + sorted(links))
    key = dumps(_ops_sexp(case['ops'])) + (case['sql'] if case['fam'] == 'load' else '')
    return {'obs': obs, 'd_fail': fails, 'nontrivial': nontrivial or (case['fam'] == 'exh' and _exh_nontrivial(case))
            or (case['fam'] == 'cls' and _cls_nontrivial(case)),
            'key': key, 'stats': stats}


def _cls_nontrivial(case):
    """some exact spelling of a kind is looked up both before and after the kind is defined"""
    before, defined = set(), set()
    for op in case['ops']:
        if op[0] == 'define':
            defined.add(op[1].upper())
        elif op[0] in LOOKUPS:
            if op[1].upper() in defined:
                if op[1] in before:
                    return True
            else:
                before.add(op[1])
    return False


def _exh_nontrivial(case):
    seen = {}
    for op in case['ops']:
        if op[0] == 'set':
            seen.setdefault(op[2].upper(), set()).add(op[2])
    return any(len(s) >= 2 for s in seen.values())


def _oracle_new(orc, i, op, inst, exc, written):
    d = orc.decl(i)
    attrs = d['attrs']
    ref = d['ref']
    given = {}
    for (a, _), v in zip(attrs, op[2]):
        given[a.upper()] = v
    for k, v in op[3]:
        for a, _ in attrs:
            if a.upper() == k.upper():
                given[a.upper()] = v
                if a != ref:
                    written.setdefault((i, a.upper()), set()).add(k)
    for a, t in attrs:
        if ref is not None and a == ref:
            continue
        # the initial state of the history is computed HERE, not read from the instance: the typed default of the declared
        # type (0, '', the next value of the integer generator - drawn for every unique id, supplied or not)
        T = t.upper()
        if T == 'UNIQUE_ID':
            default = orc.next_id
            orc.next_id += 1
        else:
            default = {'INTEGER': 0, 'STRING': ''}[T]
        orc.cells[(i, a.upper())] = given[a.upper()] if a.upper() in given else default
    orc.link[i] = None
    if ref is not None and ref.upper() in given and orc.assoc is not None:
        v = given[ref.upper()]
        ty = [t for a, t in attrs if a == ref][0].upper()
        null = v is None or (ty == 'UNIQUE_ID' and v == 0 and isinstance(v, int)) or (ty == 'STRING' and v == '')
        if not null:
            hits = []
            for a, k in enumerate(orc.inst_kind):
                if k != orc.assoc[2] or a == i:
                    continue
                c = orc.cells.get((a, orc.assoc[3]), UNKNOWN)
                if c is UNKNOWN or c is ABSENT:
                    orc.link[i] = UNKNOWN
                    return
                if c == v and type(c) is type(v):
                    hits.append(a)
            orc.link[i] = hits[0] if hits else None


def _oracle_batch(orc, spec):
    """Association.batch_relate() before formalize: every referring instance whose stored value is not null is linked to the
    instances of the referred class whose key holds that value"""
    src, ref, tgt, tkey = spec[0].upper(), spec[1], spec[2].upper(), spec[3].upper()
    ty = [t for a, t in orc.classes[src]['attrs'] if a == ref][0].upper()
    for b, k in enumerate(orc.inst_kind):
        if k != src:
            continue
        v = orc.cells.get((b, ref.upper()), UNKNOWN)
        if v is UNKNOWN or v is ABSENT:
            orc.link[b] = UNKNOWN
            continue
        if v is None or (ty == 'UNIQUE_ID' and v == 0) or (ty == 'STRING' and v == ''):
            continue
        hits, known = [], True
        for a, k2 in enumerate(orc.inst_kind):
            if k2 != tgt or a == b:
                continue
            c = orc.cells.get((a, tkey), UNKNOWN)
            if c is UNKNOWN or c is ABSENT:
                known = False
                break
            if c == v and type(c) is type(v):
                hits.append(a)
        orc.link[b] = hits[0] if (known and len(hits) == 1) else (None if known and not hits else UNKNOWN)


def _oracle_link(orc, nm, i, j):
    """a relate/unrelate that did not raise"""
    if orc.assoc is None:
        return
    if orc.inst_kind[i] == orc.assoc[0]:
        b, a = i, j
    else:
        b, a = j, i
    if orc.link.get(b) is UNKNOWN:
        return                # (several partners after a batch relate, or a failed creation: nothing is demanded any more)
    orc.link[b] = a if nm == 'rel' else None


# --------------------------------------------------------------------------- model side

def _ops_sexp(ops):
    out = []
    for op in ops:
        nm = op[0]
        if nm == 'define':
            out.append([Sym('define'), op[1]] + [[a, t] for a, t in op[2]])
        elif nm == 'new':
            out.append([Sym('new'), op[1], [Sym('args')] + list(op[2]), [Sym('kw')] + [[k, v] for k, v in op[3]]])
        elif nm == 'reads':
            out.append([Sym('reads'), op[1]] + list(op[2]))
        elif nm in ('sel', 'sel1'):                                     # select_any = first of select_many in the model
            out.append([Sym('sel'), op[1]] + [[k, v] for k, v in op[2]])
        elif nm == 'ser':
            out.append([Sym('ser'), op[1]])
        else:
            out.append([Sym(nm)] + list(op[1:]))
    return out


def model_line(case):
    if case['fam'] == 'load':
        return None          # D only: the history starts from what xtuml.ModelLoader built, which the model does not construct
    if case.get('uni'):
        return None          # D only: the model matches names as ASCII strings
    ops = case['ops']
    if case.get('late'):
        if any(op[0] == 'batch' for op in ops):
            return None      # D only: the model has no batch_relate
        # define_association alone changes nothing an operation of the history can see: for the model the association is
        # defined and formalised where the history formalises it
        spec = [op for op in ops if op[0] == 'assocdef']
        ops = [(['assoc'] + spec[0][1:] if op[0] == 'formalize' and spec else op) for op in ops if op[0] != 'assocdef']
    return dumps([Sym('attr')] + _ops_sexp(ops))


def model_obs(case, ans):
    out = list(ans)
    for n, op in enumerate(case['ops']):
        if op[0] == 'assocdef':
            out.insert(n, Sym('ok'))
        if op[0] == 'sel1' and isinstance(out[n], list):
            out[n] = out[n][:1]
        if op[0] == 'ser' and isinstance(out[n], list):
            out[n] = [(_null_of(ty) if v == Sym('none') else v) for v, ty in zip(out[n], op[2])]
    if out and isinstance(out[-1], list) and out[-1] and out[-1][0] == Sym('links'):
        out[-1] = [Sym('links')] + sorted(out[-1][1:])
    return out


def shrink_candidates(case):
    ops = case['ops']
    for i in range(len(ops) - 1, -1, -1):
        if ops[i][0] in ('define', 'assoc', 'new', 'assocdef', 'batch', 'formalize') and case['fam'] != 'cls':
            continue                      # (no op of the class-lookup family refers to an instance index)
        c = dict(case)
        c['ops'] = ops[:i] + ops[i + 1:]
        yield c
