"""Random schema + population generator for the persistence properties (owner: C01; others may import it).

  spec = gen_spec(rng, big=False)         JSON-able description of a metamodel and its population
  built = build(xtuml, spec)              builds it through the public API (define_class, define_association,
                                          define_unique_identifier, new, setattr, relate)  ->  Built(m, insts, asses)
  dump(xtuml, m)                          canonical, order-independent description of a metamodel
                                          (classes, attribute types upper-cased, associations, identifiers,
                                          rows per class in order, link pairs) for comparing two metamodels

The spec stays inside the persistable domain of the SQL dialect:
  * identifiers `[A-Za-z_][A-Za-z0-9_]*`, drawn also from the dialect's reserved words and `M`/`MC`, never with a
    prefix `R<digit>` (those lex as RELID), never `__x__` (those collide with Python object internals);
    class kinds unique ignoring case, attribute names unique per class ignoring case
  * attribute types: the five core types in any letter case
  * populations whose referential values resolve: every source instance is linked to at most one target
    per association (in a reflexive association possibly to itself); single identifying attributes of every
    instance of a referred-to class carry non-null values that are unique within the class; composite keys
    (2-3 attributes of one type) carry non-null value TUPLES that are unique within the class, drawn from a tiny
    pool so that tuples which are permutations of each other occur; identifying attributes are never referential
"""
import decimal
from collections import namedtuple

CORE = ['BOOLEAN', 'INTEGER', 'REAL', 'STRING', 'UNIQUE_ID']
RESERVED = ['CREATE', 'FALSE', 'FROM', 'INDEX', 'INSERT', 'INTO', 'ON', 'PHRASE', 'REF_ID', 'ROP', 'TABLE', 'TO',
            'TRUE', 'UNIQUE', 'VALUES']
PLAIN = ['A', 'B', 'Dog', 'Owner', 'x', 'x1', 'Name', 'Id', 'ID', 'n_2', '_t', '_', 'a_b_c', 'Z9', 'R', 'Rx', 'r1', 'R_1',
         'C', 'c1', 'Key', 'val', 'Kind', 'Type', 'class', 'None', 'self', 'q', 'W', 'E1', 'long_identifier_name_0123456789']
CARDWORDS = ['M', 'MC', 'm', 'mc', 'Mc']
# words that are NOT reserved by the loader but are keywords of SQL dialects, of the grammar's neighbourhood or of the type
# vocabulary: identifiers as good as any other (a loader that starts to reserve one of them must keep reading it as a name)
NEAR_KEYWORDS = ['NULL', 'NIL', 'NONE', 'DEFAULT', 'KEY', 'PRIMARY', 'FOREIGN', 'REFERENCES', 'NOT', 'AND', 'OR', 'IS', 'IN', 'AS',
                 'BY', 'SELECT', 'DELETE', 'UPDATE', 'DROP', 'ALTER', 'WHERE', 'SET', 'ADD', 'COLUMN', 'CONSTRAINT', 'CHECK',
                 'BEGIN', 'END', 'COMMIT', 'VALUE', 'ID', 'REF', 'ROP_ID', 'REFID', 'REL', 'UNIQUE_INDEX', 'TABLES', 'IDENTIFIER',
                 'INTEGER', 'STRING', 'REAL', 'BOOLEAN', 'UNIQUE_ID', 'INT', 'BOOL', 'FLOAT', 'TEXT', 'DATE', 'TIMESTAMP',
                 'INST_REF', 'VOID', 'SAME_AS', 'YES', 'NO', 'T', 'F', 'INF', 'NAN', 'E', 'X', 'URN', 'UUID']

# text that is NOT in Unicode normal form C (combining sequences, compatibility-equivalent signs, decomposed Hangul jamo, NFD
# forms of precomposed letters): a loader that normalises its input alters it
NON_NFC = ['e\u0301', 'A\u030a', '\u212b', '\u2126', '\u212a', '\u1112\u1161\u11ab', 'o\u0308\u0323', '\u0041\u0300\u0301', 'n\u0303a']
STR_PIECES = NON_NFC + ["'", "''", "'''", "--", "-- x", "\n", "\n\n", "\x00", "é", "日本", "\U0001F600", "\\", '"',
              "a", "b c", " ", "\t", ");", "INSERT INTO", ",", "%s", "%d", "(", "-", "'--'", "\n--\n'", "ß", "0", "1.5",
              "\"x\"", "\\'", "''\n''", "\x7f", "ı", " ", "\r", "\r\n", "a\rb", "\r'"]
INT_VALUES = [0, 1, -1, 7, -42, 255, 256, 2 ** 31 - 1, 2 ** 31, -2 ** 31, 2 ** 53 - 1, 2 ** 53, 2 ** 53 + 1, -(2 ** 53 + 1), 2 ** 63 - 1,
              2 ** 63, 2 ** 63 + 1, -2 ** 63, -2 ** 63 - 1, 2 ** 64 - 1, 2 ** 64, 2 ** 64 + 1,
              10 ** 30, -10 ** 40, 2 ** 128, 10 ** 100 + 1]
ID_VALUES = [0, 1, 2, 255, 2 ** 32, 2 ** 64 - 1, 2 ** 64, 2 ** 127, 2 ** 128 - 1, 0x0123456789abcdef0123456789abcdef]
REAL_VALUES = [0.0, -0.0, 1.5, -2.25, 0.1, -0.1, 1e10 + 0.5, 123456789.123456, 0.0000005, 0.0000015, 2.5e-6, 0.1234565,
               0.1234575, 1e-7, -1e-7, 4.9e-7, 5.1e-7, 1e22, -1e22, 1e300, -1.7976931348623157e308, 5e-324, 1 / 3.0, -2 / 3.0,
               999999.9999995, 1e15 + 0.3, 0.999999499999, 0.9999995, 3.0, 1e6, 16777217.0]

Built = namedtuple('Built', 'm insts asses')


def _case_variant(rng, word):
    k = rng.randint(0, 4)
    if k == 0:
        return word.upper()
    if k == 1:
        return word.lower()
    if k == 2:
        return word.capitalize()
    if k == 3:
        return ''.join(ch.upper() if rng.random() < 0.5 else ch.lower() for ch in word)
    return word


def bad_identifier(name):
    """outside the persistable domain: RELID prefix or dunder"""
    if len(name) >= 2 and name[0] == 'R' and name[1].isdigit():
        return True
    if len(name) >= 4 and name.startswith('__') and name.endswith('__'):
        return True
    return False


def gen_identifier(rng, taken_upper):
    """an identifier whose upper-case form is not in `taken_upper` (which is updated)"""
    for _ in range(200):
        r = rng.random()
        if r < 0.30:
            name = _case_variant(rng, rng.choice(RESERVED))
        elif r < 0.40:
            name = rng.choice(CARDWORDS)
        elif r < 0.85:
            name = rng.choice(PLAIN)
        else:
            first = rng.choice('ABCDEFGHIJKLMNOPQSTUVWXYZabcdefghijklmnopqrstuvwxyz_')
            name = first + ''.join(rng.choice('abcXYZ019_') for _ in range(rng.randint(0, 6)))
        if bad_identifier(name) or name.upper() in taken_upper:
            continue
        # one name in twelve becomes a near-keyword in some letter case; drawn from a PRNG of its own (forked on what was drawn
        # so far), so that all other names stay what they were
        if hasattr(rng, 'fork'):
            side = rng.fork('near-keyword', name, len(taken_upper), '/'.join(sorted(taken_upper))[:200])
            if side.random() < 1 / 12.0:
                alt = _case_variant(side, side.choice(NEAR_KEYWORDS + ['NULL'] * 6))
                if alt.upper() not in taken_upper and not bad_identifier(alt):
                    name = alt
        taken_upper.add(name.upper())
        return name
    i = 0
    while ('N%d' % i) in taken_upper:
        i += 1
    taken_upper.add('N%d' % i)
    return 'N%d' % i


def gen_type(rng, core=None):
    return _case_variant(rng, core or rng.choice(CORE))


def gen_phrase(rng):
    """a non-empty association phrase: any text the STRING token can carry (quotes, doubled quotes, comment markers,
    newlines, carriage returns, NUL, non-ASCII, punctuation of the dialect)"""
    r = rng.random()
    if r < 0.4:
        return rng.choice(['precedes', 'succeeds', 'is parent of', 'is child of', 'owns', 'x', 'one', 'other'])
    if r < 0.7:
        pieces = ['is', ' ', 'a', '--', '\n', ',', ')', '(', ';', 'M', '1C', '%s', 'é', '"', '-', 'R1', '0', "'", "''", "owner's"]
        return ''.join(rng.choice(pieces) for _ in range(rng.randint(1, 5)))
    return ''.join(rng.choice(STR_PIECES) for _ in range(rng.randint(1, 4))) or "'"


def gen_value(rng, core, hazard=0.7):
    """a value of the core type (None = unset), weighted towards the hazards of the text format"""
    if rng.random() < 0.12:
        return None
    if core == 'BOOLEAN':
        return rng.random() < 0.5
    if core == 'INTEGER':
        if rng.random() < hazard:
            return rng.choice(INT_VALUES)
        return rng.randint(-10 ** rng.randint(1, 40), 10 ** rng.randint(1, 40))
    if core == 'REAL':
        if rng.random() < hazard:
            return rng.choice(REAL_VALUES)
        v = rng.uniform(-1, 1) * 10 ** rng.randint(-8, 18)
        return v
    if core == 'STRING':
        if rng.random() < 0.1:
            return ''
        return ''.join(rng.choice(STR_PIECES) for _ in range(rng.randint(1, 6)))
    if core == 'UNIQUE_ID':
        if rng.random() < hazard:
            return rng.choice(ID_VALUES)
        return rng.getrandbits(rng.choice([8, 64, 128]))
    raise ValueError(core)


def gen_key_value(rng, core, used):
    """a non-null value of the core type that is not in `used` (a set of canonical keys, updated)"""
    for _ in range(1000):
        if core == 'INTEGER':
            v = rng.choice(INT_VALUES) if rng.random() < 0.4 else rng.randint(-10 ** 6, 10 ** 6)
            bad = (v == 0)
            key = v
        elif core == 'UNIQUE_ID':
            v = rng.choice(ID_VALUES) if rng.random() < 0.4 else rng.getrandbits(rng.choice([16, 128]))
            bad = (v == 0)
            key = v
        elif core == 'STRING':
            v = ''.join(rng.choice(STR_PIECES) for _ in range(rng.randint(1, 4)))
            bad = (v == '')
            key = v
        elif core == 'REAL':
            v = float(rng.randint(-10 ** 6, 10 ** 6)) / 8.0
            bad = (v == 0.0)
            key = v
        else:
            raise ValueError(core)
        if not bad and key not in used:
            used.add(key)
            return v
    raise ValueError('no fresh key value')


KEY_TYPES = ['INTEGER', 'UNIQUE_ID', 'STRING', 'UNIQUE_ID', 'INTEGER', 'REAL']


def gen_spec(rng, big=False):
    """one random metamodel description"""
    ncls = rng.randint(1, 5)
    kinds_taken = set()
    work = []            # per class: kind, names (upper, taken), attrs = [{'name','type','role'}], idents
    for _ in range(ncls):
        kind = gen_identifier(rng, kinds_taken)
        names = set()
        attrs = [{'name': gen_identifier(rng, names), 'type': gen_type(rng), 'role': 'plain'}
                 for _ in range(rng.randint(0, 6))]
        work.append({'kind': kind, 'names': names, 'attrs': attrs, 'idents': []})

    def key_attrs(ci, n):
        """n identifying (never referential) attributes of class ci, existing ones reused or new ones inserted"""
        c = work[ci]
        pool = [a for a in c['attrs'] if a['role'] == 'key']
        rng.shuffle(pool)
        out = []
        while len(out) < n:
            if pool and rng.random() < 0.6:
                out.append(pool.pop())
                continue
            a = {'name': gen_identifier(rng, c['names']), 'type': gen_type(rng, rng.choice(KEY_TYPES)), 'role': 'key'}
            c['attrs'].insert(rng.randint(0, len(c['attrs'])), a)
            out.append(a)
        return out

    assocs = []
    relno = [rng.randint(1, 3)]

    def next_rel():
        n = relno[0]
        relno[0] += rng.choice([1, 1, 2, 9, 10])
        return n

    ngroups = [0]

    def composite_key_attrs(ci, n):
        """n new identifying attributes of ONE type forming a composite key whose value tuples come from a tiny pool,
        so that tuples which are permutations of each other occur among the instances"""
        c = work[ci]
        core = rng.choice(['INTEGER', 'INTEGER', 'STRING', 'UNIQUE_ID'])
        ngroups[0] += 1
        out = []
        for _ in range(n):
            a = {'name': gen_identifier(rng, c['names']), 'type': gen_type(rng, core), 'role': 'ckey', 'group': ngroups[0]}
            c['attrs'].insert(rng.randint(0, len(c['attrs'])), a)
            out.append(a)
        return out

    def mk_assoc(rel, src_ci, tgt_ci, nkeys, src_many, src_cond, tgt_many, tgt_cond, src_phrase, tgt_phrase, composite=False):
        tgt = composite_key_attrs(tgt_ci, nkeys) if composite else key_attrs(tgt_ci, nkeys)
        c = work[src_ci]
        src_names = []
        for t in tgt:
            a = {'name': gen_identifier(rng, c['names']), 'type': gen_type(rng, t['type'].upper()), 'role': 'ref'}
            c['attrs'].insert(rng.randint(0, len(c['attrs'])), a)
            src_names.append(a['name'])
        assocs.append({'rel': rel,
                       'src': {'ci': src_ci, 'keys': src_names, 'many': src_many, 'cond': src_cond, 'phrase': src_phrase},
                       'tgt': {'ci': tgt_ci, 'keys': [t['name'] for t in tgt], 'many': tgt_many, 'cond': tgt_cond,
                               'phrase': tgt_phrase}})

    for _ in range(rng.randint(0, 4)):
        shape = rng.choice(['simple', 'simple', 'reflexive', 'assoc-class', 'subtype', 'composite', 'composite'])
        if shape == 'composite':
            # an association over a composite key (2-3 attributes of one type), possibly reflexive
            t = rng.randrange(ncls)
            s_ = rng.randrange(ncls)
            if s_ == t:
                p1 = gen_phrase(rng)
                p2 = p1 + ' back'
            else:
                p1 = p2 = ''
            mk_assoc(next_rel(), s_, t, rng.choice([2, 2, 3]), rng.random() < 0.7, True, False, rng.random() < 0.5 or s_ == t,
                     p1, p2, composite=True)
            continue
        if shape == 'simple' and ncls >= 2:
            s, t = rng.sample(range(ncls), 2)
            ph = rng.random() < 0.25
            mk_assoc(next_rel(), s, t, rng.choice([1, 1, 1, 2]), rng.random() < 0.6, rng.random() < 0.5,
                     rng.random() < 0.15, rng.random() < 0.5,
                     gen_phrase(rng) if ph else '', gen_phrase(rng) if ph and rng.random() < 0.7 else '')
        elif shape == 'reflexive':
            c = rng.randrange(ncls)
            p1 = gen_phrase(rng)
            p2 = gen_phrase(rng)
            while p2 == p1:
                p2 = gen_phrase(rng) + '2'
            mk_assoc(next_rel(), c, c, 1, rng.random() < 0.5, True, False, True, p1, p2)
        elif shape == 'assoc-class' and ncls >= 3:
            ac, a, b = rng.sample(range(ncls), 3)
            rel = next_rel()
            mk_assoc(rel, ac, a, 1, rng.random() < 0.7, rng.random() < 0.5, False, False, '', '')
            mk_assoc(rel, ac, b, rng.choice([1, 2]), rng.random() < 0.7, rng.random() < 0.5, False, False, '', '')
        elif shape == 'subtype' and ncls >= 2:
            sup = rng.randrange(ncls)
            subs = [i for i in range(ncls) if i != sup]
            rng.shuffle(subs)
            rel = next_rel()
            for sub in subs[:rng.randint(1, 3)]:
                mk_assoc(rel, sub, sup, 1, False, True, False, False, '', '')

    # unique identifiers: any attribute names of the class (identifying or not), index names I<n> or free
    for c in work:
        inames = set()
        for _ in range(rng.randint(0, 3)):
            if not c['attrs']:
                break
            idx = rng.sample(range(len(c['attrs'])), rng.randint(1, min(3, len(c['attrs']))))
            nm = 'I%d' % rng.randint(1, 4) if rng.random() < 0.7 else gen_identifier(rng, set(x.upper() for x in inames))
            if nm in inames:
                continue
            inames.add(nm)
            c['idents'].append([nm, [c['attrs'][i]['name'] for i in idx]])

    # population: rows in one global creation order
    maxrows = 12 if big else 4
    rows = []
    used = {}
    per_class = [[] for _ in work]
    order = []
    for ci in range(ncls):
        order += [ci] * rng.randint(0, maxrows)
    rng.shuffle(order)
    POOLS = {'INTEGER': [1, 2, 3, -1], 'STRING': ['a', 'b', "'", 'ab'], 'UNIQUE_ID': [1, 2, 3, 2 ** 64]}
    tuples = {}          # (class, group) -> unused value tuples, a tuple directly followed by a permutation of it

    def next_tuple(ci, group, cores):
        key = (ci, group)
        if key not in tuples:
            import itertools
            allt = list(itertools.product(POOLS[cores[0]], repeat=len(cores)))
            rng.shuffle(allt)
            seen, seq = set(), []
            for t in allt:
                if t in seen:
                    continue
                seen.add(t)
                seq.append(t)
                perms = [p for p in set(itertools.permutations(t)) if p not in seen]
                perms.sort(key=repr)
                rng.shuffle(perms)
                for p in perms[:2]:
                    seen.add(p)
                    seq.append(p)
            tuples[key] = seq
        return tuples[key].pop(0)

    for ci in order:
        vals = []
        groupvals = {}
        for a in work[ci]['attrs']:
            if a['role'] == 'ckey' and a['group'] not in groupvals:
                members = [b for b in work[ci]['attrs'] if b.get('group') == a['group']]
                groupvals[a['group']] = dict(zip([id(b) for b in members],
                                                 next_tuple(ci, a['group'], [b['type'].upper() for b in members])))
        for ai, a in enumerate(work[ci]['attrs']):
            core = a['type'].upper()
            if a['role'] == 'ref':
                vals.append(None)            # referential: read through the link
            elif a['role'] == 'ckey':
                vals.append(groupvals[a['group']][id(a)])
            elif a['role'] == 'key':
                vals.append(gen_key_value(rng, core, used.setdefault((ci, ai), set())))
            else:
                vals.append(gen_value(rng, core))
        per_class[ci].append(len(rows))
        rows.append({'ci': ci, 'vals': vals})

    links = []
    for ai, a in enumerate(assocs):
        srcs = list(per_class[a['src']['ci']])
        tgts = list(per_class[a['tgt']['ci']])
        if not srcs or not tgts:
            continue
        rng.shuffle(srcs)
        load = {}
        for s in srcs:
            if rng.random() < 0.3:
                continue                     # stays unlinked
            cands = [t for t in tgts if (a['src']['many'] or load.get(t, 0) == 0)]
            if not cands:
                continue
            if a['src']['ci'] == a['tgt']['ci'] and s in cands and rng.random() < 0.35:
                t = s                        # an instance that refers to itself (e.g. a root that is its own parent)
            else:
                t = rng.choice(cands)
            load[t] = load.get(t, 0) + 1
            links.append({'assoc': ai, 'src': s, 'tgt': t})

    classes = [{'kind': c['kind'], 'attrs': [[a['name'], a['type']] for a in c['attrs']], 'idents': c['idents'],
                'roles': [a['role'] for a in c['attrs']]} for c in work]
    spec = {'classes': classes, 'assocs': assocs, 'rows': rows, 'links': links, 'int_rel_ids': rng.random() < 0.5}
    # the documented build order of the meta API: instances with referential VALUES first, then define_association +
    # batch_relate + formalize, then links re-wired with unrelate / relate.  `prelinks` are the links the stored values
    # denote at formalisation time, `links` stays the final state.
    if assocs and rows and rng.random() < 0.4:
        final = {(l['assoc'], l['src']): l['tgt'] for l in links}
        prelinks = []
        for ai, a in enumerate(assocs):
            tgts = list(per_class[a['tgt']['ci']])
            for s in per_class[a['src']['ci']]:
                cur = final.get((ai, s))
                r = rng.random()
                if r < 0.45:
                    t = cur                                  # unchanged
                elif r < 0.85 and tgts:
                    t = rng.choice(tgts)                     # moved (or newly linked / self-linked) later
                else:
                    t = None                                 # linked only later, or never
                if t is not None:
                    prelinks.append({'assoc': ai, 'src': s, 'tgt': t})
        spec['prelinks'] = prelinks
    return spec


def _check_linked(ass, src, tgt):
    if src not in ass.source_link.get(tgt, ()) or tgt not in ass.target_link.get(src, ()):
        raise ValueError('the intended instances are not linked across %s' % ass.rel_id)


def build(xtuml, spec):
    """the metamodel of a spec, built through the public API only.  Without `prelinks`: classes, associations,
    instances, relate.  With `prelinks` (the documented order of the meta API): classes, instances holding the
    referential VALUES of their pre-links, then define_association + batch_relate + formalize, then the links are
    re-wired to the final state with unrelate / relate."""
    m = xtuml.MetaModel(xtuml.IntegerGenerator())
    for c in spec['classes']:
        m.define_class(c['kind'], [tuple(a) for a in c['attrs']])
    pre = spec.get('prelinks')
    insts = []

    def new_rows(skip_referential):
        for r in spec['rows']:
            c = spec['classes'][r['ci']]
            inst = m.new(c['kind'])
            mc = xtuml.get_metaclass(inst)
            for (nm, ty), v in zip(c['attrs'], r['vals']):
                if skip_referential and nm in mc.referential_attributes:
                    continue
                setattr(inst, nm, v)
            insts.append(inst)

    if pre is not None:
        new_rows(False)
        for l in pre:
            a = spec['assocs'][l['assoc']]
            tc = spec['classes'][a['tgt']['ci']]
            names = [x[0] for x in tc['attrs']]
            for sk, tk in zip(a['src']['keys'], a['tgt']['keys']):
                setattr(insts[l['src']], sk, spec['rows'][l['tgt']]['vals'][names.index(tk)])
    asses = []
    for a in spec['assocs']:
        rel = a['rel'] if spec.get('int_rel_ids') else 'R%d' % a['rel']
        s, t = a['src'], a['tgt']
        ass = m.define_association(rel, spec['classes'][s['ci']]['kind'], list(s['keys']), s['many'], s['cond'], s['phrase'],
                                   spec['classes'][t['ci']]['kind'], list(t['keys']), t['many'], t['cond'], t['phrase'])
        if pre is not None:
            ass.batch_relate()
        ass.formalize()
        asses.append(ass)
    for c in spec['classes']:
        for nm, attrs in c['idents']:
            m.define_unique_identifier(c['kind'], nm, *attrs)
    if pre is None:
        new_rows(True)
    final = set((l['assoc'], l['src'], l['tgt']) for l in spec['links'])
    before = set((l['assoc'], l['src'], l['tgt']) for l in (pre or []))
    for l in (pre or []):
        ass = asses[l['assoc']]
        _check_linked(ass, insts[l['src']], insts[l['tgt']])
        if (l['assoc'], l['src'], l['tgt']) not in final:
            xtuml.unrelate(insts[l['tgt']], insts[l['src']], ass.rel_id, spec['assocs'][l['assoc']]['tgt']['phrase'])
    for l in spec['links']:
        if (l['assoc'], l['src'], l['tgt']) in before:
            continue
        a = spec['assocs'][l['assoc']]
        ass = asses[l['assoc']]
        src, tgt = insts[l['src']], insts[l['tgt']]
        # relate(target instance, source instance, rel, target phrase) selects `source_link` of exactly this association
        xtuml.relate(tgt, src, ass.rel_id, a['tgt']['phrase'])
    for l in spec['links']:
        _check_linked(asses[l['assoc']], insts[l['src']], insts[l['tgt']])
    return Built(m, insts, asses)


# --------------------------------------------------------------------------- canonical dump (oracle side)

_CTX = decimal.Context(prec=5000, rounding=decimal.ROUND_HALF_EVEN)
_Q = decimal.Decimal('0.000001')


def dec6(v):
    """the six-decimal rounding of a float as an exact decimal (independent of '%f')"""
    return _CTX.quantize(decimal.Decimal(v), _Q)


def dec6_parts(v):
    """(negative?, millionths) of the six-decimal rounding of a float"""
    sign, digits, exp = dec6(v).as_tuple()
    assert exp == -6
    return bool(sign), int(''.join(str(d) for d in digits))


NULLS = {'BOOLEAN': False, 'INTEGER': 0, 'REAL': 0.0, 'STRING': '', 'UNIQUE_ID': 0}


def canon_value(v, ty):
    """canonical form of an attribute value: unset == the null value of the type; reals to six decimals"""
    core = ty.upper()
    if v is None:
        v = NULLS.get(core)
    if core == 'REAL' and isinstance(v, (int, float)) and not isinstance(v, bool):
        d = dec6(v)
        return ['real', str(d if d != 0 else abs(d))]
    if core == 'BOOLEAN' and isinstance(v, (bool, int)):
        return ['bool', bool(v)]
    if isinstance(v, bool):
        return ['bool', v]
    if isinstance(v, int):
        return ['int', v]
    if isinstance(v, str):
        return ['str', v]
    return ['other', repr(v)]


def dump(xtuml, m, with_links=True):
    """order-independent canonical description of a metamodel"""
    classes = {}
    index_of = {}
    for ukind, mc in m.metaclasses.items():
        rows = []
        for i, inst in enumerate(mc.storage):
            index_of[id(inst)] = (ukind, i)
            rows.append([canon_value(getattr(inst, nm), ty) for nm, ty in mc.attributes])
        classes[ukind] = {
            'kind_upper': mc.kind.upper(),
            'attrs': [[nm, ty.upper()] for nm, ty in mc.attributes],
            'idents': sorted([nm, list(attrs)] for nm, attrs in mc.indices.items()),
            'rows': rows,
        }
    assocs = []
    for ass in m.associations:
        sl, tl = ass.source_link, ass.target_link
        d = {'rel': ass.rel_id,
             'src': [sl.to_metaclass.kind.upper(), list(ass.source_keys), bool(sl.many), bool(sl.conditional), tl.phrase],
             'tgt': [tl.to_metaclass.kind.upper(), list(ass.target_keys), bool(tl.many), bool(tl.conditional), sl.phrase]}
        if with_links:
            fwd = set()
            for src in sl.to_metaclass.storage:
                for tgt in tl.navigate(src):
                    fwd.add((index_of.get(id(src)), index_of.get(id(tgt))))
            bwd = set()
            for tgt in tl.to_metaclass.storage:
                for src in sl.navigate(tgt):
                    bwd.add((index_of.get(id(src)), index_of.get(id(tgt))))
            d['links'] = sorted([list(a), list(b)] for a, b in fwd)
            d['links_back'] = sorted([list(a), list(b)] for a, b in bwd)
        assocs.append(d)
    assocs.sort(key=lambda d: repr((d['rel'], d['src'], d['tgt'])))
    return {'classes': classes, 'assocs': assocs}


def spec_dump(spec):
    """the canonical description (the form of `dump`) computed from the SPEC alone, without any metamodel: what was put in.
    Classes, attribute lists and identifiers as declared; rows per class in creation order; a plain / identifying attribute
    holds the given value; a referential attribute reads the identifying value of the instance linked across its association
    (the association formalised last first), the null value when there is none; links as listed."""
    classes_in = spec['classes']
    ukind = [c['kind'].upper() for c in classes_in]
    local = {}
    count = [0] * len(classes_in)
    for ri, r in enumerate(spec['rows']):
        local[ri] = count[r['ci']]
        count[r['ci']] += 1
    # referential attribute -> [(association index, target key name)], later associations first
    refs = {}
    for ai, a in enumerate(spec['assocs']):
        for sk, tk in zip(a['src']['keys'], a['tgt']['keys']):
            refs.setdefault((a['src']['ci'], sk), []).insert(0, (ai, tk))
    link_of = {}
    for l in spec['links']:
        link_of.setdefault((l['assoc'], l['src']), l['tgt'])

    def value(ri, name, depth=0):
        r = spec['rows'][ri]
        names = [a[0] for a in classes_in[r['ci']]['attrs']]
        for ai, tk in refs.get((r['ci'], name), []) if depth < 50 else []:
            t = link_of.get((ai, ri))
            if t is not None:
                return value(t, tk, depth + 1)
        if (r['ci'], name) in refs:
            return None
        return r['vals'][names.index(name)]

    classes = {}
    for ci, c in enumerate(classes_in):
        idents = {}
        for nm, attrs in c['idents']:
            if attrs:
                idents['I%d' % nm if isinstance(nm, int) else nm] = list(attrs)
        classes[ukind[ci]] = {'kind_upper': ukind[ci], 'attrs': [[nm, ty.upper()] for nm, ty in c['attrs']],
                              'idents': sorted([nm, attrs] for nm, attrs in idents.items()), 'rows': []}
    for ri, r in enumerate(spec['rows']):
        c = classes_in[r['ci']]
        classes[ukind[r['ci']]]['rows'].append([canon_value(value(ri, nm), ty) for nm, ty in c['attrs']])
    assocs = []
    for ai, a in enumerate(spec['assocs']):
        s, t = a['src'], a['tgt']
        pairs = sorted(set(((ukind[s['ci']], local[l['src']]), (ukind[t['ci']], local[l['tgt']]))
                           for l in spec['links'] if l['assoc'] == ai))
        links = [[list(x), list(y)] for x, y in pairs]
        assocs.append({'rel': 'R%d' % a['rel'],
                       'src': [ukind[s['ci']], list(s['keys']), bool(s['many']), bool(s['cond']), s['phrase']],
                       'tgt': [ukind[t['ci']], list(t['keys']), bool(t['many']), bool(t['cond']), t['phrase']],
                       'links': links, 'links_back': links})
    assocs.sort(key=lambda d: repr((d['rel'], d['src'], d['tgt'])))
    return {'classes': classes, 'assocs': assocs}


def diff(a, b, path=''):
    """first difference between two dumps as a short text, or None"""
    if type(a) != type(b):
        return '%s: %r vs %r' % (path, a, b)
    if isinstance(a, dict):
        for k in sorted(set(a) | set(b)):
            if k not in a or k not in b:
                return '%s/%s: present on one side only' % (path, k)
            d = diff(a[k], b[k], '%s/%s' % (path, k))
            if d:
                return d
        return None
    if isinstance(a, list):
        if len(a) != len(b):
            return '%s: %d vs %d entries (%r vs %r)' % (path, len(a), len(b), a[:4], b[:4])
        for i, (x, y) in enumerate(zip(a, b)):
            d = diff(x, y, '%s[%d]' % (path, i))
            if d:
                return d
        return None
    if a != b:
        return '%s: %r vs %r' % (path, a, b)
    return None


# --------------------------------------------------------------------------- loader observables (shared by C01 / C12)

OBS_UNAVAILABLE = set()          # "Class.field" of internal fields of /repo that the observation code could not read


def field(obj, name, default=None):
    """an INTERNAL field of an object of /repo (statement classes are not exported): a missing field must not crash the
    harness -- the environment fingerprint reports the rename as a broken tie --, it yields `default` / a canonical marker
    and is noted in OBS_UNAVAILABLE"""
    try:
        return getattr(obj, name)
    except AttributeError:
        OBS_UNAVAILABLE.add('%s.%s' % (type(obj).__name__, name))
        if default is not None:
            return default
        from sexp import Sym
        return Sym('unavailable:%s' % name)


def _seq(v):
    return list(v) if isinstance(v, (list, tuple)) else v


def stmt_dump(s):
    """one parsed statement as the s-expression the Lean driver prints for it"""
    from sexp import Sym
    n = type(s).__name__
    f = lambda name: field(s, name)
    if n == 'CreateClassStmt':
        attrs = f('attributes')
        return [Sym('table'), f('kind'), [list(a) for a in attrs] if isinstance(attrs, (list, tuple)) else attrs]
    if n == 'CreateAssociationStmt':
        return [Sym('rop'), f('rel_id'), f('source_kind'), f('source_cardinality'), _seq(f('source_keys')), f('source_phrase'),
                f('target_kind'), f('target_cardinality'), _seq(f('target_keys')), f('target_phrase')]
    if n == 'CreateUniqueStmt':
        return [Sym('index'), f('kind'), f('name'), _seq(f('attributes'))]
    if n == 'CreateInstanceStmt':
        names = field(s, 'names', Sym('unavailable:names')) if not hasattr(s, 'names') else s.names
        return [Sym('insert'), f('kind'), _seq(f('values')), Sym('none') if names is None else _seq(names)]
    return [Sym('unknown-statement'), n]


def uc_table(texts):
    """Python's view of the non-ASCII characters of the texts: (code, is \\d, is \\w, upper-case code points, int(ch) of a
    \\d character -- what float() reads it as)"""
    import re
    from sexp import Sym
    seen = sorted(set(ch for t in texts for ch in t if ord(ch) >= 128))
    rows = []
    for ch in seen:
        isd = bool(re.match(r'\d', ch))
        rows.append([ord(ch), Sym('T') if isd else Sym('F'), Sym('T') if re.match(r'[\w_]', ch) else Sym('F'),
                     [ord(c) for c in ch.upper()], int(ch) if isd else 0])
    return rows


# --------------------------------------------------------------------------- the real PLY lexer (shared by C01 / C12)

_lexargs = None


def real_tokens(xtuml, text):
    """the token stream of the REAL PLY lexer of the loader on `text`, in the compact form the Lean driver prints: the token
    types in one string and a 64-bit polynomial digest of the lexemes; `illegal` when t_error raised.  The lexer is built
    exactly as ModelLoader.input builds it."""
    global _lexargs
    import logging
    import os
    from ply import lex
    from sexp import Sym
    if _lexargs is None:
        # loggers are addressed by NAME (the module-level variable that holds the logger is an internal of /repo)
        log = logging.getLogger('xtuml.load')
        _lexargs = dict(debuglog=log, errorlog=log, optimize=1,
                        outputdir=os.path.dirname(os.path.abspath(xtuml.__file__)), lextab='xtuml.__xtuml_lextab')
    lexer = lex.lex(module=xtuml.ModelLoader(), **_lexargs)
    lexer.filename = '<string>'
    lexer.input(text)
    types = []
    h = 7
    try:
        while True:
            t = lexer.token()
            if t is None:
                return [' '.join(types), h]
            types.append(t.type)
            for ch in t.value:
                h = (h * 1000003 + ord(ch) + 1) & 0xFFFFFFFFFFFFFFFF
            h = (h * 1000003) & 0xFFFFFFFFFFFFFFFF
    except xtuml.ParsingException:
        return Sym('illegal')

