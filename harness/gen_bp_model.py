"""BridgePoint model text (ooaofooa rows as INSERT statements) for property C15.

`model_sql(spec, rng)` turns a JSON-able description of classes (with attributes, derived attributes, class- and
instance-based operations), functions, external entities with bridges, enumerations (modeled enumerator order) and
constants into the rows `bridgepoint.ooaofooa.mk_component` reads:

    O_OBJ, O_ATTR (R103 chain through PAttr_ID), O_BATTR, O_NBATTR, O_DBATTR, O_RATTR, O_TFR, O_TPARM,
    O_ID, O_OIDA, R_REL, R_SIMP, R_OIR, R_RGO, R_FORM, R_RTO, R_PART, O_RTIDA, O_REF (simple associations),
    S_SYNC, S_SPARM, S_EE, S_BRG, S_BPARM, S_DT, S_EDT, S_ENUM (R56 chain through Previous_Enum_ID),
    CNST_CSP, CNST_SYC, CNST_LFSC, CNST_LSC, and one EP_PKG with a PE_PE per packageable element.

The statements are emitted in a PERMUTED order (the property demands independence of the row order); the order
that carries meaning (attributes, enumerators) lives in the R103 / R56 chains only.
Column lists follow bridgepoint/schema.py (positional INSERTs).
"""

DT = {'void': 0, 'boolean': 1, 'integer': 2, 'real': 3, 'string': 4, 'unique_id': 5}
DT_BASE = 0xba5eda7adef500000000000000000000
NULL = 0


def _uuid(n):
    h = '%032x' % n
    return '"%s-%s-%s-%s-%s"' % (h[:8], h[8:12], h[12:16], h[16:20], h[20:])


def _dt(name):
    return _uuid(DT_BASE + DT[name])


def _s(text):
    return "'%s'" % text.replace("'", "''")


class Ids(object):
    def __init__(self, base=0x1000):
        self.n = base

    def next(self):
        self.n += 1
        return self.n


def model_sql(spec, rng=None):
    """spec = {'classes': [{'name','attrs': [(name, ty)], 'derived': [(name, ty, text)],
                            'ops': [(name, instance_based, ret_ty, [(pname, pty)], text)]}],
               'assocs': [(numb, src_cls, ref_attr, src_many, src_cond, tgt_cls, id_attr, tgt_many, tgt_cond)]
                          (a class's `attrs` lists the referential attribute as (name, 'ref')),
               'functions': [(name, ret_ty, params, text)], 'ees': [(key_lett, [(name, ret_ty, params, text)])],
               'enums': [(name, [enumerator...])], 'consts': [(name, ty, value_text)]}"""
    ids = Ids()
    rows = []
    pkg = ids.next()
    rows.append('INSERT INTO EP_PKG VALUES (%s, %s, %s, %s, %s, 0);' % (_uuid(pkg), _uuid(NULL), _uuid(NULL), _s('P'), _s('')))

    def pe(elem, ty):
        rows.append('INSERT INTO PE_PE VALUES (%s, 1, %s, %s, %d);' % (_uuid(elem), _uuid(pkg), _uuid(NULL), ty))

    numb = 0
    obj_id = {}
    attr_id = {}
    late = []       # rows of referential attributes: they name the referred attribute, which may be defined later
    for c in spec['classes']:
        obj = ids.next()
        obj_id[c['name']] = obj
        numb += 1
        pe(obj, 4)
        rows.append('INSERT INTO O_OBJ VALUES (%s, %s, %d, %s, %s, %s);' % (
            _uuid(obj), _s(c['name']), numb, _s(c['name']), _s(''), _uuid(NULL)))
        prev = NULL
        allattrs = [(n, t, None) for n, t in c['attrs']] + [(n, t, text) for n, t, text in c.get('derived', [])]
        for n, t, text in allattrs:
            a = ids.next()
            attr_id[(c['name'], n)] = a
            if t == 'ref':
                rows.append('INSERT INTO O_ATTR VALUES (%s, %s, %s, %s, %s, %s, %s, 0, %s, %s, %s);' % (
                    _uuid(a), _uuid(obj), _uuid(prev), _s(n), _s(''), _s(''), _s(n), _uuid(DT_BASE + 7), _s(''), _s('')))
                late.append((c['name'], n, a, obj))
                prev = a
                continue
            rows.append('INSERT INTO O_ATTR VALUES (%s, %s, %s, %s, %s, %s, %s, 0, %s, %s, %s);' % (
                _uuid(a), _uuid(obj), _uuid(prev), _s(n), _s(''), _s(''), _s(n), _dt(t), _s(''), _s('')))
            rows.append('INSERT INTO O_BATTR VALUES (%s, %s);' % (_uuid(a), _uuid(obj)))
            if text is None:
                rows.append('INSERT INTO O_NBATTR VALUES (%s, %s);' % (_uuid(a), _uuid(obj)))
            else:
                rows.append('INSERT INTO O_DBATTR VALUES (%s, %s, %s, 1, 0);' % (_uuid(a), _uuid(obj), _s(text)))
            prev = a
        prev_t = NULL
        for k, (n, inst_based, ret, params, text) in enumerate(c.get('ops', [])):
            t = ids.next()
            rows.append('INSERT INTO O_TFR VALUES (%s, %s, %s, %s, %s, %d, %s, 1, %s, %s, 0, %d);' % (
                _uuid(t), _uuid(obj), _s(n), _s(''), _dt(ret or 'void'), 1 if inst_based else 0, _s(text), _s(''),
                _uuid(prev_t), k + 1))
            prev_t = t
            prev_p = NULL
            for pn, pt in params:
                p = ids.next()
                rows.append('INSERT INTO O_TPARM VALUES (%s, %s, %s, %s, 0, %s, %s, %s);' % (
                    _uuid(p), _uuid(t), _s(pn), _dt(pt), _s(''), _uuid(prev_p), _s('')))
                prev_p = p
    for an, (rnumb, sc, ref, smany, scond, tc, idattr, tmany, tcond) in enumerate(spec.get('assocs', [])):
        rel, oir_s, oir_t, aref = ids.next(), ids.next(), ids.next(), ids.next()
        so, to = obj_id[sc], obj_id[tc]
        ra, ia = attr_id[(sc, ref)], attr_id[(tc, idattr)]
        pe(rel, 9)
        rows.append('INSERT INTO R_REL VALUES (%s, %d, %s, %s);' % (_uuid(rel), rnumb, _s(''), _uuid(NULL)))
        rows.append('INSERT INTO R_SIMP VALUES (%s);' % _uuid(rel))
        rows.append('INSERT INTO R_OIR VALUES (%s, %s, %s, %s);' % (_uuid(so), _uuid(rel), _uuid(oir_s), _uuid(NULL)))
        rows.append('INSERT INTO R_OIR VALUES (%s, %s, %s, %s);' % (_uuid(to), _uuid(rel), _uuid(oir_t), _uuid(NULL)))
        rows.append('INSERT INTO R_RGO VALUES (%s, %s, %s);' % (_uuid(so), _uuid(rel), _uuid(oir_s)))
        rows.append('INSERT INTO R_FORM VALUES (%s, %s, %s, %d, %d, %s);' % (
            _uuid(so), _uuid(rel), _uuid(oir_s), 1 if smany else 0, 1 if scond else 0, _s('')))
        rows.append('INSERT INTO R_RTO VALUES (%s, %s, %s, 0);' % (_uuid(to), _uuid(rel), _uuid(oir_t)))
        rows.append('INSERT INTO R_PART VALUES (%s, %s, %s, %d, %d, %s);' % (
            _uuid(to), _uuid(rel), _uuid(oir_t), 1 if tmany else 0, 1 if tcond else 0, _s('')))
        if ('oid', tc) not in attr_id:
            attr_id[('oid', tc)] = True
            rows.append('INSERT INTO O_ID VALUES (0, %s);' % _uuid(to))
            rows.append('INSERT INTO O_OIDA VALUES (%s, %s, 0, %s);' % (_uuid(ia), _uuid(to), _s(idattr)))
        rows.append('INSERT INTO O_RTIDA VALUES (%s, %s, 0, %s, %s);' % (_uuid(ia), _uuid(to), _uuid(rel), _uuid(oir_t)))
        rows.append('INSERT INTO O_REF VALUES (%s, %s, 0, %s, %s, %s, %s, %s, %s, %s, 0, %s, %s, %s, %s);' % (
            _uuid(so), _uuid(to), _uuid(ia), _uuid(rel), _uuid(oir_s), _uuid(oir_t), _uuid(ra), _uuid(aref), _uuid(NULL),
            _s(''), _s(''), _s(''), _s('')))
        rows.append('INSERT INTO O_RATTR VALUES (%s, %s, %s, %s, 1, %s);' % (_uuid(ra), _uuid(so), _uuid(ia), _uuid(to), _s(idattr)))
    for k, (n, ret, params, text) in enumerate(spec.get('functions', [])):
        f = ids.next()
        pe(f, 1)
        rows.append('INSERT INTO S_SYNC VALUES (%s, %s, %s, %s, %s, %s, 1, %s, 0, %d);' % (
            _uuid(f), _uuid(NULL), _s(n), _s(''), _s(text), _dt(ret or 'void'), _s(''), k + 1))
        prev_p = NULL
        for pn, pt in params:
            p = ids.next()
            rows.append('INSERT INTO S_SPARM VALUES (%s, %s, %s, %s, 0, %s, %s, %s);' % (
                _uuid(p), _uuid(f), _s(pn), _dt(pt), _s(''), _uuid(prev_p), _s('')))
            prev_p = p
    for kl, bridges in spec.get('ees', []):
        ee = ids.next()
        pe(ee, 5)
        rows.append('INSERT INTO S_EE VALUES (%s, %s, %s, %s, %s, %s, %s, 0);' % (
            _uuid(ee), _s(kl), _s(''), _s(kl), _uuid(NULL), _s(''), _s('')))
        for n, ret, params, text in bridges:
            b = ids.next()
            rows.append('INSERT INTO S_BRG VALUES (%s, %s, %s, %s, 0, %s, %s, 1, %s, 0);' % (
                _uuid(b), _uuid(ee), _s(n), _s(''), _dt(ret or 'void'), _s(text), _s('')))
            prev_p = NULL
            for pn, pt in params:
                p = ids.next()
                rows.append('INSERT INTO S_BPARM VALUES (%s, %s, %s, %s, 0, %s, %s, %s);' % (
                    _uuid(p), _uuid(b), _s(pn), _dt(pt), _s(''), _uuid(prev_p), _s('')))
                prev_p = p
    for n, enumerators in spec.get('enums', []):
        dt = ids.next()
        pe(dt, 3)
        rows.append('INSERT INTO S_DT VALUES (%s, %s, %s, %s, %s);' % (_uuid(dt), _uuid(NULL), _s(n), _s(''), _s('')))
        rows.append('INSERT INTO S_EDT VALUES (%s);' % _uuid(dt))
        prev = NULL
        for en in enumerators:
            e = ids.next()
            rows.append('INSERT INTO S_ENUM VALUES (%s, %s, %s, %s, %s);' % (_uuid(e), _s(en), _s(''), _uuid(dt), _uuid(prev)))
            prev = e
    consts = spec.get('consts', [])
    if consts:
        csp = ids.next()
        pe(csp, 10)
        rows.append('INSERT INTO CNST_CSP VALUES (%s, %s, %s);' % (_uuid(csp), _s('K'), _s('')))
        prev = NULL
        for n, ty, text in consts:
            c = ids.next()
            rows.append('INSERT INTO CNST_SYC VALUES (%s, %s, %s, %s, %s, %s, %s);' % (
                _uuid(c), _s(n), _s(''), _dt(ty), _uuid(csp), _uuid(prev), _uuid(NULL)))
            rows.append('INSERT INTO CNST_LFSC VALUES (%s, %s);' % (_uuid(c), _dt(ty)))
            rows.append('INSERT INTO CNST_LSC VALUES (%s, %s, %s);' % (_uuid(c), _dt(ty), _s(text)))
            prev = c
    if rng is not None:
        rng.shuffle(rows)
    return '\n'.join(rows) + '\n'
