"""C06 — Prebuilt instances form a well-formed, correctly typed population.

Same programs and homes as C05 (harness/gen_oal_action.py), including the bodies with event statements (these have
no Lean counterpart: direct predicate only).  After `prebuild_action` / `prebuild_model` on a fresh
base model, the property predicate D is evaluated on the REAL population:

  integrity   violations ADDED by prebuilding = 0: `check_link_integrity` on both links of every association with
              an ACT_/V_/E_ class on either side + `check_uniqueness_constraint` of those classes, after - before
  subtype     every ACT_SMT has exactly one R603 subtype, every V_VAL exactly one R801 subtype
  neighbour   ACT_SMT.Previous_Statement_ID / V_PAR.Next_Value_ID / ACT_LNK.Next_Link_ID (the persisted
              referential values) designate the previous statement / next parameter / next navigation step of the
              source lists of `oal.parse(text)`, null at the ends
  position    the ACT_SMT instances carry exactly the (line, start column, end column) of the statement nodes, and
              (elif / else clauses aside) the line, first and last column that `statement_spans` reads off the TEXT
              without the repository's lexer / parser (the `;` ends a statement and is not part of it)
  block       every V_VAR is related over R823 to the ACT_BLK holding the innermost statement that declares it
  type        the S_DT over R820 of a V_VAL whose expression the property lists (comparison / and / or / not /
              empty / not_empty -> boolean; cardinality -> integer; literals and enumerators -> their type;
              transient / instance / instance-set variable -> type first assigned / inst_ref<K> / inst_ref_set<K>;
              attribute and parameter read -> declared type) equals `type_of`, an independent Python
              implementation of these rules over the parsed tree and the base-model SPEC
  K  the (name, R848 type) list of all V_VAR in creation order equals the Lean `varWalk` (this ties the model's scope
     rule - block push / pop, no shadowing, re-declaration after a block ended creates a new variable - to the code);
     the (subtype, type) list of all V_VAL in creation order and the four neighbour-reference patterns equal the
     Lean model's `typeWalk` / chain builders run on the parsed tree; every created ACT_/V_ instance carries at
     least the links of a recipe of its class in the Lean recipe table (`recipe_conforms` is about that table).
"""
import bisect
import hashlib
import random

import common
import gen_oal_action as G
import oal_sexp
import prop_C05 as P5
import flat_pop          # FLAT: dump of the real population in the form of the Lean flat population model
from sexp import Sym, dumps

PROP = 'C06'
RULE = P5.RULE.replace('Non-trivial: >= 2 statements and >= 12 tokens regenerated',
                       'about a third of the bodies additionally carry EMPTY STATEMENTS (stray semicolons after statement '
                       'terminators incl. end if / end while / end for, doubled, on lines of their own, at the beginning of the body '
                       'and of nested blocks); about a third of the models additionally hold 1-6 user data types NAMED LIKE a data '
                       'type the model already has (core types, inst_ref<Object>, inst<Event>, enumerations, user-defined and '
                       'instance-reference types; created after them), types being compared by instance; a focused family of bodies '
                       'that mention self inside and after nested blocks (operation, derived attribute, state action); '
                       'a focused family of bodies (every kind of home) whose statements END WITH A NUMERIC LITERAL - every shape of '
                       'a real literal (digits.digits, .digits, digits., with exponent, exponent without point) bare and with each '
                       'size suffix F f L l, integer literals - as whole right-hand side, right operand of an arithmetic operation / '
                       'comparison, returned value, next to statements where the literal is followed by more tokens, at top level '
                       'and in if / elif / else / while blocks, sometimes with layout or a comment before the `;`; '
                       'the first AND LAST column of every statement (elif / else clauses aside) are read off the TEXT by a '
                       'statement scanner that uses no parser / lexer of the repository (last column = last character of the last '
                       'token before the statement\'s `;`, suffix letters of literals included), in addition to the comparison with '
                       'the parsed nodes; '
                       'Non-trivial: >= 2 statements, >= 3 value instances and >= 1 variable created')
EXHAUSTIVE = {'quick': False, 'thorough': False}
ASSUMPTIONS = P5.ASSUMPTIONS + [
    'the base model is consistent for every association that touches an ACT_/V_/E_ class (0 violations before)',
    'typing is compared for the expression kinds the property lists; arithmetic (left operand type), invocation '
    'results, selected, self and constants are compared with the Lean model only (correspondence), not judged',
]
TRUSTED_EXTRA = ['harness/gen_oal_action.py (program generator, base model)',
                 'harness/prop_C06.py statement_spans (text scanner for the first / last column of statements)',
                 'harness/prop_C06.py type_of (independent typing oracle) and the population walkers',
                 'xtuml.consistency_check.check_link_integrity / check_uniqueness_constraint (C11 is about them)']
CHUNK = 400
CASE_TIMEOUT_S = 30
BUDGET_S = {'quick': 60, 'thorough': 780}

_rig = None
_links = None
_kinds = None
_before = 0


def _rel(kind):
    return kind.startswith('ACT_') or kind.startswith('V_') or kind.startswith('E_')


_recipes = None      # class -> [multiset of (rel, partner kind) as sorted list], from the Lean recipe table
_schema = None       # what the GENERATED schema table (lean/Gen/OoaSchema.lean) demands: class -> (required, single, ids)
_supers = None       # [(supertype, rel, [subtypes])]


def setup(ctx):
    global _rig, _links, _kinds, _before, _recipes, _schema, _supers
    _rig = G.Rig()
    P5._rig = _rig
    m, _ = _rig.fresh()
    _before = _violations(m)
    lean = getattr(ctx, 'lean', None)
    if lean is None or lean.driver is None:
        raise common.HarnessError('C06 needs the Lean driver (recipe table and schema demands are exported by it)')
    if True:
        import sexp
        table = sexp.loads(lean.run_driver(['(c06-recipes)'])[0])
        _recipes = {}
        for cls, links, _name in table:
            _recipes.setdefault(cls, []).append(sorted((int(r), str(k)) for r, k in links))
        classes, supers = sexp.loads(lean.run_driver(['(c06-schema)'])[0])
        _schema = {}
        for cls, req, single, ids in classes:
            _schema[str(cls)] = (set((int(r), str(k)) for r, k in req), set((int(r), str(k)) for r, k in single),
                                 [[str(a) for a in key] for key in ids])
        _supers = [(str(s), int(r), [str(x) for x in subs]) for s, r, subs in supers]


def _schema_check(m, fail):
    """the two-sided check against the generated schema table, counted here (not by xtuml.consistency_check):
    every instance of a created class has EXACTLY one partner on each unconditional single end, AT MOST one on each
    conditional single end, every supertype instance exactly one subtype instance, identifiers non-null and unique"""
    if _schema is None:
        raise common.HarnessError('the schema demands (c06-schema) were not fetched from the Lean driver: the two-sided '
                                  'end-count / subtype / identifier check cannot run')
    by_kind = {}
    for ass in m.associations:
        n = int(ass.rel_id[1:])
        for link in (ass.source_link, ass.target_link):
            by_kind.setdefault(link.from_metaclass.kind, []).append((n, link))
    stats = {}
    for kind, (req, single, ids) in _schema.items():
        insts = list(m.select_many(kind))
        if not insts:
            continue
        stats['schema_checked_' + kind] = len(insts)
        for inst in insts:
            for n, link in by_kind.get(kind, []):
                key = (n, link.to_metaclass.kind)
                cnt = len(list(link.navigate(inst)))
                if key in req and cnt != 1:
                    fail('end-count', 'a %s instance has %d partners of class %s across R%d; the schema demands exactly one'
                         % (kind, cnt, key[1], n))
                elif key in single and cnt > 1:
                    fail('end-count', 'a %s instance has %d partners of class %s across R%d; the schema allows at most one'
                         % (kind, cnt, key[1], n))
        for key in ids:
            seen = set()
            for inst in insts:
                val = tuple(getattr(inst, a) for a in key)
                if any(v is None or v == 0 for v in val):
                    fail('identifier', 'a %s instance has a null value in its identifier %s' % (kind, key))
                elif val in seen:
                    fail('identifier', 'two %s instances share the identifier %s' % (kind, key))
                seen.add(val)
    for sup, rel, subs in _supers:
        for inst in m.select_many(sup):
            cnt = 0
            for n, link in by_kind.get(sup, []):
                if n == rel and link.to_metaclass.kind in subs:
                    cnt += len(list(link.navigate(inst)))
            if cnt != 1:
                fail('subtype-count', 'a %s instance has %d subtype instances across R%d' % (sup, cnt, rel))
    return stats


def run_schema(case):
    """the schema demands computed from the LOADED metamodel (link.conditional / link.many, metaclass.indices) for
    the classes the Lean table covers: must equal what lean/Gen/OoaSchema.lean + Recipe.required/singleEnds say"""
    m, _ = _rig.fresh()
    rows = []
    for kind in sorted(_schema or {}):
        req, single = set(), set()
        mc = m.find_metaclass(kind)
        for ass in m.associations:
            n = int(ass.rel_id[1:])
            for link in (ass.source_link, ass.target_link):
                if link.from_metaclass.kind == kind:
                    if not link.many:
                        single.add((n, link.to_metaclass.kind))
                        if not link.conditional:
                            req.add((n, link.to_metaclass.kind))
        ids = sorted(sorted(v) for v in mc.indices.values())
        rows.append([kind, sorted([n, k] for n, k in req), sorted([n, k] for n, k in single), ids])
    return {'obs': rows, 'd_fail': [], 'nontrivial': True, 'key': 'schema', 'stats': {'schema_tie': 1}}


def _recipe_misses(m):
    """instances of ACT_/V_/E_ classes whose actual links do not contain the links of any recipe of their class
    (the Lean recipe table is hand-written from prebuild.py; this ties it to what the code really relates)"""
    if _recipes is None:
        return [], {}
    by_kind = {}
    for ass in m.associations:
        n = int(ass.rel_id[1:])
        for link in (ass.source_link, ass.target_link):
            by_kind.setdefault(link.from_metaclass.kind, []).append((n, link))
    misses = set()
    hits = {}
    for kind, metaclass in m.metaclasses.items():
        if not _rel(kind):
            continue
        for inst in metaclass.select_many():
            actual = []
            for n, link in by_kind.get(kind, []):
                for other in link.navigate(inst):
                    actual.append((n, link.to_metaclass.kind))
            ok = False
            for ri, recipe in enumerate(_recipes.get(kind, [])):
                rest = list(actual)
                try:
                    for l in recipe:
                        rest.remove(l)
                    ok = True
                    hits['recipe_%s_%d' % (kind, ri)] = hits.get('recipe_%s_%d' % (kind, ri), 0) + 1
                except ValueError:
                    pass
            if not ok:
                misses.add((kind, dumps(sorted([n, k] for n, k in actual))))
    return sorted([k, a] for k, a in misses), hits


def _violations(m):
    n = 0
    for ass in m.associations:
        a = ass.source_link.from_metaclass.kind
        b = ass.source_link.to_metaclass.kind
        if _rel(a) or _rel(b):
            n += _rig.cc.check_link_integrity(m, ass.source_link)
            n += _rig.cc.check_link_integrity(m, ass.target_link)
    for kind in m.metaclasses:
        if _rel(kind):
            n += _rig.xtuml.check_uniqueness_constraint(m, kind)
    return n


LAYOUTS = ['', '\n', '\n\n', '  ', '\n   ', '\t', '\n\n\n ', ' \n', '    \n  ', '\r\n', '/* c */ ', '// c\n']
PARAM_HOMES = ['function', 'bridge', 'operation', 'cop']                    # bodies reading parameters (no self)
ALL_HOMES = ['function', 'bridge', 'operation', 'cop', 'derived', 'state']  # bodies without parameters and self
POISON = ['x = y_unknown;', 'select any q from instances of NOPE;\nq.a = 1;', 'z = 1 +;',
          'create object instance d of DOG;\nd.NoSuchAttribute = 1;', 'generate NOEVT:nothing() to DOG class;',
          'x = ::no_such_function();', 'select any d from instances of DOG;\nselect one p related by d->PER[R99];']


def generate(ctx):
    yield {'schema': True, 'home': 'function', 'prog': [], 'style': 0}
    for i, text in enumerate(REJECTED):
        yield {'reject': text, 'home': G.HOMES[i % 3], 'prog': [], 'style': 0}
    # ONE body in several homes of ONE model (every kind of action home), with different leading blank lines / first-line
    # indentation / comments, optionally after an action that FAILED to prebuild in the same model and process:
    # every action must carry the positions, variables and types of its OWN text and home
    rng = ctx.rng.fork('multi')
    for i in range(ctx.pick(70, 1500)):
        r = rng.fork(i)
        common = r.random() < 0.5
        homes = list(ALL_HOMES if common else PARAM_HOMES)
        poison = r.choice(POISON) if r.random() < 0.5 else None
        poison_home = 'derived' if common else 'cop'      # this home takes the failing body
        if poison is not None:
            homes.remove(poison_home)
            if r.random() < 0.7:
                # the failing action is the SAME body (same variable names) followed by a statement that is rejected
                poison = ['body', poison]
        g = G.ProgramGen(r, 'common' if common else 'function', r.randint(1, 5), None, r.random() < 0.3)
        lay = [r.choice(LAYOUTS) for _ in homes]
        yield _dimensions(ctx.rng.fork('dims', 'multi', i), {
               'multi': True, 'home': 'function', 'prog': g.program(), 'style': r.randint(0, 2 ** 30),
               'vary': r.random() < 0.5, 'homes': homes, 'layouts': lay, 'poison': poison, 'poison_home': poison_home,
               'gstats': dict(g.stats),
               'trail': [r.choice(['', ' ', '\n', '\n\n']) for _ in homes],
               'via_model': poison is None and r.random() < 0.6})
    # `self` in and around nested blocks (instance-based homes): first mentioned inside an if / elif / else / while
    # block and again after it, in sibling blocks, only outside ...: every mention designates a variable of a block around it
    rng = ctx.rng.fork('selfscope')
    for home in ('operation', 'derived', 'state'):
        for j in range(ctx.pick(5, 60)):
            r = rng.fork(home, j)
            yield _dimensions(ctx.rng.fork('dims', 'selfscope', home, j),
                              P5._case(r, 0, home, r.randint(3, 7), set(['self_attr', 'if', 'while', 'assign', 'attr'])))
    for c in _literal_ended(ctx, ctx.pick(6, 100)):
        yield c
    for i, c in enumerate(P5.generate(ctx, n_quick=1500, multi=False, bare=True)):
        yield _dimensions(ctx.rng.fork('dims', i), c)


# ---- statements whose LAST (or last-but-one) token is a numeric literal: every shape of a real literal the lexer has
# ---- (digits.digits, .digits, digits., digits.[eE]exponent, digits[eE]exponent with / without sign), each bare and with each
# ---- of the size suffixes F f L l, and integer literals - as the whole right-hand side, as the right operand of an arithmetic
# ---- operation or of a comparison, as a returned value; next to them statements where the same literal is followed by more
# ---- tokens of the statement (left operand, inside parentheses); at the top of the body and inside if / elif / else / while
# ---- blocks; sometimes with layout / a comment between the literal and the `;`.  The statement's text ends with the
# ---- literal's last character (its suffix letter included).
REAL_SHAPES = ['0.5', '1.0', '3.14', '10.25', '.75', '2.', '12.', '2.e3', '4.E-2', '7.e+1', '1e5', '25E-1', '3e+2', '7E0']
REAL_SUFFIXES = ['', '', 'F', 'f', 'L', 'l']
GAPS = [''] * 9 + [' ', '  ', ' /* c */', '\n', '\t']


def _literal_ended(ctx, per_home):
    rng = ctx.rng.fork('literal-ended')
    for home in G.HOMES:
        for j in range(per_home):
            r = rng.fork(home, j)
            yield _dimensions(ctx.rng.fork('dims', 'literal-ended', home, j), _literal_ended_case(r, home))


def _literal_ended_case(r, home):
    nvar = [0]
    reals = []
    count = [0]

    def real():
        return r.choice(REAL_SHAPES) + r.choice(REAL_SUFFIXES)

    def fresh(prefix):
        nvar[0] += 1
        return '%s%d' % (prefix, nvar[0])

    def simple():
        k = r.choice(['whole', 'whole', 'right', 'left', 'cmp', 'cmp_paren', 'int', 'neg']) if reals else 'whole'
        if k == 'whole':
            x = fresh('x')
            text = '%s = %s' % (x, real())
        elif k == 'right':
            x = fresh('x')
            text = '%s = %s %s %s' % (x, r.choice(reals), r.choice('+-*/'), real())
        elif k == 'left':
            x = fresh('x')
            text = '%s = %s %s %s' % (x, real(), r.choice('+-*/'), r.choice(reals))
        elif k == 'cmp':
            x = None
            text = '%s = %s %s %s' % (fresh('b'), r.choice(reals), r.choice(['<', '<=', '==', '!=', '>=', '>']), real())
        elif k == 'cmp_paren':
            x = None
            text = '%s = (%s %s %s)' % (fresh('b'), r.choice(reals), r.choice(['<', '>', '==']), real())
        elif k == 'int':
            x = None
            text = '%s = %s' % (fresh('i'), r.choice(['0', '7', '42', '65535']))
        else:
            x = fresh('x')
            text = '%s = -%s' % (x, real())
        count[0] += 1
        return x, [['s', text + r.choice(GAPS), 'assign']]

    def stmts(n, depth):
        """the variables a nested block declares end with it: only the enclosing blocks' variables are read"""
        out = []
        mark = len(reals)
        for _ in range(n):
            k = r.random()
            if depth < 2 and reals and k < 0.25:
                cond = '%s %s %s' % (r.choice(reals), r.choice(['<', '>', '!=']), real())
                if r.random() < 0.5:
                    elifs = [['%s > %s' % (r.choice(reals), real()), stmts(r.randint(1, 2), depth + 1)]
                             for _ in range(r.choice([0, 0, 1, 2]))]
                    els = stmts(r.randint(1, 2), depth + 1) if r.random() < 0.5 else None
                    out.append(['if', cond, stmts(r.randint(1, 2), depth + 1), elifs, els])
                else:
                    out.append(['while', cond, stmts(r.randint(1, 2), depth + 1)])
            else:
                x, st = simple()
                out.extend(st)
                if x is not None:
                    reals.append(x)
        if depth:
            del reals[mark:]
        return out

    prog = stmts(r.randint(2, 6), 0)
    if r.random() < 0.3:
        prog.append(['s', 'return %s' % real() + r.choice(GAPS), 'plain'])
        count[0] += 1
    return {'home': home, 'prog': prog, 'style': r.randint(0, 2 ** 30), 'vary': r.random() < 0.7,
            'via_model': r.random() < 0.15, 'events': False, 'gstats': {'statements_around_a_numeric_literal': count[0]}}


# ---- two dimensions of the quantifier that the C05 generator does not vary (they are fields of the case, so a stored
# ---- case without them reads as before):
#   'empties'  EMPTY STATEMENTS in every position the grammar has for them: the body text gets stray semicolons after
#              statement terminators (also after `end if;` / `end while;` / `end for;`, doubled on one line, on a line of
#              their own, several in a row), at the very beginning of the body and at the beginning of nested blocks
#              (after then / loop / else).  An empty statement is no statement: the population, the chains and the
#              positions are those of the remaining statements.
#   'shadow'   TWO DATA TYPES OF ONE NAME: the model additionally holds user data types (S_UDT over some other type, packaged
#              like every other element) NAMED LIKE a type the model already has - core types (integer, boolean, ...),
#              inst_ref<Object>, inst<Event>, enumerations, user-defined and instance-reference types of the base model.
#              The type an expression has under OAL typing is the ORIGINAL data type (the core type, the declared type,
#              the class's instance-reference type), whatever else carries its name: the types are compared by instance.
SHADOW_POOL = ['integer', 'boolean', 'real', 'string'] * 3 + \
              ['unique_id', 'void', 'inst_ref<Object>', 'inst_ref_set<Object>', 'inst<Event>', 'component_ref',
               'inst<Mapping>', 'inst_ref<Mapping>', 'date', 'timestamp', 'state<State_Model>'] + \
              [n for n, _ in G.SPEC['enums']] + [n for n, _ in G.SPEC['udts']] + [n for n, _ in G.SPEC['structs']] + \
              [G.inst_ref(c['kl']) for c in G.SPEC['classes']] + [G.inst_ref_set(c['kl']) for c in G.SPEC['classes']]
SHADOW_BASE = ['integer', 'boolean', 'real', 'string', 'unique_id'] + [n for n, _ in G.SPEC['enums']] + \
              [n for n, _ in G.SPEC['udts']]
EMPTY_AFTER = [';', ';', ' ;', '\n;', ';;', '\t;', ' ; ;', '\n\n  ;', '; /* nothing */ ;']


def _dimensions(r, case):
    if r.random() < 0.35:
        case['empties'] = r.randint(1, 2 ** 30)
    if r.random() < 0.35:
        names = [r.choice(SHADOW_POOL) for _ in range(r.choice([1, 1, 2, 3, 5]))]
        if r.random() < 0.2:
            names.append(names[0])          # and a third type of the same name
        case['shadow'] = [[n, r.choice(SHADOW_BASE)] for n in names]
    return case


_SEMI = None


def with_empties(text, seed):
    """the text with empty statements added (outside string literals, ticked phrases and comments every `;` ends a
    statement; an empty statement may follow it, and may stand where a block begins)"""
    global _SEMI
    import re
    if _SEMI is None:
        _SEMI = re.compile(r'/\*.*?\*/|//[^\n]*|"[^"\n]*"|\'[^\'\n]*\'|[A-Za-z_][A-Za-z_0-9]*|.', re.S)
    r = random.Random(seed)
    p = r.choice([0.1, 0.3, 0.6])
    out = []
    if r.random() < 0.3:
        out.append(r.choice([';', ';\n', '; ', ';;\n']))
    n = 0
    for tok in _SEMI.findall(text):
        out.append(tok)
        if tok == ';' and r.random() < p:
            out.append(r.choice(EMPTY_AFTER))
            n += 1
        elif tok.lower() in ('then', 'loop', 'else') and r.random() < p / 2:
            out.append(r.choice([' ;', ';', '\n;']))
            n += 1
    if n == 0:
        out.append(';')         # at least one: after the last statement
    return ''.join(out)


def text_of(case):
    text = P5.text_of(case)
    if case.get('empties'):
        text = with_empties(text, case['empties'])
    return text


def _shadow_types(m, case):
    """name -> the ORIGINAL S_DT instance of the base model; then the same-named user data types of the case are added"""
    orig = {}
    for s_dt in m.select_many('S_DT'):
        orig.setdefault(s_dt.Name, s_dt)
    for c in G.SPEC['classes']:
        # the instance-reference types of a class are the ones related to it (R123); the class Timer's share their
        # name with a core type of the Globals package
        o_obj = m.select_any('O_OBJ', lambda sel, kl=c['kl']: sel.Key_Lett == kl)
        for s_irdt in _rig.xtuml.navigate_many(o_obj).S_IRDT[123]():
            orig[G.inst_ref_set(c['kl']) if s_irdt.isSet else G.inst_ref(c['kl'])] = _rig.xtuml.navigate_one(s_irdt).S_DT[17]()
    for name, base in case.get('shadow') or []:
        s_dt = m.new('S_DT', Name=name)
        s_udt = m.new('S_UDT')
        _rig.xtuml.relate(s_dt, m.new('PE_PE'), 8001)
        _rig.xtuml.relate(s_udt, s_dt, 17)
        _rig.xtuml.relate(s_udt, orig.get(base) or orig['integer'], 18)
    return orig


def _translate(case, text):
    """G.Rig.translate (without regeneration) on a model that also holds the case's same-named data types"""
    m, homes = _rig.fresh()
    orig = _shadow_types(m, case)
    h = homes[case['home']]
    h.Action_Semantics_internal = text
    h.Suc_Pars = 1
    try:
        if case.get('via_model', False):
            _rig.prebuild.prebuild_model(m)
        else:
            _rig.prebuild.prebuild_action(h)
    except Exception as e:
        if type(e) is Exception and str(e).startswith(('Unknown transient', 'Unknown identifier')):
            raise G.OutOfDomain(str(e))
        raise
    return m, h, orig


def _typed(s_dt, name, orig):
    """is s_dt the data type `name` of the base model (the instance, not merely a type that carries the name)"""
    return s_dt is not None and s_dt is orig.get(name)


def _tdesc(s_dt, orig):
    if s_dt is None:
        return 'no data type'
    if orig.get(s_dt.Name) is s_dt:
        return s_dt.Name
    return 'ANOTHER data type named %s (a user data type added to the model, not the model\'s %s)' % (s_dt.Name, s_dt.Name)


class _GiveUp(Exception):
    pass


def statement_starts(text):
    """(line, column) of the first character of every statement, see statement_spans"""
    spans = statement_spans(text)
    return None if spans is None else [(l, c) for l, c, _ in spans]


def statement_spans(text):
    """(line, column of the first character, column of the LAST character) of every statement, the last column counted in
    the line that holds the last character (not of the elif / else clauses: they are parts of their
    if statement; the parser of the repository begins an elif clause at its condition, an else clause at `else`, which is
    compared with the parsed tree only), read off the TEXT alone
    (no parser of the repository): a scanner for the statement skeleton of the generated bodies - a statement begins at
    the first token after the `;` of the statement before it, after the head of the block that holds it (`if (..) [then]`,
    `elif (..) [then]`, `else`, `while (..) [loop]`, `for each x in s [loop]`) or at the beginning of the body; a simple
    statement extends to its `;`; a lone `;` is an empty statement (no statement).  The `;` ends the statement and is no part
    of its text, nor are the layout and the comments in front of the `;`: the last character of a statement is the last
    character of the last token before its `;` (the last letter / digit / SIZE SUFFIX of a literal, the closing quote of a
    string, a closing parenthesis, the `if` / `while` / `for` of `end if` ...).  Comments, string literals and ticked
    phrases are single tokens.  None when the text is not of that shape (never for a generated body)."""
    with_empties('', 0)         # compiles _SEMI
    toks = [(mt.start(), mt.group()) for mt in _SEMI.finditer(text)
            if not mt.group().isspace() and not mt.group().startswith(('/*', '//'))]
    n = len(toks)
    pos = [0]
    starts = []

    def low():
        return toks[pos[0]][1].lower() if pos[0] < n else None

    def take(*words):
        if low() not in words:
            raise _GiveUp()
        pos[0] += 1

    def parens():
        take('(')
        depth = 1
        while depth:
            if pos[0] >= n:
                raise _GiveUp()
            depth += {'(': 1, ')': -1}.get(toks[pos[0]][1], 0)
            pos[0] += 1

    def mark(clause=False):
        a = toks[pos[0]][0]
        if not clause:
            starts.append([text.count('\n', 0, a) + 1, a - text.rfind('\n', 0, a), None])
            return starts[-1]

    def close(span):
        """the token before the `;` just taken is the statement's last one"""
        if pos[0] < 2:
            raise _GiveUp()
        a, tok = toks[pos[0] - 2]
        b = a + len(tok) - 1                # offset of the statement's last character
        span[2] = b - text.rfind('\n', 0, b)

    def stmts(stop):
        while pos[0] < n:
            t = low()
            if t == ';':
                pos[0] += 1
            elif t in stop:
                return
            elif t in ('if', 'while'):
                span = mark()
                pos[0] += 1
                parens()
                if low() == ('then' if t == 'if' else 'loop'):
                    pos[0] += 1
                stmts(('elif', 'else', 'end'))
                while t == 'if' and low() == 'elif':
                    mark(True)
                    pos[0] += 1
                    parens()
                    if low() == 'then':
                        pos[0] += 1
                    stmts(('elif', 'else', 'end'))
                if t == 'if' and low() == 'else':
                    mark(True)
                    pos[0] += 1
                    stmts(('end',))
                take('end')
                take(t)
                take(';')
                close(span)
            elif t == 'for':
                span = mark()
                take('for')
                take('each')
                pos[0] += 1
                take('in')
                pos[0] += 1
                if low() == 'loop':
                    pos[0] += 1
                stmts(('end',))
                take('end')
                take('for')
                take(';')
                close(span)
            else:
                span = mark()
                while low() != ';':
                    if pos[0] >= n:
                        raise _GiveUp()
                    pos[0] += 1
                pos[0] += 1
                close(span)
    try:
        stmts(())
    except (_GiveUp, IndexError):
        return None
    if any(sp[2] is None for sp in starts):
        return None
    return [tuple(sp) for sp in starts]


def _start_check(text, smts, fail, stats, where=''):
    want = statement_spans(text)
    if want is None:
        stats['statement_scanner_gave_up'] = stats.get('statement_scanner_gave_up', 0) + 1
        return
    one = _rig.xtuml.navigate_one
    key = lambda t: tuple(-1 if x is None else x for x in t)
    own = [s for s in smts if one(s).ACT_EL[603]() is None and one(s).ACT_E[603]() is None]
    got = sorted(((s.LineNumber, s.StartPosition) for s in own), key=key)
    if got != sorted((l, c) for l, c, _ in want):
        odd = sorted(set(got) ^ set((l, c) for l, c, _ in want), key=key)
        fail('statement-start', '%sthe ACT_SMT instances (elif / else clauses aside) start at (line, column) %s; the statements '
             'of the text begin at %s (where they differ: %s)' % (where, got, sorted((l, c) for l, c, _ in want), odd))
        return
    # the LAST column, read off the text as well (not off the parser's token end offsets): the column, in its own line, of
    # the last character of the last token before the statement's `;`
    stats['statement_ends_read_off_the_text'] = stats.get('statement_ends_read_off_the_text', 0) + len(want)
    got3 = sorted(((s.LineNumber, s.StartPosition, getattr(s, 'EndPosition', None)) for s in own), key=key)
    if got3 != sorted(want):
        odd = sorted(set(got3) ^ set(want), key=key)
        lines = text.split('\n')
        shown = []
        for l, c, e in sorted(set(want) - set(got3))[:3]:
            shown.append('line %d from column %d: %r' % (l, c, lines[l - 1][c - 1:] if 0 < l <= len(lines) else '?'))
        fail('statement-end', '%sthe ACT_SMT instances (elif / else clauses aside) carry (line, first column, last column) %s; '
             'the statements of the text lie at %s - the last column is that of the last character of the statement\'s text, '
             'the `;` that ends it not counted (where they differ: %s; the text there: %s)'
             % (where, got3, sorted(want), odd, '; '.join(shown)))


def _prog_lists(prog, out):
    """the number of statements of every statement list of the abstract program, in source order of the lists' beginnings"""
    out.append(len(prog))
    for st in prog:
        if st[0] == 'if':
            _prog_lists(st[2], out)
            for _, b in st[3]:
                _prog_lists(b, out)
            if st[4] is not None:
                _prog_lists(st[4], out)
        elif st[0] == 'while':
            _prog_lists(st[2], out)
        elif st[0] == 'for':
            _prog_lists(st[3], out)
    return out

# --------------------------------------------------------------------------- the parsed tree, with positions

COMPARE = ('<', '<=', '==', '!=', '>=', '>', 'and', 'or')


def _unwrap(x):
    """(@ (ss sl sc es el ec) "stream" body) -> (position, body); other -> (None, x)"""
    if isinstance(x, list) and x and x[0] == '@' and isinstance(x[0], Sym):
        return x[1], x[3]
    return None, x


class Typer(object):
    """Independent typing of a parsed action body over SPEC (OAL's rules as the property words them).
    Walks the position-annotated s-expression of the tree; records for every expression node its
    (line, start column, end column) -> (rule name, type) and mimics nothing of the prebuilder but the
    language's scoping: a variable lives in the block whose statement first assigns / selects / creates it
    (the control variable of `for each` in the block that holds the loop)."""

    def __init__(self, home, text):
        self.home = home
        self.text = text + '\n'      # what oal.parse lexes
        self.scopes = [dict()]
        self.sel = []               # classes `selected` denotes (where clauses)
        self.values = {}            # (line, col, endcol) -> (rule, type)
        self.value_keys = []        # the key of every expression (an expression spanning several lines may share its
        self.ambiguous = set()      #  key with a sub-expression: a V_VAL carries no end line; such keys are not typed)
        self.decls = []             # (name, declaring statement start (line, col))
        self.stmts = []             # (line, col, endcol) of every statement-like node
        self.lists = []             # per StatementListNode: [(line, col)] of its children, in source order
        self.owners = []            # per StatementListNode: None (the body) or (role, (line, col) of the owning
                                    # statement / clause): role in if elif else while for
        self.extent = {}            # (line, col) of a statement -> (start offset, end offset) in the text
        self._owner = None
        self.params = []            # per invocation: [(line, col, endcol) of each parameter's expression]
        self.evdata = set()         # indices into self.params that are event data lists
        self.chains = []            # per select-related: ((line, col) of the statement, [(kl, rel, phrase)])
        self.cur_stmt = None
        self.holes = 0
        self.parents = []           # per StatementListNode: index of the list that holds its owning statement (None: the body)
        self._open = []             # indices of the lists being walked, outermost first
        self.var_reads = []         # (key of the expression, variable name, index of the list holding its statement)

    def at(self, pos):
        """(line, start column, end column) of a node, computed HERE from the text and the node's character offsets
        (start_stream, end_stream), not taken from the parser's own line / column fields: line = 1 + line breaks
        before the first character; start column = distance of the first character from the line break before IT;
        end column = distance of the LAST character from the line break before the last character (a node that
        spans lines ends in another line than it starts in)"""
        a, b = pos[0], pos[3]
        line = self.text.count('\n', 0, a) + 1
        start = a - self.text.rfind('\n', 0, a)
        end = b - self.text.rfind('\n', 0, b) - 1
        return (line, start, end)

    # -- environment
    def lookup(self, name):
        for s in reversed(self.scopes):
            if name in s:
                return s[name]
        if name == 'self' and G.HOME_SELF[self.home]:
            return ('int', G.HOME_SELF[self.home])
        return None

    def declare(self, name, info, at=None):
        self.scopes[-1][name] = info
        self.decls.append((name, at or self.cur_stmt))

    @staticmethod
    def var_type(info):
        if info is None:
            return None
        if info[0] == 'int':
            return G.inst_ref(info[1])
        if info[0] == 'ins':
            return G.inst_ref_set(info[1])
        return info[1]

    @staticmethod
    def class_of_type(ty):
        for c in G.SPEC['classes']:
            if ty == G.inst_ref(c['kl']):
                return ('int', c['kl'])
            if ty == G.inst_ref_set(c['kl']):
                return ('ins', c['kl'])
        return None

    # -- expressions
    def expr(self, x):
        pos, b = _unwrap(x)
        head = str(b[0])
        rule, ty = self._expr(head, b)
        if pos is not None:
            key = self.at(pos)
            if key in self.values:
                self.ambiguous.add(key)
            self.values[key] = (rule, ty)
            self.value_keys.append(key)
            if rule in ('variable', 'self') and self._open:
                self.var_reads.append((key, 'self' if rule == 'self' else b[1], self._open[-1]))
        return ty

    def _expr(self, head, b):
        if head in ('IntegerNode', 'RealNode'):
            # the literal's type is read off its SPELLING in the text (digits only: integer; a point or an exponent:
            # real), not off the node class the parser chose
            return 'literal', ('real' if any(ch in '.eE' for ch in b[1]) else 'integer')
        if head == 'StringNode':
            return 'literal', 'string'
        if head == 'BooleanNode':
            return 'literal', 'boolean'
        if head == 'EnumOrNamedConstantNode':
            for en, es in G.SPEC['enums']:
                if en == b[1] and b[2] in es:
                    return 'literal', en
            for g, cs in G.SPEC['consts']:
                if g == b[1]:
                    for n, t, _ in cs:
                        if n == b[2]:
                            return 'constant', t
            return 'unresolved', None
        if head == 'VariableAccessNode':
            if self.lookup(b[1]) is None:
                for g, cs in G.SPEC['consts']:          # a bare name that is no visible variable: a constant of the model
                    for n, t, _ in cs:
                        if n == b[1]:
                            return 'constant', t
            return 'variable', self.var_type(self.lookup(b[1]))
        if head == 'SelfAccessNode':
            return 'self', self.var_type(self.lookup('self'))
        if head == 'SelectedAccessNode':
            return 'selected', 'inst_ref<Object>'
        if head == 'ParamAccessNode':
            for n, t in G.home_params(self.home):
                if n == b[1]:
                    return 'parameter', t
            return 'unresolved', None
        if head == 'FieldAccessNode':
            _, hb = _unwrap(b[1])
            hty = self.expr(b[1])
            if str(hb[0]) == 'SelectedAccessNode':
                kl = self.sel[-1] if self.sel else None
            else:
                c = self.class_of_type(hty)
                kl = c[1] if c else None
            if kl is None:
                for sn, members in G.SPEC['structs']:       # a member of a structured value
                    if G.core_type(hty) == sn:
                        for mn, mt in members:
                            if mn == b[2]:
                                return 'member', mt
                if b[2] == 'length':
                    return 'array-length', 'integer'
            try:
                return 'attribute', G.attr_type(kl, b[2])
            except KeyError:
                return 'unresolved', None
        if head == 'IndexAccessNode':
            t = self.expr(b[1])
            self.expr(b[2])
            return 'element', t
        if head == 'UnaryOperationNode':
            t = self.expr(b[2])
            op = b[1].lower()
            if op in ('not', 'empty', 'not_empty'):
                return 'boolean-operator', 'boolean'
            if op == 'cardinality':
                return 'cardinality', 'integer'
            return 'arithmetic', t
        if head == 'BinaryOperationNode':
            tl = self.expr(b[1])
            self.expr(b[3])
            if b[2].lower() in COMPARE:
                return 'boolean-operator', 'boolean'
            return 'arithmetic', tl
        if head == 'FunctionInvocationNode':
            self.plist(b[2])
            for n, ret, _ in G.SPEC['functions']:
                if n == b[1]:
                    return 'invocation', ret
            return 'unresolved', None
        if head in ('ImplicitInvocationNode', 'BridgeInvocationNode', 'ClassInvocationNode'):
            self.plist(b[3])
            if head != 'ClassInvocationNode':
                for kl, _, bridges in G.SPEC['ees']:
                    if kl == b[1]:
                        for bn, ret, _ in bridges:
                            if bn == b[2]:
                                return 'invocation', ret
            if head != 'BridgeInvocationNode':
                for c in G.SPEC['classes']:
                    if c['kl'] == b[1]:
                        for on, _, ret, _ in c['ops']:
                            if on == b[2]:
                                return 'invocation', ret
            return 'unresolved', None
        if head == 'InstanceInvocationNode':
            hty = self.expr(b[1])
            self.plist(b[3])
            c = self.class_of_type(hty)
            if c:
                for on, _, ret, _ in G.class_of(c[1])['ops']:
                    if on == b[2]:
                        return 'invocation', ret
            return 'unresolved', None
        return 'unresolved', None

    def plist(self, x):
        _, b = _unwrap(x)
        poss = []
        for par in b[1:]:
            _, pb = _unwrap(par)
            ppos, _ = _unwrap(pb[2])
            self.expr(pb[2])
            poss.append(self.at(ppos))
        self.params.append(poss)

    # -- statements
    def block(self, x):
        _, b = _unwrap(x)            # BlockNode
        _, sl = _unwrap(b[1])        # StatementListNode
        self.scopes.append(dict())
        self.stmt_list(sl)
        self.scopes.pop()

    def stmt_list(self, sl):
        starts = []
        self.parents.append(self._open[-1] if self._open else None)
        self._open.append(len(self.lists))
        self.lists.append(starts)
        self.owners.append(self._owner)
        for st in sl[1:]:
            pos, _ = _unwrap(st)
            if pos is None:
                # no statement node (an empty statement is no statement; the parser keeps none in its lists): the
                # statements of the list are the remaining children, in their order
                self.holes += 1
                continue
            starts.append(self.at(pos)[:2])
            self.stmt(st)
        self._open.pop()

    def where(self, kl, x):
        self.sel.append(kl)
        self.expr(x)
        self.sel.pop()

    def target(self, name, kind, kl):
        if self.lookup(name) is None:
            self.declare(name, (kind, kl))

    def stmt(self, x):
        pos, b = _unwrap(x)
        head = str(b[0])
        self.stmts.append(self.at(pos))
        self.extent[self.at(pos)[:2]] = (pos[0], pos[3])
        outer = self.cur_stmt
        self.cur_stmt = self.at(pos)[:2]
        if head == 'AssignmentNode':
            rty = self.expr(b[2])
            _, lb = _unwrap(b[1])
            while str(lb[0]) == 'IndexAccessNode':      # a[i]…[j] = v declares the array variable a
                _, lb = _unwrap(lb[1])
            if str(lb[0]) == 'VariableAccessNode' and self.lookup(lb[1]) is None:
                c = self.class_of_type(rty)
                self.declare(lb[1], c if c else ('trn', rty))
            self.expr(b[1])
        elif head == 'ReturnNode':
            if b[1] != 'none':
                self.expr(b[1])
        elif head == 'CreateObjectNode':
            self.target(b[1], 'int', b[2])
        elif head in ('SelectFromNode', 'SelectFromWhereNode'):
            if head == 'SelectFromWhereNode':
                self.where(b[3], b[4])
            self.target(b[2], 'ins' if b[1].lower() == 'many' else 'int', b[3])
        elif head in ('SelectRelatedNode', 'SelectRelatedWhereNode'):
            _, ch = _unwrap(b[4])
            steps = []
            for s in ch[1:]:
                _, sb = _unwrap(s)
                steps.append((sb[1], sb[2], sb[3]))
            self.chains.append((self.at(pos)[:2], steps))
            self.expr(b[3])
            dst = steps[-1][0]
            self.target(b[2], 'ins' if b[1].lower() == 'many' else 'int', dst)
            if head == 'SelectRelatedWhereNode':
                self.where(dst, b[5])
        elif head == 'ForEachNode':
            info = self.lookup(b[2])
            self.target(b[1], 'int', info[1] if info else None)
            self._owner = ('for', self.at(pos)[:2])
            self.block(b[3])
        elif head == 'WhileNode':
            self.expr(b[1])
            self._owner = ('while', self.at(pos)[:2])
            self.block(b[2])
        elif head == 'IfNode':
            self.expr(b[1])
            self._owner = ('if', self.at(pos)[:2])
            self.block(b[2])
            _, el = _unwrap(b[3])
            for e in el[1:]:
                epos, eb = _unwrap(e)
                self.stmts.append(self.at(epos))
                self.expr(eb[1])
                self._owner = ('elif', self.at(epos)[:2])
                self.block(eb[2])
            if b[4] != 'none':
                spos, sb = _unwrap(b[4])
                self.stmts.append(self.at(spos))
                self._owner = ('else', self.at(spos)[:2])
                self.block(sb[1])
        elif head == 'InvocationStatementNode':
            self.expr(b[1])
        elif head in ('GenerateClassEventNode', 'GenerateCreatorEventNode', 'GenerateInstanceEventNode'):
            self.event_spec(b[1])           # the receiver (class or variable) is named, not evaluated
        elif head in ('CreateClassEventNode', 'CreateCreatorEventNode', 'CreateInstanceEventNode'):
            if self.lookup(b[1]) is None:
                self.declare(b[1], ('trn', 'inst<Event>'))
            self.event_spec(b[2])
        elif head == 'GeneratePreexistingNode':
            self.expr(b[1])
        self.cur_stmt = outer

    def event_spec(self, x):
        _, b = _unwrap(x)                   # EventSpecNode identifier meaning event_data
        self.plist(b[3])
        self.evdata.add(len(self.params) - 1)


KINDED = {'member': 'V_MVL', 'array-length': 'V_ALV'}
REJECTED = ['n = nosuch.length;', 'x = 1;\ny = undeclared_array.length + x;', 'z = nosuch[0];', 'w = nosuch.x;']
JUDGED = ('literal', 'boolean-operator', 'cardinality', 'variable', 'attribute', 'parameter')


def _subtype_names(m, inst, rel_id):
    out = []
    for ass in m.associations:
        if ass.rel_id != rel_id:
            continue
        # the super type is the TO side of every R603 / R801 ROP; source_link navigates from it to the subtype
        for sub in ass.source_link.navigate(inst):
            out.append(type(sub).__name__)
    return out


def run_multi(case):
    """one body in several homes of one model, different leading layout, optionally after an action that failed to
    prebuild: each action carries the positions of its own text, declares its own variables, types parameter and
    attribute reads with its own home's declarations"""
    rig = _rig
    one, many = rig.xtuml.navigate_one, rig.xtuml.navigate_many
    body = text_of(case)
    m, homes = rig.fresh()
    orig = _shadow_types(m, case)
    hns = case['homes']
    texts = {}
    for hn, lay, trail in zip(hns, case['layouts'], case['trail']):
        texts[hn] = lay + body + trail
        homes[hn].Action_Semantics_internal = texts[hn]
        homes[hn].Suc_Pars = 1
    poisoned = False
    ptext = None
    if case.get('poison') is not None:
        ptext = case['poison'] if isinstance(case['poison'], str) else body + '\n' + case['poison'][1]
        ph = homes[case.get('poison_home', 'derived')]
        ph.Action_Semantics_internal = ptext
        try:
            rig.prebuild.prebuild_action(ph)
        except Exception:
            poisoned = True             # the rejected action; the model and the process go on being used
    try:
        if case.get('via_model'):
            rig.prebuild.prebuild_model(m)
        else:
            for hn in hns:
                rig.prebuild.prebuild_action(homes[hn])
    except Exception as e:
        if type(e) is Exception and str(e).startswith(('Unknown transient', 'Unknown identifier')):
            return {'obs': [Sym('out-of-domain'), str(e)], 'd_fail': [], 'nontrivial': False, 'stats': {'out_of_domain': 1}}
        raise
    fails = []

    def fail(sig, what):
        if len(fails) < 4:
            fails.append({'sig': sig, 'what': what + '\n--- texts by home: %r%s%s' % (
                texts, '\n--- prebuilt before them in the same model, rejected: %r' % ptext if poisoned else '',
                _shadow_note(case))})
    acts = {'function': lambda h: one(h).ACT_FNB[695].ACT_ACT[698](),
            'bridge': lambda h: one(h).ACT_BRB[697].ACT_ACT[698](),
            'operation': lambda h: one(h).ACT_OPB[696].ACT_ACT[698](),
            'cop': lambda h: one(h).ACT_OPB[696].ACT_ACT[698](),
            'derived': lambda h: one(h).ACT_DAB[693].ACT_ACT[698](),
            'state': lambda h: one(h).ACT_SAB[691].ACT_ACT[698]()}
    nst = 0
    mstats = {}
    for hn in hns:
        ty = Typer(hn, texts[hn])
        enc = oal_sexp.encode(rig.parse(texts[hn]), positions=True)
        _, b = _unwrap(enc)
        _, blk = _unwrap(b[1])
        _, sl = _unwrap(blk[1])
        ty.stmt_list(sl)
        if case.get('prog') and [len(x) for x in ty.lists] != _prog_lists(case['prog'], []):
            fail('statement-lists', 'the statement lists of the %s action hold %s statements in the parsed text, %s in the '
                 'program the text was written from' % (hn, [len(x) for x in ty.lists], _prog_lists(case['prog'], [])))
            continue
        act_act = acts[hn](homes[hn])
        if act_act is None:
            fail('no-action', 'the %s home has no ACT_ACT after prebuilding' % hn)
            continue
        got = sorted((s.LineNumber, s.StartPosition, getattr(s, 'EndPosition', None))
                     for s in many(act_act).ACT_BLK[601].ACT_SMT[602]())
        want = sorted(ty.stmts)
        nst += len(want)
        _start_check(texts[hn], list(many(act_act).ACT_BLK[601].ACT_SMT[602]()), fail, mstats, 'in the %s action ' % hn)
        if got != want:
            fail('statement-position', 'the %s action holds the same body as the other actions of the model up to leading / '
                 'trailing layout; its ACT_SMT (line, start, end) = %s, the statements of its own text are at %s'
                 % (hn, got, want))
            continue
        vals = list(many(act_act).ACT_BLK[601].V_VAL[826]())
        vgot = sorted((v.LineNumber, v.StartPosition, v.EndPosition) for v in vals)
        if vgot != sorted(ty.value_keys):
            fail('value-position', 'the V_VAL instances of the %s action are at %s, the expressions of its own text at %s'
                 % (hn, vgot, sorted(ty.value_keys)))
            continue
        for v in vals:
            if (v.LineNumber, v.StartPosition, v.EndPosition) in ty.ambiguous:
                continue
            exp = ty.values[(v.LineNumber, v.StartPosition, v.EndPosition)]
            s_dt = one(v).S_DT[820]()
            if exp[0] in JUDGED and exp[1] is not None and not _typed(s_dt, exp[1], orig):
                fail('value-type:' + exp[0], 'in the %s action the V_VAL of the %s expression at line %s columns %s-%s is '
                     'typed %s; with the declarations of this home OAL types it %s'
                     % (hn, exp[0], v.LineNumber, v.StartPosition, v.EndPosition, _tdesc(s_dt, orig), exp[1]))
        nvar = sorted(v.Name for v in many(act_act).ACT_BLK[601].V_VAR[823]() if v.Name != 'self')
        if nvar != sorted(n for n, _ in ty.decls):
            fail('variable-count', 'the %s action declares the variables %s; its text declares %s'
                 % (hn, nvar, sorted(n for n, _ in ty.decls)))
    if not poisoned:
        added = _violations(m) - _before
        if added:
            fail('integrity-added', 'prebuilding the actions added %d violation(s)' % added)
    return {'obs': Sym('multi'), 'd_fail': fails, 'nontrivial': nst >= 3,
            'key': 'multi:' + hashlib.sha1(repr((sorted(texts.items()), case.get('poison'), case.get('shadow'))).encode()
                                           ).hexdigest()[:16],
            'stats': dict({'multi_action_models': 1, 'multi_actions': len(hns), 'rejected_action_first': int(poisoned),
                           'statements': nst, 'bodies_with_added_empty_statements': int(bool(case.get('empties'))),
                           'models_with_same_named_data_types': int(bool(case.get('shadow')))},
                          **dict(list(mstats.items()) + [('gen_' + k, v) for k, v in (case.get('gstats') or {}).items()]))}


def run_reject(case):
    """a body that reads an UNDECLARED name (as array root, structure root, plain value) is not name-resolved: the
    prebuilder rejects it with its documented exception, it never builds a value for it"""
    try:
        _rig.translate(case['home'], case['reject'], False, regenerate=False)
    except G.OutOfDomain:
        return {'obs': Sym('rejected'), 'd_fail': [], 'nontrivial': True, 'key': 'reject:' + case['reject'],
                'stats': {'undeclared_root_rejected': 1}}
    return {'obs': Sym('accepted'), 'nontrivial': True, 'key': 'reject:' + case['reject'], 'stats': {},
            'd_fail': [{'sig': 'undeclared-accepted', 'what': 'the body %r reads a name that is declared nowhere; the '
                        'prebuilder accepted it instead of rejecting it (Unknown transient)' % case['reject']}]}


def run_impl(case):
    if case.get('reject'):
        return run_reject(case)
    if case.get('schema'):
        return run_schema(case)
    if case.get('multi'):
        return run_multi(case)
    rig = _rig
    one = rig.xtuml.navigate_one
    text = text_of(case)
    tree = rig.parse(text)
    enc = oal_sexp.encode(tree, positions=True)
    try:
        m, h, orig = _translate(case, text)
    except G.OutOfDomain as e:
        return {'obs': [Sym('out-of-domain'), str(e)], 'd_fail': [], 'nontrivial': False, 'stats': {'out_of_domain': 1}}
    fails = []

    def fail(sig, what):
        if len(fails) < 4:
            fails.append({'sig': sig, 'what': '%s\n--- %s home%s\n%s' % (what, case['home'], _shadow_note(case), text)})

    ty = Typer(case['home'], text)
    _, body = _unwrap(enc)
    _, blk = _unwrap(body[1])
    _, sl = _unwrap(blk[1])
    ty.stmt_list(sl)
    # the statement lists are read off the parsed text; they are those of the program the text was written from
    if case.get('prog') and [len(x) for x in ty.lists] != _prog_lists(case['prog'], []):
        fail('statement-lists', 'the statement lists of the parsed text hold %s statements, those of the program the text '
             'was written from %s' % ([len(x) for x in ty.lists], _prog_lists(case['prog'], [])))

    # integrity
    added = _violations(m) - _before
    if added:
        fail('integrity-added', 'prebuilding added %d multiplicity / uniqueness violation(s) to the ACT_/V_/E_ population'
             % added)
    stats_schema = _schema_check(m, fail)
    # subtypes
    smts = list(m.select_many('ACT_SMT'))
    vals = list(m.select_many('V_VAL'))
    for s in smts:
        subs = _subtype_names(m, s, 'R603')
        if len(subs) != 1:
            fail('statement-subtypes', 'the ACT_SMT at line %s column %s has %d R603 subtypes %s'
                 % (s.LineNumber, s.StartPosition, len(subs), subs))
    val_obs = []
    for v in vals:
        subs = _subtype_names(m, v, 'R801')
        if len(subs) != 1:
            fail('value-subtypes', 'the V_VAL at line %s columns %s-%s has %d R801 subtypes %s'
                 % (v.LineNumber, v.StartPosition, v.EndPosition, len(subs), subs))
        s_dt = one(v).S_DT[820]()
        tname = s_dt.Name if s_dt is not None else Sym('none')
        val_obs.append([Sym(subs[0]) if len(subs) == 1 else Sym('none'), tname])
        key = (v.LineNumber, v.StartPosition, v.EndPosition)
        exp = ty.values.get(key)
        if exp is None:
            fail('value-position', 'a V_VAL carries line %s columns %s-%s; no expression of the source is there' % key)
        elif key not in ty.ambiguous and exp[0] in JUDGED and exp[1] is not None and not _typed(s_dt, exp[1], orig):
            fail('value-type:' + exp[0], 'the V_VAL of the %s expression at line %s columns %s-%s is typed %s; OAL types it %s'
                 % (exp[0], key[0], key[1], key[2], _tdesc(s_dt, orig), exp[1]))
        elif key not in ty.ambiguous and exp[0] in KINDED and (subs != [KINDED[exp[0]]] or not _typed(s_dt, exp[1], orig)):
            # a member of a structured value is a V_MVL typed as the member (also when the member is NAMED length);
            # `.length` of an array variable is a V_ALV typed integer
            fail('value-type:' + exp[0], 'the %s expression at line %s columns %s-%s is a %s typed %s; it is a %s typed %s'
                 % (exp[0], key[0], key[1], key[2], subs, tname, KINDED[exp[0]], exp[1]))
    if sorted((v.LineNumber, v.StartPosition, v.EndPosition) for v in vals) != sorted(ty.value_keys):
        fail('value-count', '%d V_VAL instances for %d expressions of the source, or at other positions'
             % (len(vals), len(ty.value_keys)))
    # positions of statements: where a statement begins is read off the TEXT (statement_starts), the end column is the
    # parsed node's
    xstats = {}
    _start_check(text, smts, fail, xstats)
    got = sorted((s.LineNumber, s.StartPosition, getattr(s, 'EndPosition', None)) for s in smts)
    want = sorted(ty.stmts)
    if got != want:
        fail('statement-position', 'ACT_SMT (line, start, end) = %s; the statements of the source are at %s' % (got, want))
    by_pos = {}
    for s in smts:
        by_pos[(s.LineNumber, s.StartPosition)] = s
    # R661 neighbour references, per statement list in source order
    stmt_obs = []
    ok_pos = (got == want) and len(by_pos) == len(smts)
    if ok_pos:
        for starts in ty.lists:
            ids = [by_pos[p].Statement_ID for p in starts]
            row = []
            for i, p in enumerate(starts):
                prev = by_pos[p].Previous_Statement_ID
                exp = ids[i - 1] if i > 0 else None
                if (prev or None) != exp:
                    fail('previous-statement', 'statement %d (line %d column %d) of a block of %d: Previous_Statement_ID '
                         'designates %s, its predecessor in source order is %s'
                         % (i, p[0], p[1], len(starts), _where(ids, starts, prev), _where(ids, starts, exp)))
                row.append(ids.index(prev) if prev in ids else (Sym('none') if not prev else Sym('other')))
            stmt_obs.append(row)
        # block structure, from the TEXT: the statements of one statement list are held (R602) by ONE block, different
        # lists by different blocks, the block of a nested list is the one its owning statement / clause relates to
        # (R607 if, R658 elif, R606 else, R608 while, R605 for each), and there is one ACT_BLK per list
        owner_rel = {'if': ('ACT_IF', 607), 'elif': ('ACT_EL', 658), 'else': ('ACT_E', 606), 'while': ('ACT_WHL', 608),
                     'for': ('ACT_FOR', 605)}
        seen_blocks = []
        list_blocks = []            # per statement list of the text: its ACT_BLK
        for starts, owner in zip(ty.lists, ty.owners):
            held = []
            for p in starts:
                b_ = one(by_pos[p]).ACT_BLK[602]()
                if not any(b_ is x for x in held):
                    held.append(b_)
            if len(held) > 1:
                fail('block-structure', 'the %d statements of one statement list (first at line %d) are held by %d different '
                     'blocks' % (len(starts), starts[0][0], len(held)))
            blk = held[0] if held else None
            if owner is not None:
                role, opos = owner
                sub = getattr(one(by_pos[opos]), owner_rel[role][0])[603]() if opos in by_pos else None
                oblk = one(sub).ACT_BLK[owner_rel[role][1]]() if sub is not None else None
                if oblk is None:
                    fail('block-structure', 'the %s at line %d column %d has no block' % (role, opos[0], opos[1]))
                elif blk is not None and oblk is not blk:
                    fail('block-structure', 'the statements nested in the %s at line %d column %d are not held by the block '
                         'that %s relates to' % (role, opos[0], opos[1], role))
                blk = oblk if oblk is not None else blk
            list_blocks.append(blk)
            if blk is not None:
                if any(blk is x for x in seen_blocks):
                    fail('block-structure', 'two statement lists of the source share one ACT_BLK')
                seen_blocks.append(blk)
        nblk = len(list(m.select_many('ACT_BLK')))
        if nblk != len(ty.lists):
            fail('block-structure', '%d ACT_BLK instances for %d statement lists of the source' % (nblk, len(ty.lists)))
        # elif / else clauses are ACT_SMT instances too, held by no statement list: they have no previous statement
        # and no statement designates them
        listed = set(p for starts in ty.lists for p in starts)
        for p, s in by_pos.items():
            if p not in listed and s.Previous_Statement_ID:
                fail('clause-chained', 'the elif / else clause at line %d column %d has a Previous_Statement_ID' % p)
        clause_ids = set(s.Statement_ID for p, s in by_pos.items() if p not in listed)
        for s in smts:
            if s.Previous_Statement_ID in clause_ids:
                fail('clause-chained', 'the statement at line %s designates an elif / else clause as its predecessor'
                     % s.LineNumber)
    # R816 neighbour references, per invocation
    par_obs = []
    evt_obs = []
    val_by_pos = {}
    for v in vals:
        val_by_pos.setdefault((v.LineNumber, v.StartPosition, v.EndPosition), []).append(v)
    for pi_, poss in enumerate(ty.params):
        pars = []
        for p in poss:
            # (several values may share a position key when an expression spans lines: the parameter's is the one with a V_PAR)
            cands = [one(v).V_PAR[800]() for v in val_by_pos.get(p, [])]
            cands = [c for c in cands if c is not None]
            pars.append(cands[0] if cands else None)
        if any(p is None for p in pars):
            fail('parameter-missing', 'an invocation with %d parameters has parameter values without V_PAR' % len(poss))
            continue
        ids = [p.Value_ID for p in pars]
        row = []
        for i, p in enumerate(pars):
            nxt = p.Next_Value_ID
            exp = ids[i + 1] if i + 1 < len(ids) else None
            if (nxt or None) != exp:
                fail('next-parameter', 'parameter %d (%s) of %d: Next_Value_ID designates %s, its successor in source '
                     'order is %s' % (i, p.Name, len(pars), _idx(ids, nxt), _idx(ids, exp)))
            row.append(ids.index(nxt) if nxt in ids else (Sym('none') if not nxt else Sym('other')))
        (evt_obs if pi_ in ty.evdata else par_obs).append(row)
    npar = len(list(m.select_many('V_PAR')))
    if npar != sum(len(p) for p in ty.params):
        fail('parameter-count', '%d V_PAR instances for %d parameters in the source' % (npar, sum(len(p) for p in ty.params)))
    # R604 neighbour references, per select-related statement
    lnk_obs = []
    lnks = list(m.select_many('ACT_LNK'))
    by_id = dict((l.Link_ID, l) for l in lnks)
    seen = 0
    if ok_pos:
        for spos, steps in ty.chains:
            act_sel = one(by_pos[spos]).ACT_SEL[603]()
            lnk = one(act_sel).ACT_LNK[637]()
            row = []
            for i, (kl, relid, phrase) in enumerate(steps):
                if lnk is None:
                    fail('next-link', 'the chain of the select at line %d has %d steps in the source, the Next_Link_ID '
                         'references end after %d' % (spos[0], len(steps), i))
                    break
                seen += 1
                o_obj = one(lnk).O_OBJ[678]()
                r_rel = one(lnk).R_REL[681]()
                got_step = (o_obj.Key_Lett if o_obj else None, 'R%s' % r_rel.Numb if r_rel else None, lnk.Rel_Phrase)
                if got_step != (kl, G._canon_rel(relid), phrase):
                    fail('next-link', 'step %d of the chain of the select at line %d is %s in the population, %s in the '
                         'source' % (i, spos[0], got_step, (kl, relid, phrase)))
                nxt = lnk.Next_Link_ID
                row.append(i + 1 if nxt else Sym('none'))
                lnk = by_id.get(nxt) if nxt else None
            else:
                if lnk is not None:
                    fail('next-link', 'the last step of the chain of the select at line %d has a Next_Link_ID' % spos[0])
            lnk_obs.append(row)
        if seen != len(lnks):
            fail('link-count', '%d ACT_LNK instances, %d reachable from the select statements' % (len(lnks), seen))
    # R823: the declaring block
    if ok_pos:
        line_off = [0]
        for ln in text.split('\n'):
            line_off.append(line_off[-1] + len(ln) + 1)
        spans = []          # (start offset, end offset, (line, col)) of statements held by statement lists
        for starts in ty.lists:
            for p in starts:
                a, b_ = ty.extent[p]            # the statement's extent in the TEXT (not the stored Label)
                spans.append((a, b_, p))
        declared = dict()
        for name, at in ty.decls:
            declared.setdefault(name, []).append(at)
        for v_var in m.select_many('V_VAR'):
            if v_var.Name == 'self':
                continue
            v_loc = one(v_var).V_LOC[835]()
            act_blk = one(v_var).ACT_BLK[823]()
            if v_loc is None or act_blk is None:
                continue        # counted by the integrity check
            off = line_off[v_loc.LineNumber - 1] + v_loc.StartPosition - 1
            inner = None
            for a, b, p in spans:
                if a <= off < b and (inner is None or a >= inner[0]):
                    inner = (a, b, p)
            if inner is None or inner[2] not in declared.get(v_var.Name, []):
                fail('variable-declaration', 'the V_VAR %s is located at line %s column %s, where the source declares no '
                     'such variable' % (v_var.Name, v_loc.LineNumber, v_loc.StartPosition))
                continue
            want_blk = one(by_pos[inner[2]]).ACT_BLK[602]()
            if want_blk is not act_blk:
                fail('variable-block', 'the V_VAR %s declared by the statement at line %d column %d is related over R823 '
                     'to another block than the one holding that statement' % (v_var.Name, inner[2][0], inner[2][1]))
        # a variable belongs to the block that declares it: it is known in that block and the blocks nested in it, nowhere
        # else (a name mentioned after its block has ended denotes / declares ANOTHER variable).  So the V_VAR a value reads
        # (R805 transient, R808 instance handle incl. self, R809 instance set) belongs over R823 to the block of the
        # statement list holding the value's statement or to a block around it - lists and nesting taken from the text
        for key, name, li in ty.var_reads:
            if key in ty.ambiguous:
                continue
            around = []
            j = li
            while j is not None:
                around.append(list_blocks[j])
                j = ty.parents[j]
            for v in val_by_pos.get(key, []):
                v_var = (one(v).V_TVL[801].V_VAR[805]() or one(v).V_IRF[801].V_VAR[808]() or one(v).V_ISR[801].V_VAR[809]())
                if v_var is None:
                    continue
                blk = one(v_var).ACT_BLK[823]()
                xstats['variable_reads_scope_checked'] = xstats.get('variable_reads_scope_checked', 0) + 1
                if blk is not None and not any(blk is x for x in around):
                    fail('variable-scope', 'the value at line %s columns %s-%s reads the variable %s; the V_VAR it is related to '
                         'belongs (R823) to a block that does not enclose the statement of this value%s: a variable belongs to '
                         'the block that declares it, and a name mentioned outside that block denotes another variable'
                         % (key[0], key[1], key[2], name,
                            ' (the block of a nested statement list that has ended or lies elsewhere)'))
        nvar = len([v for v in m.select_many('V_VAR') if v.Name != 'self'])
        if nvar != len(ty.decls):
            fail('variable-count', '%d V_VAR instances (self excluded) for %d declarations in the source: %s'
                 % (nvar, len(ty.decls), sorted(n for n, _ in ty.decls)))
    nstm = G.count_statements(case['prog'])
    stats = {'home_' + case['home']: 1, 'statements': nstm, 'values': len(vals), 'variables': len(ty.decls),
             'parameters': npar, 'links': len(lnks), 'bodies_with_added_empty_statements': int(bool(case.get('empties'))),
             'models_with_same_named_data_types': int(bool(case.get('shadow')))}
    for rule, _ in ty.values.values():
        stats['expr_' + rule] = stats.get('expr_' + rule, 0) + 1
    srt = lambda rows: sorted(rows, key=lambda r: (len(r), dumps(r)))
    misses, hits = _recipe_misses(m)
    stats.update(hits)
    stats.update(xstats)
    stats.update(stats_schema)
    P5._gen_stats(case, text, stats)
    var_obs = []
    for v_var in m.select_many('V_VAR'):
        if v_var.Name != 'self':
            s_dt = one(v_var).S_DT[848]()
            var_obs.append([v_var.Name, s_dt.Name if s_dt is not None else Sym('none')])
    flat_obs = flat_pop.observe(rig.xtuml, m, stats, text, case)      # FLAT: last element of the observation
    return {'obs': [val_obs, srt(stmt_obs), srt(par_obs), srt(lnk_obs), srt(evt_obs), var_obs, misses, flat_obs], 'd_fail': fails,
            'nontrivial': nstm >= 2 and len(vals) >= 3 and len(ty.decls) >= 1,
            'key': case['home'] + ':' + hashlib.sha1((text + repr(case.get('shadow') or '')).encode()).hexdigest()[:16],
            'stats': stats}


def _shadow_note(case):
    if not case.get('shadow'):
        return ''
    return '\n--- the model also holds user data types named like types it already has: %s' % ', '.join(
        '%s (over %s)' % (n, b) for n, b in case['shadow'])


def _where(ids, starts, x):
    if not x:
        return 'nothing'
    if x in ids:
        return 'statement %d of the block (line %d)' % (ids.index(x), starts[ids.index(x)][0])
    return 'a statement outside the block'


def _idx(ids, x):
    if not x:
        return 'nothing'
    return 'parameter %d' % ids.index(x) if x in ids else 'something else'


def model_line(case):
    if case.get('reject'):
        return None
    if case.get('schema'):
        return '(c06-schema)'
    if case.get('multi'):
        return None
    if (case.get('gstats') or {}).get('struct_members'):
        return None         # structure members are outside the Lean typing model (direct predicate only)
    tree = _rig.parse(text_of(case))
    return dumps([Sym('c06'), G.ctx_sexp(case['home']), oal_sexp.encode(tree),
                  [[k, v] for k, v in sorted(G.event_meanings().items())]])


def model_obs(case, ans):
    if case.get('schema'):
        rows = []
        for cls, req, single, ids in ans[0]:
            rows.append([cls, sorted(set((int(r), str(k)) for r, k in req)), sorted(set((int(r), str(k)) for r, k in single)),
                         sorted(sorted(str(a) for a in key) for key in ids)])
        return [[c, [list(x) for x in r], [list(x) for x in s], i] for c, r, s, i in sorted(rows)]
    return ans[:-1] + [[]] + [flat_pop.model_obs(ans[-1], case)]       # no instance without a recipe; FLAT: the model's dump last


def shrink_candidates(case):
    for c in P5.shrink_candidates(case):
        yield c
    for k in ('empties', 'shadow'):
        if case.get(k):
            c = dict(case)
            del c[k]
            yield c
    if len(case.get('shadow') or []) > 1:
        for i in range(len(case['shadow'])):
            c = dict(case)
            c['shadow'] = case['shadow'][:i] + case['shadow'][i + 1:]
            yield c
