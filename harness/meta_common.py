"""Shared by the metamodel-core properties (C02, C09, C11, C16): schema shapes, building a real
xtuml.MetaModel from a schema description, running operation histories on it, canonical dumps,
and the s-expression encoding understood by lean/Driver/C02.lean (`decodeSchema`, `runOps`).

A schema description is JSON-able:
  {'classes': [{'name': 'A', 'id': 'Id' | None, 'attrs': [(name, type), …]}, …],       # class index = Kind
   'assocs':  [{'rel': 'R1', 'src': 0, 'skeys': ['B_Id'], 'smany': bool, 'scond': bool, 'sphrase': '',
                'tgt': 1, 'tkeys': ['Id'], 'tmany': bool, 'tcond': bool, 'tphrase': ''}, …]}
`id` is the name of the class's own (non-referential) unique_id attribute filled by the
IntegerGenerator (one value per created instance), or None when the class has none.

Two construction routes: `Model(schema)` + ops through the API, and `Model.from_sql(schema, prefix_ops, idents)` which
writes schema + population of a history prefix as SQL text and builds it with xtuml.ModelLoader (family `loaded` of
the four properties: `'route': 'sql', 'prefix': k` in the case).
"""
from sexp import Sym, dumps

_xtuml = None


def bind(xtuml_module):
    global _xtuml
    _xtuml = xtuml_module


def A(rel, src, skeys, smany, scond, sphrase, tgt, tkeys, tmany, tcond, tphrase):
    return {'rel': rel, 'src': src, 'skeys': list(skeys), 'smany': smany, 'scond': scond, 'sphrase': sphrase,
            'tgt': tgt, 'tkeys': list(tkeys), 'tmany': tmany, 'tcond': tcond, 'tphrase': tphrase}


def C(name, id_attr, extra=()):
    attrs = ([(id_attr, 'unique_id')] if id_attr else []) + list(extra)
    return {'name': name, 'id': id_attr, 'attrs': attrs}


# the seven association shapes of the C02 quantifier (+ ref_id_chain) -------------------------------------------------
SHAPES = {
    'one_one': {'classes': [C('A', 'Id', [('B_Id', 'unique_id')]), C('B', 'Id')],
                'assocs': [A('R1', 0, ['B_Id'], False, True, '', 1, ['Id'], False, True, '')]},
    'one_many': {'classes': [C('A', 'Id', [('B_Id', 'unique_id')]), C('B', 'Id')],
                 'assocs': [A('R1', 0, ['B_Id'], True, True, '', 1, ['Id'], False, True, '')]},
    'many_one_uncond': {'classes': [C('A', 'Id', [('B_Id', 'unique_id')]), C('B', 'Id')],
                        'assocs': [A('R1', 0, ['B_Id'], True, False, '', 1, ['Id'], False, False, '')]},
    'reflexive': {'classes': [C('N', 'Id', [('Next_Id', 'unique_id')])],
                  'assocs': [A('R2', 0, ['Next_Id'], False, True, 'precedes', 0, ['Id'], False, True, 'succeeds')]},
    'assoc_class': {'classes': [C('A', 'Id'), C('B', 'Id'), C('L', 'Id', [('A_Id', 'unique_id'), ('B_Id', 'unique_id')])],
                    'assocs': [A('R3', 2, ['A_Id'], True, True, '', 0, ['Id'], False, False, ''),
                               A('R3', 2, ['B_Id'], True, True, '', 1, ['Id'], False, False, '')]},
    'subsuper': {'classes': [C('S', 'Id'), C('T1', None, [('Id', 'unique_id')]), C('T2', None, [('Id', 'unique_id')])],
                 'assocs': [A('R4', 1, ['Id'], False, True, '', 0, ['Id'], False, False, ''),
                            A('R4', 2, ['Id'], False, True, '', 0, ['Id'], False, False, '')]},
    # a referential attribute that is also the IDENTIFYING attribute another class refers to: A.B_Id -> B.Id -> C.Id,
    # so a read of A.B_Id follows two links (audit round 1: reads through a referential identifying key)
    'ref_id_chain': {'classes': [C('A', 'Id', [('B_Id', 'unique_id')]), C('B', None, [('Id', 'unique_id')]), C('C', 'Id')],
                     'assocs': [A('R8', 0, ['B_Id'], True, True, '', 1, ['Id'], False, True, ''),
                                A('R9', 1, ['Id'], False, True, '', 2, ['Id'], False, True, '')]},
    # a NON-reflexive association whose ends carry phrases: relate / unrelate / navigation without the phrase are unknown links
    'one_many_phrased': {'classes': [C('A', 'Id', [('B_Id', 'unique_id')]), C('B', 'Id')],
                         'assocs': [A('R1', 0, ['B_Id'], True, True, 'is owned by', 1, ['Id'], False, True, 'owns')]},
    # two associations whose numbers are prefixes of each other (R1 / R12): a restriction to one must not touch the other
    'prefix_rels': {'classes': [C('A', 'Id', [('B_Id', 'unique_id'), ('D_Id', 'unique_id')]), C('B', 'Id'), C('D', 'Id')],
                    'assocs': [A('R1', 0, ['B_Id'], True, True, '', 1, ['Id'], False, False, ''),
                               A('R12', 0, ['D_Id'], True, True, '', 2, ['Id'], False, False, '')]},
    'two_assocs_shared_ref': {'classes': [C('A', 'Id', [('X_Id', 'unique_id')]), C('B', 'Id'), C('D', 'Id')],
                              'assocs': [A('R5', 0, ['X_Id'], True, True, '', 1, ['Id'], False, True, ''),
                                         A('R6', 0, ['X_Id'], False, True, '', 2, ['Id'], True, True, '')]},
}


def schema_sexp(schema):
    ids = [Sym('ids')] + [(c['id'] if c['id'] else Sym('none')) for c in schema['classes']]
    out = [Sym('schema'), ids]
    for a in schema['assocs']:
        out.append([Sym('assoc'), a['rel'], a['src'], list(a['skeys']), bool(a['smany']), bool(a['scond']), a['sphrase'],
                    a['tgt'], list(a['tkeys']), bool(a['tmany']), bool(a['tcond']), a['tphrase']])
    return out


def refattrs_of(schema):
    """(kind, attribute) pairs that are referential in the schema, in a fixed order"""
    out = []
    for a in schema['assocs']:
        for k in a['skeys']:
            if (a['src'], k) not in out:
                out.append((a['src'], k))
    return out


def op_sexp(op):
    nm = op[0]
    if nm == 'new':
        return [Sym('new'), op[1]]
    if nm in ('relate', 'unrelate'):
        return [Sym(nm), op[1], op[2], op[3], op[4]]
    if nm == 'delete':
        return [Sym('delete'), op[1]]
    raise ValueError(op)


# ---------------------------------------------------------------------------------------------------- the LOADER route
# The same population can be reached through the API (define_class / define_association / formalize / new / relate) or by
# loading SQL text (CREATE TABLE / CREATE ROP / CREATE UNIQUE INDEX / INSERT) with xtuml.ModelLoader.  `Model.from_sql`
# builds the state after a history PREFIX the second way; the rest of the history then runs on a loader-built model.

def _resolve(schema, k1, k2, rel, phrase):
    """the association and direction a relate(x : k1, y : k2, rel, phrase) addresses (first match), or None"""
    for i, a in enumerate(schema['assocs']):
        if a['rel'] != rel:
            continue
        if a['tgt'] == k1 and a['src'] == k2 and a['tphrase'] == phrase:
            return i, 'fwd'
        if a['src'] == k1 and a['tgt'] == k2 and a['sphrase'] == phrase:
            return i, 'rev'
    return None


def _prefix_pairs(schema, ops):
    """relational reading of a prefix: kinds of the created instances and, per association, the (target, source) pairs that
    hold after its ACCEPTED relate / unrelate ops; delete ops are not expressible as text and are dropped"""
    kinds = [o[1] for o in ops if o[0] == 'new']
    pairs = [[] for _ in schema['assocs']]
    made = 0
    for o in ops:
        if o[0] == 'new':
            made += 1
            continue
        if o[0] not in ('relate', 'unrelate'):
            continue
        if o[1] >= made or o[2] >= made:
            raise ValueError('prefix op %r uses an instance that does not exist yet' % (o,))
        hit = _resolve(schema, kinds[o[1]], kinds[o[2]], o[3], o[4])
        if hit is None:
            continue
        i, d = hit
        x, y = (o[1], o[2]) if d == 'fwd' else (o[2], o[1])
        a, ps = schema['assocs'][i], pairs[i]
        if o[0] == 'relate':
            if (x, y) in ps:
                continue
            if (not a['smany'] and any(p[0] == x for p in ps)) or (not a['tmany'] and any(p[1] == y for p in ps)):
                continue
            ps.append((x, y))
        elif (x, y) in ps:
            ps.remove((x, y))
    return kinds, pairs


_CONFLICT = object()


def _row_values(schema, kinds, pairs):
    """the attribute values of every instance as a text row has to spell them: own values = what MetaClass.new hands out
    (one generator value per non-referential unique_id attribute, typed defaults otherwise); a referential value = the
    identifying value of the linked instance (None when unlinked, _CONFLICT when two links demand different values)"""
    refnames = [set(k for a in schema['assocs'] if a['src'] == c for k in a['skeys']) for c in range(len(schema['classes']))]
    own, drawn = [], 0
    for k in kinds:
        row = {}
        for name, ty in schema['classes'][k]['attrs']:
            if name in refnames[k]:
                continue
            T = ty.upper()
            if T == 'UNIQUE_ID':
                drawn += 1
                row[name] = drawn
            else:
                row[name] = {'INTEGER': 0, 'STRING': '', 'BOOLEAN': False, 'REAL': 0.0}[T]
        own.append(row)

    def val(i, name, depth=0):
        if name not in refnames[kinds[i]]:
            return own[i].get(name)
        if depth > 16:
            return _CONFLICT
        wanted = []
        for ai, a in enumerate(schema['assocs']):
            if a['src'] != kinds[i]:
                continue
            for rk, pk in zip(a['skeys'], a['tkeys']):
                if rk == name:
                    for (x, y) in pairs[ai]:
                        if y == i:
                            v = val(x, pk, depth + 1)
                            if v not in wanted:
                                wanted.append(v)
        if not wanted:
            return None
        return wanted[0] if len(wanted) == 1 else _CONFLICT
    return own, drawn, val


def _expressible_pairs(schema, kinds, pairs):
    """drop (latest first) the pairs a text row cannot express: the identifying value on the target side is null (a
    referential identifier that is itself unlinked), or the referential attribute is shared with another link that
    demands a different value"""
    pairs = [list(ps) for ps in pairs]
    while True:
        own, drawn, val = _row_values(schema, kinds, pairs)
        bad = None
        for ai in range(len(pairs) - 1, -1, -1):
            a = schema['assocs'][ai]
            for (x, y) in reversed(pairs[ai]):
                for rk, pk in zip(a['skeys'], a['tkeys']):
                    vx, vy = val(x, pk), val(y, rk)
                    if vx is None or vx is _CONFLICT or vy is _CONFLICT:
                        bad = (ai, (x, y))
                        break
                if bad:
                    break
            if bad:
                break
        if bad is None:
            return pairs
        pairs[bad[0]].remove(bad[1])


def canonical_prefix(schema, ops):
    """a history of `new` and accepted `relate` ops that reaches, through the API, the state the loader builds from the text
    of `ops`: the creations in their order, then per association (definition order) the links in the order
    ModelLoader.populate_connections makes them (storage order of the referring instances).  Ops the text cannot express
    (delete, links over null / conflicting referential values) are dropped."""
    kinds, pairs = _prefix_pairs(schema, ops)
    pairs = _expressible_pairs(schema, kinds, pairs)
    out = [['new', k] for k in kinds]
    for ai, a in enumerate(schema['assocs']):
        for (x, y) in sorted(pairs[ai], key=lambda p: (p[1], p[0])):
            out.append(['relate', x, y, a['rel'], a['tphrase']])
    return out


def _sql_literal(v, ty):
    T = ty.upper()
    if T == 'STRING':
        return "'%s'" % ('' if v is None else str(v).replace("'", "''"))
    if T == 'BOOLEAN':
        return 'true' if v else 'false'
    if T == 'REAL':
        return repr(float(v or 0.0))
    return '%d' % (v or 0)            # INTEGER / UNIQUE_ID; the null id is 0


def _card(many, cond):
    return ('M' if many else '1') + ('C' if cond else '') if (many or cond) else '1'


def sql_text(schema, prefix_ops, idents=()):
    """(text, number of generator values the rows stand for): schema, identifiers and the population after `prefix_ops`"""
    for o in prefix_ops:
        if o[0] not in ('new', 'relate'):
            raise ValueError('a text prefix consists of new and relate ops: %r' % (o,))
    kinds, pairs = _prefix_pairs(schema, prefix_ops)
    if _expressible_pairs(schema, kinds, pairs) != pairs:
        raise ValueError('the prefix holds links a text row cannot express (use canonical_prefix)')
    own, drawn, val = _row_values(schema, kinds, pairs)
    cname = lambda k: schema['classes'][k]['name']
    q = lambda p: "'%s'" % p.replace("'", "''")
    out = []
    for c in schema['classes']:
        out.append('CREATE TABLE %s (%s);' % (c['name'], ', '.join('%s %s' % (n, t) for n, t in c['attrs'])))
    for a in schema['assocs']:
        ends = []
        for (k, keys, many, cond, phrase) in ((a['src'], a['skeys'], a['smany'], a['scond'], a['sphrase']),
                                              (a['tgt'], a['tkeys'], a['tmany'], a['tcond'], a['tphrase'])):
            ends.append('%s %s (%s)%s' % (_card(many, cond), cname(k), ', '.join(keys), (' PHRASE ' + q(phrase)) if phrase else ''))
        out.append('CREATE ROP REF_ID %s FROM %s TO %s;' % (a['rel'], ends[0], ends[1]))
    for (k, name, attrs) in idents:
        out.append('CREATE UNIQUE INDEX %s ON %s (%s);' % (name, cname(k), ', '.join(attrs)))
    for i, k in enumerate(kinds):
        out.append('INSERT INTO %s VALUES (%s);' % (cname(k), ', '.join(_sql_literal(val(i, n), t)
                                                                        for n, t in schema['classes'][k]['attrs'])))
    return '\n'.join(out) + '\n', drawn


class Model(object):
    """a real xtuml.MetaModel built from a schema description, with instances named by creation index"""

    def __init__(self, schema):
        x = _xtuml
        self.schema = schema
        self.m = x.MetaModel(x.IntegerGenerator())
        self.metaclasses = []
        for c in schema['classes']:
            self.metaclasses.append(self.m.define_class(c['name'], list(c['attrs'])))
        self.assocs = []
        for a in schema['assocs']:
            ass = self.m.define_association(a['rel'], schema['classes'][a['src']]['name'], list(a['skeys']), a['smany'],
                                            a['scond'], a['sphrase'], schema['classes'][a['tgt']]['name'],
                                            list(a['tkeys']), a['tmany'], a['tcond'], a['tphrase'])
            ass.formalize()
            self.assocs.append(ass)
        self.insts = []
        self.index = {}

    @classmethod
    def from_sql(cls, schema, prefix_ops, idents=()):
        """the model after `prefix_ops` (new + relate ops, see canonical_prefix), built by xtuml.ModelLoader from SQL text;
        `insts`, `assocs`, `metaclasses` are in the same order as on the API route, and the id generator is where the API
        route leaves it.  `idents` = [(class index, identifier name, attribute names)] become CREATE UNIQUE INDEX."""
        x = _xtuml
        text, drawn = sql_text(schema, prefix_ops, idents)
        self = cls.__new__(cls)
        self.schema = schema
        self.sql = text
        loader = x.ModelLoader()
        loader.input(text)
        gen = x.IntegerGenerator()
        self.m = loader.build_metamodel(gen)
        while self.m.id_generator.peek() <= drawn:      # past the values the rows stand for (the loader's own creations
            next(self.m.id_generator)                   # consume exactly these with the code as it is)
        self.metaclasses = [self.m.find_metaclass(c['name']) for c in schema['classes']]
        self.assocs = list(self.m.associations)
        if len(self.assocs) != len(schema['assocs']):
            raise ValueError('the loader defined %d associations for %d CREATE ROP statements' % (len(self.assocs), len(schema['assocs'])))
        for a, ass in zip(schema['assocs'], self.assocs):
            if ass.rel_id != a['rel'] or ass.source_link.to_metaclass is not self.metaclasses[a['src']] \
                    or ass.target_link.to_metaclass is not self.metaclasses[a['tgt']]:
                raise ValueError('association %s is not where the text defines it' % a['rel'])
        self.insts = []
        self.index = {}
        seen = [0] * len(self.metaclasses)
        for o in prefix_ops:
            if o[0] != 'new':
                continue
            k = o[1]
            pool = list(self.metaclasses[k].storage)
            if seen[k] >= len(pool):
                raise ValueError('the loader created %d instances of %s, the text holds more rows' % (len(pool), schema['classes'][k]['name']))
            inst = pool[seen[k]]
            seen[k] += 1
            self.index[id(inst)] = len(self.insts)
            self.insts.append(inst)
        return self

    def idx(self, inst):
        return self.index.get(id(inst), -1)

    def new(self, k, *args, **kwargs):
        inst = self.metaclasses[k].new(*args, **kwargs)
        self.index[id(inst)] = len(self.insts)
        self.insts.append(inst)
        return inst

    def kind_of(self, i):
        mc = _xtuml.get_metaclass(self.insts[i])
        return self.metaclasses.index(mc)

    def apply(self, op):
        """run one op; returns the outcome symbol (documented exception class name or ok)"""
        x = _xtuml
        nm = op[0]
        try:
            if nm == 'new':
                self.new(op[1])
            elif nm == 'relate':
                x.relate(self.insts[op[1]], self.insts[op[2]], op[3], op[4])
            elif nm == 'unrelate':
                x.unrelate(self.insts[op[1]], self.insts[op[2]], op[3], op[4])
            elif nm == 'delete':
                x.delete(self.insts[op[1]])
            else:
                raise ValueError(op)
            return Sym('ok')
        except x.RelateException:
            return Sym('RelateException')
        except x.UnrelateException:
            return Sym('UnrelateException')
        except x.UnknownLinkException:
            return Sym('UnknownLinkException')
        except x.DeleteException:
            return Sym('DeleteException')

    def pools(self):
        return [[self.idx(i) for i in mc.storage] for mc in self.metaclasses]

    def link_entries(self, link):
        out = []
        for k, v in link.items():
            out.append([self.idx(k)] + [self.idx(p) for p in v])
        return sorted(out)

    def links(self):
        return [[self.link_entries(a.source_link), self.link_entries(a.target_link)] for a in self.assocs]

    def refs(self):
        out = []
        for k, attr in refattrs_of(self.schema):
            vals = []
            for inst in self.metaclasses[k].storage:
                v = getattr(inst, attr)
                vals.append(v if v is not None else Sym('none'))
            out.append(vals)
        return out

    def observe(self):
        return [self.pools(), self.links(), self.refs()]

    def ref_copies(self):
        """(instance index, key, value) for every instance that keeps a value of its own under a referential attribute name
        (any letter case) in its dictionary: such a copy is what other spellings of the name and where_eq would read beside
        the linked identifying value.  Neither route may leave one (MetaClass.new sets no referential default, the loader
        removes the loaded copies once the links are made)."""
        out = []
        for i, inst in enumerate(self.insts):
            k = self.metaclasses.index(_xtuml.get_metaclass(inst))
            names = set(n.upper() for kk, n in refattrs_of(self.schema) if kk == k)
            for key, v in inst.__dict__.items():
                if key.upper() in names:
                    out.append((i, key, v))
        return out

    def identifiers(self):
        """per class the registered unique identifiers {name: sorted attribute names}"""
        return [dict((n, sorted(a)) for n, a in mc.indices.items()) for mc in self.metaclasses]

    def deep_dump(self):
        """everything a client can observe of links and pools, incl. empty dict entries and raw __dict__"""
        d = [self.pools()]
        for a in self.assocs:
            for link in (a.source_link, a.target_link):
                # an entry whose partner set is empty is not observable through navigation, referential reads, selections or
                # exceptions (the property's observation points): it is left out of the comparison
                d.append(sorted((self.idx(k), [self.idx(p) for p in v]) for k, v in link.items() if len(v)))
        d.append([sorted((k, repr(v)) for k, v in i.__dict__.items()) for i in self.insts])
        return d


def meta_line(schema, ops):
    return dumps([Sym('meta'), schema_sexp(schema),
                  [Sym('refattrs')] + [[k, a] for k, a in refattrs_of(schema)],
                  [Sym('ops')] + [op_sexp(o) for o in ops]])
