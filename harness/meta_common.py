"""Shared by the metamodel-core properties (C02, C09, C11, C16): schema shapes, building a real
xtuml.MetaModel from a schema description, running operation histories on it, canonical dumps,
and the s-expression encoding understood by lean/Driver/C02.lean (`decodeSchema`, `runOps`).

A schema description is JSON-able:
  {'classes': [{'name': 'A', 'id': 'Id' | None, 'attrs': [(name, type), …]}, …],       # class index = Kind
   'assocs':  [{'rel': 'R1', 'src': 0, 'skeys': ['B_Id'], 'smany': bool, 'scond': bool, 'sphrase': '',
                'tgt': 1, 'tkeys': ['Id'], 'tmany': bool, 'tcond': bool, 'tphrase': ''}, …]}
`id` is the name of the class's own (non-referential) unique_id attribute filled by the
IntegerGenerator (one value per created instance), or None when the class has none.
"""
from sexp import Sym, dumps

_xtuml = None


def bind(xtuml_module):
    global _xtuml
    _xtuml = xtuml_module


def A(rel, src, skeys, smany, scond, sphrase, tgt, tkeys, tmany, tcond, tphrase):
    return {'rel': rel, 'src': src, 'skeys': list(skeys), 'smany': smany, 'scond': scond, 'sphrase': sphrase,
            'tgt': tgt, 'tkeys': list(tkeys), 'tmany': tmany, 'tcond': tcond, 'tphrase': tphrase}


def C(name, id_attr, extra=()):
    attrs = ([(id_attr, 'unique_id')] if id_attr else []) + list(extra)
    return {'name': name, 'id': id_attr, 'attrs': attrs}


# the seven association shapes of the C02 quantifier (+ ref_id_chain) -------------------------------------------------
SHAPES = {
    'one_one': {'classes': [C('A', 'Id', [('B_Id', 'unique_id')]), C('B', 'Id')],
                'assocs': [A('R1', 0, ['B_Id'], False, True, '', 1, ['Id'], False, True, '')]},
    'one_many': {'classes': [C('A', 'Id', [('B_Id', 'unique_id')]), C('B', 'Id')],
                 'assocs': [A('R1', 0, ['B_Id'], True, True, '', 1, ['Id'], False, True, '')]},
    'many_one_uncond': {'classes': [C('A', 'Id', [('B_Id', 'unique_id')]), C('B', 'Id')],
                        'assocs': [A('R1', 0, ['B_Id'], True, False, '', 1, ['Id'], False, False, '')]},
    'reflexive': {'classes': [C('N', 'Id', [('Next_Id', 'unique_id')])],
                  'assocs': [A('R2', 0, ['Next_Id'], False, True, 'precedes', 0, ['Id'], False, True, 'succeeds')]},
    'assoc_class': {'classes': [C('A', 'Id'), C('B', 'Id'), C('L', 'Id', [('A_Id', 'unique_id'), ('B_Id', 'unique_id')])],
                    'assocs': [A('R3', 2, ['A_Id'], True, True, '', 0, ['Id'], False, False, ''),
                               A('R3', 2, ['B_Id'], True, True, '', 1, ['Id'], False, False, '')]},
    'subsuper': {'classes': [C('S', 'Id'), C('T1', None, [('Id', 'unique_id')]), C('T2', None, [('Id', 'unique_id')])],
                 'assocs': [A('R4', 1, ['Id'], False, True, '', 0, ['Id'], False, False, ''),
                            A('R4', 2, ['Id'], False, True, '', 0, ['Id'], False, False, '')]},
    # a referential attribute that is also the IDENTIFYING attribute another class refers to: A.B_Id -> B.Id -> C.Id,
    # so a read of A.B_Id follows two links (audit round 1: reads through a referential identifying key)
    'ref_id_chain': {'classes': [C('A', 'Id', [('B_Id', 'unique_id')]), C('B', None, [('Id', 'unique_id')]), C('C', 'Id')],
                     'assocs': [A('R8', 0, ['B_Id'], True, True, '', 1, ['Id'], False, True, ''),
                                A('R9', 1, ['Id'], False, True, '', 2, ['Id'], False, True, '')]},
    # a NON-reflexive association whose ends carry phrases: relate / unrelate / navigation without the phrase are unknown links
    'one_many_phrased': {'classes': [C('A', 'Id', [('B_Id', 'unique_id')]), C('B', 'Id')],
                         'assocs': [A('R1', 0, ['B_Id'], True, True, 'is owned by', 1, ['Id'], False, True, 'owns')]},
    'two_assocs_shared_ref': {'classes': [C('A', 'Id', [('X_Id', 'unique_id')]), C('B', 'Id'), C('D', 'Id')],
                              'assocs': [A('R5', 0, ['X_Id'], True, True, '', 1, ['Id'], False, True, ''),
                                         A('R6', 0, ['X_Id'], False, True, '', 2, ['Id'], True, True, '')]},
}


def schema_sexp(schema):
    ids = [Sym('ids')] + [(c['id'] if c['id'] else Sym('none')) for c in schema['classes']]
    out = [Sym('schema'), ids]
    for a in schema['assocs']:
        out.append([Sym('assoc'), a['rel'], a['src'], list(a['skeys']), bool(a['smany']), bool(a['scond']), a['sphrase'],
                    a['tgt'], list(a['tkeys']), bool(a['tmany']), bool(a['tcond']), a['tphrase']])
    return out


def refattrs_of(schema):
    """(kind, attribute) pairs that are referential in the schema, in a fixed order"""
    out = []
    for a in schema['assocs']:
        for k in a['skeys']:
            if (a['src'], k) not in out:
                out.append((a['src'], k))
    return out


def op_sexp(op):
    nm = op[0]
    if nm == 'new':
        return [Sym('new'), op[1]]
    if nm in ('relate', 'unrelate'):
        return [Sym(nm), op[1], op[2], op[3], op[4]]
    if nm == 'delete':
        return [Sym('delete'), op[1]]
    raise ValueError(op)


class Model(object):
    """a real xtuml.MetaModel built from a schema description, with instances named by creation index"""

    def __init__(self, schema):
        x = _xtuml
        self.schema = schema
        self.m = x.MetaModel(x.IntegerGenerator())
        self.metaclasses = []
        for c in schema['classes']:
            self.metaclasses.append(self.m.define_class(c['name'], list(c['attrs'])))
        self.assocs = []
        for a in schema['assocs']:
            ass = self.m.define_association(a['rel'], schema['classes'][a['src']]['name'], list(a['skeys']), a['smany'],
                                            a['scond'], a['sphrase'], schema['classes'][a['tgt']]['name'],
                                            list(a['tkeys']), a['tmany'], a['tcond'], a['tphrase'])
            ass.formalize()
            self.assocs.append(ass)
        self.insts = []
        self.index = {}

    def idx(self, inst):
        return self.index.get(id(inst), -1)

    def new(self, k, *args, **kwargs):
        inst = self.metaclasses[k].new(*args, **kwargs)
        self.index[id(inst)] = len(self.insts)
        self.insts.append(inst)
        return inst

    def kind_of(self, i):
        mc = _xtuml.get_metaclass(self.insts[i])
        return self.metaclasses.index(mc)

    def apply(self, op):
        """run one op; returns the outcome symbol (documented exception class name or ok)"""
        x = _xtuml
        nm = op[0]
        try:
            if nm == 'new':
                self.new(op[1])
            elif nm == 'relate':
                x.relate(self.insts[op[1]], self.insts[op[2]], op[3], op[4])
            elif nm == 'unrelate':
                x.unrelate(self.insts[op[1]], self.insts[op[2]], op[3], op[4])
            elif nm == 'delete':
                x.delete(self.insts[op[1]])
            else:
                raise ValueError(op)
            return Sym('ok')
        except x.RelateException:
            return Sym('RelateException')
        except x.UnrelateException:
            return Sym('UnrelateException')
        except x.UnknownLinkException:
            return Sym('UnknownLinkException')
        except x.DeleteException:
            return Sym('DeleteException')

    def pools(self):
        return [[self.idx(i) for i in mc.storage] for mc in self.metaclasses]

    def link_entries(self, link):
        out = []
        for k, v in link.items():
            out.append([self.idx(k)] + [self.idx(p) for p in v])
        return sorted(out)

    def links(self):
        return [[self.link_entries(a.source_link), self.link_entries(a.target_link)] for a in self.assocs]

    def refs(self):
        out = []
        for k, attr in refattrs_of(self.schema):
            vals = []
            for inst in self.metaclasses[k].storage:
                v = getattr(inst, attr)
                vals.append(v if v is not None else Sym('none'))
            out.append(vals)
        return out

    def observe(self):
        return [self.pools(), self.links(), self.refs()]

    def deep_dump(self):
        """everything a client can observe of links and pools, incl. empty dict entries and raw __dict__"""
        d = [self.pools()]
        for a in self.assocs:
            for link in (a.source_link, a.target_link):
                d.append(sorted((self.idx(k), [self.idx(p) for p in v]) for k, v in link.items()))
        d.append([sorted((k, repr(v)) for k, v in i.__dict__.items()) for i in self.insts])
        return d


def meta_line(schema, ops):
    return dumps([Sym('meta'), schema_sexp(schema),
                  [Sym('refattrs')] + [[k, a] for k, a in refattrs_of(schema)],
                  [Sym('ops')] + [op_sexp(o) for o in ops]])
