"""Statement-level generator shared by prop_C03.py and prop_C18.py (owned by the C03/C18 builder).

A *statement* is a JSON-able dict; a population is a list of statements.  The harness writes the SQL
text itself (no Lean lexer is involved): `stmt_text`.  Typed values are `[tag, payload]`:

    ['i', n] INTEGER   ['s', text] STRING   ['b', bool] BOOLEAN   ['u', n] UNIQUE_ID
    ['r', micro] REAL scaled by 10^6 (only dyadic values with <= 6 fraction digits are used)

Statements:
    {'t': 'cls', 'kind': K, 'attrs': [[name, TYPE], ...]}
    {'t': 'assoc', 'rel': 'R1', 'sk': K, 'scard': '1C', 'skeys': [...], 'sph': '', 'tk': K, 'tcard': 'M', 'tkeys': [...], 'tph': ''}
    {'t': 'uniq', 'kind': K, 'name': 'I1', 'attrs': [...]}
    {'t': 'insert', 'kind': K, 'names': None | [...], 'vals': [typed...], 'lex': [lexeme text ...]}

Everything generated lies inside the domain of the property and of the Lean model (`Pyx.Load.inDomain`):
distinct kinds and attribute names, key lists without repeats and of equal length whose corresponding
attributes have the same type, distinct link keys (reflexive associations carry two different phrases),
distinct identifier names per class, full positional rows, named rows with distinct names, well-typed
values, classes without CREATE TABLE only where all rows agree and no association/identifier names them.
"""
import uuid
from fractions import Fraction

from sexp import Sym

class _ByType(dict):
    """tables keyed by a core type name in ANY letter case (the dialect accepts `unique_id`, `Unique_Id`, ...)"""

    def __getitem__(self, k):
        return dict.__getitem__(self, k.upper())

    def get(self, k, default=None):
        return dict.get(self, k.upper(), default)

    def __contains__(self, k):
        return dict.__contains__(self, k.upper())


TYPES = ['INTEGER', 'STRING', 'BOOLEAN', 'UNIQUE_ID', 'REAL']
TAG = _ByType({'INTEGER': 'i', 'STRING': 's', 'BOOLEAN': 'b', 'UNIQUE_ID': 'u', 'REAL': 'r'})
TYSYM = _ByType({'INTEGER': 'integer', 'STRING': 'string', 'BOOLEAN': 'boolean', 'UNIQUE_ID': 'unique_id', 'REAL': 'real'})


def spell(rng, ty):
    """a spelling of the type name: the code upper-cases type names wherever it looks at them"""
    r = rng.random()
    if r < 0.55:
        return ty
    if r < 0.75:
        return ty.lower()
    if r < 0.9:
        return ty.title()               # Unique_Id
    return ''.join(c.lower() if rng.random() < 0.5 else c for c in ty)
KINDS = ['KA', 'KB', 'KC', 'KD', 'KE']
# tiny pools: duplicates, dangling and null keys are the normal case
POOL = _ByType({
    'INTEGER': [0, 1, 2, -1],
    'STRING': ['', 'a', 'b', "o'k"],
    'BOOLEAN': [False, True],
    'UNIQUE_ID': [0, 1, 2, 3],
    'REAL': [0, 500000, 1500000, -250000],
})
# key values that are DIFFERENT but have the same hash() in CPython: -1 / -2, and integers that differ by a multiple of
# 2**61 - 1 — an index that keeps hash(key) instead of the key links them
HASH_POOL = _ByType({
    'INTEGER': [-1, -2, 1, 2 ** 61],
    'STRING': ['', 'a', 'b', "o'k"],
    'BOOLEAN': [False, True],
    'UNIQUE_ID': [1, 2 ** 61, 2, 2 ** 61 + 1],
    'REAL': [0, 500000, 1500000, -250000],
})
CARDS = ['1', '1C', 'M', 'MC']
PHRASES = ['one', 'other', 'is part of']


# ----------------------------------------------------------------------------- values and text

def py_value(tv):
    """typed value -> the Python value the loader must produce"""
    tag, v = tv
    if tag == 'r':
        return float(Fraction(v, 10 ** 6))
    return v


def lexeme(tv, rng=None, explicit=True):
    """SQL text of a typed value; with `rng`, one of the spellings the loader accepts for the column type
    (only in explicitly declared columns: an inferred class takes its types from the lexemes)"""
    tag, v = tv
    alt = rng is not None and explicit and rng.random() < 0.3
    if tag == 'i':
        return '%d' % v
    if tag == 's':
        return "'%s'" % v.replace("'", "''")
    if tag == 'b':
        if alt:
            return '1' if v else '0'
        w = 'TRUE' if v else 'FALSE'
        if rng is not None:
            w = rng.choice([w, w.lower(), w.capitalize()])
        return w
    if tag == 'u':
        if alt:
            return '%d' % v
        return '"%s"' % uuid.UUID(int=v)
    if tag == 'r':
        f = Fraction(v, 10 ** 6)
        if alt and f.denominator == 1 and f >= 0:
            return '%d' % f.numerator
        sign = '-' if f < 0 else ''
        f = abs(f)
        whole = f.numerator // f.denominator
        frac = ('%06d' % ((f - whole) * 10 ** 6)).rstrip('0') or '0'
        return '%s%d.%s' % (sign, whole, frac)
    raise ValueError(tag)


def stmt_text(s):
    t = s['t']
    if t == 'cls':
        return 'CREATE TABLE %s (%s);' % (s['kind'], ', '.join('%s %s' % (n, ty) for n, ty in s['attrs']))
    if t == 'assoc':
        def end(card, kind, keys, ph):
            e = '%s %s (%s)' % (card, kind, ', '.join(keys))
            if ph:
                e += " PHRASE '%s'" % ph
            return e
        return 'CREATE ROP REF_ID %s FROM %s TO %s;' % (s['rel'], end(s['scard'], s['sk'], s['skeys'], s['sph']),
                                                      end(s['tcard'], s['tk'], s['tkeys'], s['tph']))
    if t == 'uniq':
        return 'CREATE UNIQUE INDEX %s ON %s (%s);' % (s['name'], s['kind'], ', '.join(s['attrs']))
    if t == 'insert':
        if s['names'] is None:
            return 'INSERT INTO %s VALUES (%s);' % (s['kind'], ', '.join(s['lex']))
        return 'INSERT INTO %s (%s) VALUES (%s);' % (s['kind'], ', '.join(s['names']), ', '.join(s['lex']))
    raise ValueError(t)


def text_of(stmts):
    return '\n'.join(stmt_text(s) for s in stmts) + '\n'


# ----------------------------------------------------------------------------- s-expression encoding (Driver/LoadCodec.lean)

def enc_val(tv):
    if tv is None:
        return Sym('none')
    tag, v = tv
    return [Sym(tag), v]


def enc_stmt(s):
    t = s['t']
    if t == 'cls':
        return [Sym('cls'), s['kind'], [[n, ty] for n, ty in s['attrs']]]
    if t == 'assoc':
        return [Sym('assoc'), s['rel'], s['sk'], 'M' in s['scard'], 'C' in s['scard'], list(s['skeys']), s['sph'],
                s['tk'], 'M' in s['tcard'], 'C' in s['tcard'], list(s['tkeys']), s['tph']]
    if t == 'uniq':
        return [Sym('uniq'), s['kind'], s['name'], list(s['attrs'])]
    if t == 'insert':
        return [Sym('insert'), s['kind'], Sym('none') if s['names'] is None else list(s['names']),
                [enc_val(v) for v in s['vals']]]
    raise ValueError(t)


# ----------------------------------------------------------------------------- schema / population generator

def gen_schema(rng, n_classes=None, max_assocs=3, phrase_mode='mixed', allow_empty_keys=True, shared_index_p=0.35, types=None):
    """-> (class stmts, assoc stmts, uniq stmts).
    phrase_mode: 'plain' = no reflexive association, both ends of every association carry the same phrase
                 (mostly none); 'mixed' = anything in the domain (reflexive, different phrases, twin
                 associations with one rel id and swapped phrases)
    types: None, or the list the attribute types are drawn from (repeats weight a type)"""
    n = n_classes or rng.choice([1, 2, 2, 3, 3, 4])
    kinds = KINDS[:n]
    if rng.random() < 0.3:
        kinds = rng.sample(KINDS, n)
    attrs = {}
    for k in kinds:
        m = rng.randint(1, 4)
        if types is not None:
            attrs[k] = [['a%d' % i, rng.choice(types)] for i in range(m)]
            continue
        attrs[k] = [['a%d' % i, rng.choice(TYPES if rng.random() < 0.6 else ['INTEGER', 'UNIQUE_ID', 'STRING'])]
                    for i in range(m)]
    assocs = []
    used = set()
    nrel = 0
    for _ in range(rng.randint(0, max_assocs)):
        sk = rng.choice(kinds)
        tk = rng.choice(kinds)
        if phrase_mode == 'plain' and sk == tk:
            others = [k for k in kinds if k != sk]
            if not others:
                continue
            tk = rng.choice(others)
        r = rng.random()
        klen = 1 if r < 0.55 else 2 if r < 0.88 else 3 if r < 0.95 else 0
        if klen == 0 and not allow_empty_keys:
            klen = 1
        klen = min(klen, len(attrs[tk]))
        tkeys = rng.sample([a[0] for a in attrs[tk]], klen)
        skeys = []
        for tkey in tkeys:
            ty = dict(map(tuple, attrs[tk]))[tkey]
            # referential attributes may be shared with other associations; within one key list they are distinct
            cands = [a[0] for a in attrs[sk] if a[1] == ty and a[0] not in skeys and not (sk == tk and a[0] in tkeys)]
            if cands and rng.random() < 0.8:
                skeys.append(rng.choice(cands))
            else:
                name = 'a%d' % len(attrs[sk])
                attrs[sk].append([name, ty])
                skeys.append(name)
        nrel += 1
        rel = 'R%d' % nrel
        if sk == tk:
            sph, tph = rng.sample(PHRASES, 2)
        elif phrase_mode == 'plain':
            sph = tph = ('' if rng.random() < 0.8 else rng.choice(PHRASES))
        else:
            r = rng.random()
            if r < 0.5:
                sph = tph = ''
            elif r < 0.65:
                sph = tph = rng.choice(PHRASES)
            else:
                sph, tph = rng.sample(PHRASES + [''], 2)
        a = {'t': 'assoc', 'rel': rel, 'sk': sk, 'scard': rng.choice(CARDS), 'skeys': skeys, 'sph': sph,
             'tk': tk, 'tcard': rng.choice(CARDS), 'tkeys': tkeys, 'tph': tph}
        keys = [(tk, sk, rel, tph), (sk, tk, rel, sph)]
        if any(k in used for k in keys) or keys[0] == keys[1]:
            continue
        used.update(keys)
        assocs.append(a)
        if klen >= 2 and rng.random() < shared_index_p:
            # a second association to the same referred class over the same SET of identifying attributes, listed in
            # another order: populate_connections shares one index between the two
            tkeys2 = list(tkeys)
            while tkeys2 == tkeys:
                rng.shuffle(tkeys2)
            sk2 = rng.choice([k for k in kinds if k != tk] or kinds)
            if not (phrase_mode == 'plain' and sk2 == tk):
                skeys2 = []
                for tkey in tkeys2:
                    ty = dict(map(tuple, attrs[tk]))[tkey]
                    cands = [x[0] for x in attrs[sk2] if x[1] == ty and x[0] not in skeys2 and not (sk2 == tk and x[0] in tkeys2)]
                    if cands and rng.random() < 0.5:
                        skeys2.append(rng.choice(cands))
                    else:
                        name = 'a%d' % len(attrs[sk2])
                        attrs[sk2].append([name, ty])
                        skeys2.append(name)
                nrel += 1
                rel2 = 'R%d' % nrel
                if sk2 == tk:
                    sph2, tph2 = rng.sample(PHRASES, 2)
                else:
                    sph2 = tph2 = ''
                b = {'t': 'assoc', 'rel': rel2, 'sk': sk2, 'scard': rng.choice(CARDS), 'skeys': skeys2, 'sph': sph2,
                     'tk': tk, 'tcard': rng.choice(CARDS), 'tkeys': tkeys2, 'tph': tph2}
                keys2 = [(tk, sk2, rel2, tph2), (sk2, tk, rel2, sph2)]
                if not any(k in used for k in keys2) and keys2[0] != keys2[1]:
                    used.update(keys2)
                    assocs.append(b)
        if phrase_mode == 'mixed' and sk != tk and sph != tph and klen >= 1 and rng.random() < 0.3:
            # the ooaofooa R1402 shape: a second formalisation, same rel id and classes, phrases swapped
            skeys2 = []
            for tkey in tkeys:
                ty = dict(map(tuple, attrs[tk]))[tkey]
                name = 'a%d' % len(attrs[sk])
                attrs[sk].append([name, ty])
                skeys2.append(name)
            b = dict(a, skeys=skeys2, sph=tph, tph=sph, scard=rng.choice(CARDS))
            keys = [(tk, sk, rel, b['tph']), (sk, tk, rel, b['sph'])]
            if not any(k in used for k in keys):
                used.update(keys)
                assocs.append(b)
    # type names in any letter case, attribute by attribute
    classes = [{'t': 'cls', 'kind': k, 'attrs': [[n_, spell(rng, ty)] for n_, ty in attrs[k]]} for k in kinds]
    for k in kinds:
        attrs[k] = class_attrs = [c for c in classes if c['kind'] == k][0]['attrs']
    uniqs = []
    for k in kinds:
        for i in range(rng.choice([0, 0, 1, 1, 2])):
            m = rng.randint(1, min(2, len(attrs[k])))
            uniqs.append({'t': 'uniq', 'kind': k, 'name': 'I%d' % (i + 1),
                          'attrs': rng.sample([a[0] for a in attrs[k]], m)})
    return classes, assocs, uniqs


def gen_row(rng, kind, attrs, named_p=0.3, pool=POOL):
    vals = [[TAG[ty], rng.choice(pool[ty])] for _, ty in attrs]
    if rng.random() < named_p and attrs:
        # a named INSERT may leave attributes out (they read None: the "unset" null) and list them in any order
        idx = [i for i in range(len(attrs)) if rng.random() < 0.75] or [rng.randrange(len(attrs))]
        rng.shuffle(idx)
        names = [attrs[i][0] for i in idx]
        vs = [vals[i] for i in idx]
        return {'t': 'insert', 'kind': kind, 'names': names, 'vals': vs, 'lex': [lexeme(v, rng) for v in vs]}
    if rng.random() < 0.05:
        vals = vals + [['i', 7]]          # a surplus value is ignored by zip()
    return {'t': 'insert', 'kind': kind, 'names': None, 'vals': vals, 'lex': [lexeme(v, rng) for v in vals]}


def gen_inferred_rows(rng, kind, n):
    """rows of a class without CREATE TABLE: same column names, same lexical classes"""
    m = rng.randint(1, 3)
    tys = [rng.choice(TYPES) for _ in range(m)]
    names = None if rng.random() < 0.6 else ['c%d' % i for i in range(m)]
    out = []
    for _ in range(n):
        vals = [[TAG[ty], rng.choice(POOL[ty])] for ty in tys]
        # the lexeme decides the inferred type: canonical spellings only
        out.append({'t': 'insert', 'kind': kind, 'names': None if names is None else list(names), 'vals': vals,
                    'lex': [lexeme(v, None) for v in vals]})
    return out


def gen_shared_index_population(rng):
    """two (or three) associations reach one referred class over the same two identifying attributes of one type,
    listed in different orders; keys from {1, 2} so that (1, 2) and (2, 1) both occur"""
    ty = rng.choice(['INTEGER', 'UNIQUE_ID', 'STRING'])
    vals = {'INTEGER': [1, 2, 0], 'UNIQUE_ID': [1, 2, 0], 'STRING': ['a', 'b', '']}[ty]
    t = {'t': 'cls', 'kind': 'KT', 'attrs': [['p', spell(rng, ty)], ['q', spell(rng, ty)], ['z', spell(rng, 'BOOLEAN')]]}
    stmts = [t]
    orders = [['p', 'q'], ['q', 'p']] + ([rng.choice([['p', 'q'], ['q', 'p']])] if rng.random() < 0.3 else [])
    rng.shuffle(orders)
    srcs = []
    for n, tkeys in enumerate(orders):
        kind = rng.choice(['KX1', 'KX2']) if n else 'KX1'
        c = class_of(stmts, kind)
        if c is None:
            c = {'t': 'cls', 'kind': kind, 'attrs': [['id', spell(rng, 'INTEGER')]]}
            stmts.append(c)
            srcs.append(c)
        skeys = []
        for k in tkeys:
            name = 'r%d' % len(c['attrs'])
            c['attrs'].append([name, spell(rng, ty)])
            skeys.append(name)
        stmts.append({'t': 'assoc', 'rel': 'R%d' % (n + 1), 'sk': kind, 'scard': rng.choice(CARDS), 'skeys': skeys, 'sph': '',
                      'tk': 'KT', 'tcard': rng.choice(CARDS), 'tkeys': tkeys, 'tph': ''})
    pool = _ByType({ty: vals, 'BOOLEAN': [False, True], 'INTEGER': vals if ty == 'INTEGER' else [1, 2, 3]})
    for c in [t] + srcs:
        for _ in range(rng.randint(2, 4)):
            stmts.append(gen_row(rng, c['kind'], c['attrs'], named_p=0.15, pool=pool))
    rng.shuffle(stmts)
    return stmts


def gen_population(rng, max_rows=4, phrase_mode='mixed', inferred_p=0.15, max_stmts=None, n_classes=None,
                   max_assocs=3, allow_empty_keys=True, types=None, pool=None):
    """types / pool: None, or the attribute types to draw from / the value pool per type of this population"""
    classes, assocs, uniqs = gen_schema(rng, n_classes=n_classes, max_assocs=max_assocs, phrase_mode=phrase_mode,
                                        allow_empty_keys=allow_empty_keys, types=types)
    rows = []
    given_pool = pool
    pool = HASH_POOL if rng.random() < 0.2 else POOL
    if given_pool is not None:
        pool = given_pool
    for c in classes:
        for _ in range(rng.randint(0, max_rows)):
            rows.append(gen_row(rng, c['kind'], c['attrs'], pool=pool))
    # SHORT positional rows: the trailing attributes left out are referential ones, which stay unset (an unset key
    # refers to nothing, whatever the default of its type is)
    for r in rows:
        if r['names'] is None and rng.random() < 0.3:
            c = [c for c in classes if c['kind'] == r['kind']][0]
            refs = set(k for a in assocs if a['sk'] == c['kind'] for k in a['skeys'])
            run = 0
            while run < len(c['attrs']) and c['attrs'][len(c['attrs']) - 1 - run][0] in refs:
                run += 1
            if run and len(r['vals']) == len(c['attrs']):
                cut = rng.randint(1, run)
                r['vals'] = r['vals'][:-cut]
                r['lex'] = r['lex'][:-cut]
    if rng.random() < inferred_p:
        kind = rng.choice([k for k in ['KX', 'KY']])
        rows += gen_inferred_rows(rng, kind, rng.randint(1, 3))
    stmts = classes + uniqs + assocs + rows
    if max_stmts is not None and len(stmts) > max_stmts:
        # keep the schema, drop rows / identifiers from the end
        keep = classes + assocs
        rest = [s for s in stmts if s['t'] in ('uniq', 'insert')]
        rng.shuffle(rest)
        stmts = keep + rest[:max(0, max_stmts - len(keep))]
        if len(stmts) > max_stmts:
            return None
    rng.shuffle(stmts)
    return stmts


def class_of(stmts, kind):
    for s in stmts:
        if s['t'] == 'cls' and s['kind'] == kind:
            return s
    return None


def raw_row(stmts, ins):
    """attribute name -> typed value (None = unset) of the instance an INSERT creates, as written"""
    c = class_of(stmts, ins['kind'])
    if c is None:
        names = ins['names'] if ins['names'] is not None else ['_%d' % i for i in range(len(ins['vals']))]
        return dict(zip(names, ins['vals']))
    if ins['names'] is None:
        return {a[0]: v for a, v in zip(c['attrs'], ins['vals'])}
    given = {}
    for n, v in zip(ins['names'], ins['vals']):
        given.setdefault(n, v)
    return {a[0]: given.get(a[0]) for a in c['attrs']}


def is_null(tv):
    """the property's notion of a null key: unset, the id 0, the empty string"""
    return tv is None or (tv[0] == 'u' and tv[1] == 0) or (tv[0] == 's' and tv[1] == '')


def key_match(a, srow, trow):
    """the property's predicate: all referential values non-null and equal to the corresponding identifying values"""
    for sk, tk in zip(a['skeys'], a['tkeys']):
        sv = srow.get(sk)
        if is_null(sv) or sv != trow.get(tk):
            return False
    return True


def referential_of(stmts, kind):
    out = set()
    for a in stmts:
        if a['t'] == 'assoc' and a['sk'] == kind:
            out.update(a['skeys'])
    return out


def has_chain(stmts):
    """some identifying attribute used as a key is itself referential in its class (read through links)"""
    return any(a['t'] == 'assoc' and set(a['tkeys']) & referential_of(stmts, a['tk']) for a in stmts)
