"""C08 — OAL keywords are case-insensitive in parsing, execution and prebuild.

A case is ONE program written in lower-case keywords plus re-spellings of its keyword occurrences
(UPPER, Capitalised, two random per-letter mixes; `end if` also as `End If` / `END\\tIF`: blank <-> tab inside the
END token).  Identifiers, literals, comments and layout are identical in all spellings (same length, same offsets).

  kind 'parse'  a program over most productions of the grammar (harness/gen_oal_text.gen_program), any layout
       D(i)   `oal.parse` of every spelling gives the same tree as the lower-case text, modulo lower-casing of the
              fields that record a keyword's source spelling: `cardinality`, `operator`, BooleanNode `value`
              (and the keyword `self` where the grammar stores it as an instance name)
  kind 'exec'   a program that runs on a small population (classes A, B, C; R1 1:M, R2 1:1, R3 reflexive; select
                any/many/one, where, for each, while, if/elif/else, relate/unrelate, create/delete,
                cardinality/empty/not_empty, and/or/not, true/false, break/continue/return, param; the domain functions
                ::spawn() / ::mark(v:n) with a side effect as the right operand of and/or, with left operands that
                do and do not decide the result)
       D(i)   as above
       D(ii)  `bridgepoint.interpret.run_function` gives the same result (or the same exception class) and the same
              final population for every spelling
       D(iii) `bridgepoint.prebuild` of the text as a function body gives the same multiset of ACT_* / V_* / E_*
              instances (class, attribute values) apart from unique ids and the recorded source text `Label`
  kind 'op' / 'dattr'  the body of an INSTANCE OPERATION of class A / of a DERIVED ATTRIBUTE of A, invoked on an instance:
                `self` as instance name (relate / unrelate / delete self, using), as navigation start and in
                assignments; generate .. to self / class / assigner / creator, create event instance + generate,
                bridge and transform invocations, control stop, rcvd_evt, send - D(i), D(ii) via run_operation /
                run_derived_attribute, D(iii) via the O_TFR / O_DBATTR prebuilders
  family 'reselect' (kinds exec / op / dattr as above)  select statements of all three forms, one / any / many, that
                assign a variable ALREADY DECLARED by an earlier select of the same class (same or enclosing block):
                the prebuilder / interpreter do not declare a variable there, so the cardinality keyword is the only
                source of what is recorded (ACT_FIO / ACT_FIW / ACT_SEL.cardinality) - D(i), D(ii), D(iii) unchanged
  All spellings of a case are parsed / interpreted / prebuilt back to back in ONE process, with a REJECTED text (a
  broken copy containing `%s`) in between, the lower-case text once more at the end and the lower-case text with
  layout around it (equal after strip(); no prebuild comparison, positions legitimately differ).
  K    the token stream (kind, lexeme with keyword spellings lower-cased) of the real lexer on every spelling
       equals the Lean lexer model's (`lex` + `normTok`).
The replay of a violation is the pair of programs.
"""
import common
from sexp import Sym, dumps
import gen_oal_text as G

PROP = 'C08'
PREBUILD_EXCEPTION_LIMIT = 0.2  # the same for prebuilding (arrays, enumerators and port signals are not prebuildable here)
RUN_EXCEPTION_LIMIT = 0.15     # largest tolerated share of generated bodies that fail to run under the base spelling
RULE = ('programs x 5 spellings (lower, UPPER, Capitalised, 2 random per-letter mixes incl. blank/tab inside END '
        'tokens); parse-kind programs cover most grammar productions with random layout, exec-kind programs run on a '
        '3-class population and are prebuilt as a function body; non-trivial = at least 4 re-spelled keyword '
        'occurrences and (exec) the lower-case program ran without exception; distinct by lower-case text.  Families '
        'that make the reading of a keyword visible: side-effecting domain functions as right operand of and/or and '
        'under the unary keyword operator not (operand evaluated exactly once), select one/any across a to-many '
        'association from an instance with several related instances; select statements (from instances, from '
        'instances where, related by [where]; one / any / many) whose result variable is ALREADY DECLARED by an '
        'earlier select of the same class in the same or an enclosing block (family reselect: exec, op and dattr '
        'bodies, every spelling prebuilt and run; counters x-reselect-*), where the cardinality keyword alone says '
        'what the statement yields; at most 15 % of the bodies may fail to run')
EXHAUSTIVE = {'quick': False, 'thorough': False}
ASSUMPTIONS = [
    'domain: only keyword occurrences in keyword ROLE are re-spelled; a keyword token in a name position (kw_as_identifier: '
    '`x = To;`) is an identifier whose spelling the parser keeps - such names are not generated and never re-cased',
    'the keyword `self` used as an instance name (relate self to ..) is stored by the parser in its source spelling in '
    '*_variable_name fields; D(i) compares those fields modulo the case of the word self',
    'interpretation and prebuilding are validated on the implementation (D), not modelled in Lean; the Lean theorems '
    'cover the lexer and the table of readers of the spelling-carrying fields',
]
TRUSTED_EXTRA = ['translator/gen_oallex.py (keyword table, t_ID recognition mode, readers of cardinality/operator/value)',
                 'harness/gen_oal_text.py (program writer, re-speller)']
CHUNK = 400
CASE_TIMEOUT_S = 30
BUDGET_S = {'quick': 200, 'thorough': 1500}
SEARCH_S = {'quick': 100, 'thorough': 600}

MODES = ['upper', 'capital', 'mixed', 'mixed']
SPELL_FIELDS = {'cardinality', 'operator'}

_m = {}


def setup(ctx):
    import xtuml
    from bridgepoint import oal, interpret, prebuild, ooaofooa
    import oal_sexp
    _m.update(xtuml=xtuml, oal=oal, interpret=interpret, prebuild=prebuild, ooaofooa=ooaofooa, enc=oal_sexp)
    ld = xtuml.ModelLoader()
    ld.input(G.EXEC_SCHEMA)
    _m['exec_loader'] = ld
    _m['ooa_loader'] = ooaofooa.Loader()
    oal.parse('x = 1;')
    G.ply_tokens('x')


# ------------------------------------------------------------------------------------------ generation

def _spell_text(rng, prog, pl, mode):
    """the placed text with every keyword occurrence re-spelled in `mode` (same offsets)"""
    text = pl.text
    out = []
    pos = 0
    n = 0
    for i, tk in enumerate(prog.toks):
        if tk.role not in ('kw', 'end'):
            continue
        lex = pl.lexemes[i]
        new = G.respell_word(rng, lex, mode)
        if tk.role == 'end' and mode != 'lower':
            new = ''.join((rng.choice([' ', '\t']) if ch in ' \t' else ch) for ch in new)
        out.append(text[pos:pl.start[i]])
        out.append(new)
        pos = pl.stop[i]
        if new != lex:
            n += 1
    out.append(text[pos:])
    return ''.join(out), n


def _reselecting(base):
    """the program writer `base` (G.ExecGen / G.OpGen) with one more habit: a select statement may assign a variable
    that is ALREADY DECLARED at that point (by an earlier select / create of the same class, in the same or in an
    enclosing block) instead of declaring a fresh one - all three statement forms (from instances, from instances
    where, related by [where]), handles (one / any) and sets (many), at top level and inside if / while / for bodies.
    The keyword that says what the statement yields (one / any / many) is then the only thing that does: the variable
    already has its kind."""
    class Reselecting(base):
        RESELECT_P = 0.55

        def _declared(self):
            # handles that later statements do not rely on being non-empty (a re-selection may empty them), and sets
            sure = set(n for n, _ in self.safe)
            return [(n, c, False) for n, c in self.insts if n not in sure] + [(n, c, True) for n, c in self.sets]

        def _use(self, v, cls, many):
            # make what the statement yielded visible in the result
            self.idt('acc'); self.pn('EQUAL'); self.idt('acc'); self.pn('TIMES'); self.num(3); self.pn('PLUS')
            if many:
                self.kw('cardinality'); self.idt(v); self.end()
                return
            self.num(1); self.end()
            self.kw('if'); self.pn('LPAREN'); self.kw('not_empty'); self.idt(v); self.pn('RPAREN')
            self.idt('acc'); self.pn('EQUAL'); self.idt('acc'); self.pn('PLUS'); self.idt(v); self.pn('DOT')
            self.idt(self.r.choice(G.EXEC_CLASSES[cls])); self.end()
            self.end_tok('if'); self.end()

        def x_reselect(self):
            """one select statement into an already declared variable; False when nothing suitable is declared"""
            r = self.r
            cands = self._declared()
            if not cands:
                return False
            v, cls, many = r.choice(cands)
            # starts of a navigation that ends in cls with the multiplicity the variable needs
            starts = []
            for h, hc in self.insts:
                for nav in G.EXEC_NAV:
                    if nav[0] == hc and nav[1] == cls and (nav[4] or not many):
                        starts.append((h, nav))
            if hasattr(self, 'self_kw'):
                for nav in G.EXEC_NAV:
                    if nav[0] == 'A' and nav[1] == cls and (nav[4] or not many):
                        starts.append((None, nav))
            if starts and r.random() < 0.5:
                h, (frm, to, rel, phrase, nav_many) = r.choice(starts)
                card = 'many' if many else 'any' if nav_many else r.choice(['one', 'any'])
                if h is not None:
                    self.kw('if'); self.pn('LPAREN'); self.kw('not_empty'); self.idt(h); self.pn('RPAREN')
                self.kw('select'); self.kw(card); self.idt(v); self.kw('related'); self.kw('by')
                if h is None:
                    self.self_kw()
                else:
                    self.idt(h)
                self.pn('ARROW'); self.idt(to); self.pn('LSQBR'); self.idt(rel)
                if phrase:
                    self.pn('DOT'); self.t('TICKED_PHRASE', phrase)
                self.pn('RSQBR')
                if r.random() < 0.4:
                    self.where(to)
                self.end()
                if h is not None:
                    self.end_tok('if'); self.end()
                self.p.count('x-reselect-related')
            else:
                self.kw('select'); self.kw('many' if many else 'any'); self.idt(v); self.kw('from')
                self.kw('instances'); self.kw('of'); self.idt(cls)
                if r.random() < 0.5:
                    self.where(cls)
                    self.p.count('x-reselect-from-where')
                else:
                    self.p.count('x-reselect-from')
                self.end()
            self._use(v, cls, many)
            return True

        def x_select_from(self):
            if self.r.random() < self.RESELECT_P and self.x_reselect():
                return
            return base.x_select_from(self)

        def x_select_related(self):
            if self.r.random() < self.RESELECT_P and self.x_reselect():
                return
            return base.x_select_related(self)

        def end(self):
            base.end(self)
            if not getattr(self, 'preamble_done', False):
                # right after the first statement of every program (`acc = 1;`): two declarations, so that there is
                # something to select into again from the first statement on
                self.preamble_done = True
                base.x_select_from(self)
                base.x_select_from(self)
                if self.r.random() < 0.7:
                    self.x_reselect()
    return Reselecting


_reselect_gens = {}


def _gen_reselect_program(rng, kind, max_stmts):
    if not _reselect_gens:
        _reselect_gens['exec'] = _reselecting(G.ExecGen)
        _reselect_gens['op'] = _reselecting(G.OpGen)
    if kind == 'exec':
        return _reselect_gens['exec'](rng, max_stmts).program()
    return _reselect_gens['op'](rng, kind, max_stmts).program()


def _case(rng, kind, tag, reselect=False):
    if reselect:
        prog = _gen_reselect_program(rng, kind, rng.choice([3, 5, 7]))
        pl = G.layout(rng, prog, 'plain')
    elif kind == 'exec':
        prog = G.gen_exec_program(rng, max_stmts=rng.choice([4, 6, 8]))
        pl = G.layout(rng, prog, 'plain')
    elif kind in ('op', 'dattr'):
        prog = G.gen_op_program(rng, kind, max_stmts=rng.choice([3, 5, 7]))
        pl = G.layout(rng, prog, 'plain')
    else:
        prog = G.gen_program(rng, max_depth=rng.choice([2, 3]), max_stmts=rng.choice([2, 4, 6]))
        pl = G.layout(rng, prog, rng.choice(['plain', 'wild', 'tight']))
    texts = [['lower', pl.text]]
    changed = 0
    for mode in MODES:
        t, n = _spell_text(rng, prog, pl, mode)
        texts.append([mode, t])
        changed = max(changed, n)
    return {'kind': kind, 'texts': texts, 'respelled': changed, 'n': rng.choice([0, 1, 4, 9]),
            'stats': dict(prog.stats), 'gen': tag}


def generate(ctx):
    rng = ctx.rng.fork('op')
    for i in range(ctx.pick(100, 4000)):
        yield _case(rng.fork(i), 'op' if i % 4 else 'dattr', ['op', i])
    rng = ctx.rng.fork('exec')
    for i in range(ctx.pick(100, 5000)):
        yield _case(rng.fork(i), 'exec', ['exec', i])
    # select statements into already declared variables (see _reselecting)
    rng = ctx.rng.fork('reselect')
    for i in range(ctx.pick(120, 3000)):
        yield _case(rng.fork(i), ('exec', 'op', 'exec', 'dattr')[i % 4], ['reselect', i], reselect=True)
    rng = ctx.rng.fork('parse')
    for i in range(ctx.pick(500, 16000)):
        yield _case(rng.fork(i), 'parse', ['parse', i])
    # every op / dattr / exec case has been evaluated by now (the parse stream is several chunks long).  The programs
    # are generated to RUN: a body that ends in an exception under the lower-case spelling is compared by exception
    # class only, so effects after the failing statement are not observed - bound their share (a stub of the harness
    # that no longer fits the interpreter's calling convention once made every domain-function call raise)
    n_pre = ctx.stats.get('prebuild_ok', 0) + ctx.stats.get('prebuild_exception', 0)
    if n_pre and ctx.stats.get('prebuild_exception', 0) > max(3, PREBUILD_EXCEPTION_LIMIT * n_pre):
        raise getattr(common, 'BrokenTie', common.HarnessError)('%d of %d generated bodies cannot be prebuilt under the lower-case spelling (more '
                                  'than %.0f %%): the prebuilder family is not exercising what it is meant to'
                                  % (ctx.stats.get('prebuild_exception', 0), n_pre, 100 * PREBUILD_EXCEPTION_LIMIT))
    n_run = ctx.stats.get('run_ok', 0) + ctx.stats.get('run_exception', 0)
    if n_run and ctx.stats.get('run_exception', 0) > max(3, RUN_EXCEPTION_LIMIT * n_run):
        raise getattr(common, 'BrokenTie', common.HarnessError)('%d of %d generated bodies end in an exception under the lower-case spelling (more '
                                  'than %.0f %%): the interpreter families are not exercising what they are meant to'
                                  % (ctx.stats.get('run_exception', 0), n_run, 100 * RUN_EXCEPTION_LIMIT))


def search(ctx, broken):
    rng = ctx.rng.fork('search')
    i = 0
    while True:
        yield _case(rng.fork(i), 'exec' if i % 2 else 'op', ['search', i], reselect=i % 4 >= 2)
        i += 1
        if i % 4 == 0:
            yield _case(rng.fork(-i), 'parse', ['search-parse', i])


# ------------------------------------------------------------------------------------------ implementation

def _norm_tree(x):
    """oal_sexp tree with the spelling-carrying fields lower-cased"""
    enc = _m['enc']
    oal = _m['oal']
    if not isinstance(x, list) or not x or not isinstance(x[0], Sym):
        return [_norm_tree(e) for e in x] if isinstance(x, list) else x
    cls = getattr(oal, str(x[0]), None)
    fields = enc._fields(cls) if cls is not None else []
    out = [x[0]]
    for i, v in enumerate(x[1:]):
        name = fields[i] if i < len(fields) and len(fields) == len(x) - 1 else None
        if isinstance(v, str) and not isinstance(v, Sym):
            if name in SPELL_FIELDS or (name == 'value' and str(x[0]) == 'BooleanNode'):
                v = v.lower()
            elif name is not None and name.endswith('variable_name') and v.lower() == 'self':
                v = 'self'
            out.append(v)
        else:
            out.append(_norm_tree(v))
    return out


def _parse(text):
    oal = _m['oal']
    try:
        return 'tree', _norm_tree(_m['enc'].encode(oal.parse(text)))
    except oal.ParseException as e:
        return 'ParseException', None
    except Exception as e:
        return 'exception:%s' % type(e).__name__, None


def _population(m):
    out = []
    for kl in sorted(G.EXEC_ATTRS):
        rows = []
        for inst in m.select_many(kl):
            rows.append([_val(getattr(inst, a)) for a in G.EXEC_ATTRS[kl]])
        out.append([kl, sorted(rows, key=repr)])
    return out


def _val(v):
    if isinstance(v, bool):
        return 'T' if v else 'F'
    if isinstance(v, float):
        return '%r' % v
    if v is None:
        return 'none'
    return v


class _Log(object):
    """the external entity LOG of the instance-based bodies: Twice returns a value, Note has a side effect"""

    def __init__(self, m):
        self.m = m

    def Twice(self, v):
        return 2 * v

    def Note(self, v):
        a = self.m.select_any('A', lambda sel: sel.Id == 1)
        a.N = a.N + v


class _Color(object):
    Red = 1
    Green = 2


def _run(text, n, home='f'):
    m = _m['exec_loader'].build_metamodel()
    funcs = G.exec_functions(m)
    funcs['LOG'] = _Log(m)
    funcs['Color'] = _Color
    a_cls = type(m.select_any('A'))

    def count():
        a1 = m.select_any('A', lambda sel: sel.Id == 1)
        a1.N = a1.N + 100                       # class operation with a side effect
        return len(m.select_many('A'))
    a_cls.Count = staticmethod(count)
    funcs['A'] = a_cls
    # the interpreter resolves ::f() / LOG::f() through domain.find_symbol(name[, kind or kinds])
    m.find_symbol = lambda name, kind=None: funcs[name]
    try:
        if home == 'f':
            r = _m['interpret'].run_function(m, 'f', text, {'n': n})
        else:
            inst = m.select_any('A', lambda sel: sel.Id == 2)

            def bump(self_, v):
                self_.N = self_.N + v
                return self_.N
            type(inst).Bump = bump
            mc = m.find_metaclass('A')
            if home == 'op':
                r = _m['interpret'].run_operation(mc, 'op', text, {'n': n}, inst)
            else:
                r = _m['interpret'].run_derived_attribute(mc, 'D', text, 'D', inst)
        res = ['ok', _val(r)]
    except Exception as e:                       # the comparison is between spellings; the class is the observation
        res = ['exception', type(e).__name__]
    return res, _population(m)


def _mk_ooa():
    xt = _m['xtuml']
    relate = xt.relate
    where = xt.where_eq
    m = _m['ooa_loader'].build_metamodel()

    def pe(inst):
        relate(m.new('PE_PE'), inst, 8001)
        return inst

    def dt(name):
        return m.select_any('S_DT', where(Name=name))
    s_sync = pe(m.new('S_SYNC', Name='f'))
    relate(dt('void'), s_sync, 25)
    sp = m.new('S_SPARM', Name='n')
    relate(sp, s_sync, 24)
    relate(sp, dt('integer'), 26)
    for fn in G.EXEC_FUNCTIONS:
        relate(dt('boolean'), pe(m.new('S_SYNC', Name=fn)), 25)
    objs = {}
    for kl in sorted(G.EXEC_ATTRS):
        o = pe(m.new('O_OBJ', Key_Lett=kl, Name=kl))
        objs[kl] = o
        for a in G.EXEC_ATTRS[kl]:
            oa = m.new('O_ATTR', Name=a)
            relate(oa, o, 102)
            relate(oa, dt('string' if a == 'Name' else 'boolean' if a == 'Flag' else 'integer'), 114)
        for is_set, nm in ((False, 'inst_ref<%s>' % kl), (True, 'inst_ref_set<%s>' % kl)):
            d = pe(m.new('S_DT', Name=nm))
            ir = m.new('S_IRDT', isSet=is_set)
            relate(ir, d, 17)
            relate(ir, o, 123)
    for numb, ends in ((1, ('A', 'B')), (2, ('A', 'C')), (3, ('A', 'A'))):
        r = pe(m.new('R_REL', Numb=numb))
        for e in ends:
            oir = m.new('R_OIR')
            relate(oir, r, 201)
            relate(oir, objs[e], 201)
    # homes of instance-based bodies: operation A.op(n), derived attribute A.D; what they call: operation
    # A.Bump(v), class operation A.Count(), bridges LOG::Twice(v) / LOG::Note(v), events A1, A2 (instance state
    # machine) and A3 (assigner state machine)
    a = objs['A']

    def tfr(name, instance_based, ret, parms):
        t = m.new('O_TFR', Name=name, Instance_Based=instance_based)
        relate(t, a, 115)
        relate(t, dt(ret), 116)
        for pn in parms:
            tp = m.new('O_TPARM', Name=pn)
            relate(tp, t, 117)
            relate(tp, dt('integer'), 118)
        return t
    op = tfr('op', 1, 'integer', ['n'])
    tfr('Bump', 1, 'integer', ['v'])
    tfr('Count', 0, 'integer', [])
    ee = pe(m.new('S_EE', Name='LOG', Key_Lett='LOG'))
    for bn, ret in (('Twice', 'integer'), ('Note', 'void')):
        b = m.new('S_BRG', Name=bn)
        relate(b, ee, 19)
        relate(b, dt(ret), 20)
        bp = m.new('S_BPARM', Name='v')
        relate(bp, b, 21)
        relate(bp, dt('integer'), 22)
    for sm_kind, labels in (('SM_ISM', ('A1', 'A2')), ('SM_ASM', ('A3',))):
        sm = m.new('SM_SM')
        for k, lab in enumerate(labels):
            m.new('SM_EVT', SM_ID=sm.SM_ID, SMspd_ID=m.id_generator.next(), Numb=k + 1, Drv_Lbl=lab, Mning='go')
        m.new(sm_kind, Obj_ID=a.Obj_ID, SM_ID=sm.SM_ID)
    oa = m.new('O_ATTR', Name='D')
    relate(oa, a, 102)
    relate(oa, dt('integer'), 114)
    ob = m.new('O_BATTR')
    relate(ob, oa, 106)
    od = m.new('O_DBATTR')
    relate(od, ob, 107)
    return m, {'f': s_sync, 'op': op, 'dattr': od}


def _prebuild(text, home='f'):
    m, homes = _mk_ooa()
    homes[home].Action_Semantics_internal = text
    homes[home].Suc_Pars = 1
    try:
        _m['prebuild'].prebuild_model(m)
    except Exception as e:
        return ['exception', type(e).__name__]
    out = []
    for mc in m.metaclasses.values():
        k = mc.kind
        if not (k.startswith('ACT_') or k.startswith('V_') or k.startswith('E_')):
            continue
        for inst in mc.select_many():
            vals = []
            for name, ty in mc.attributes:
                if ty.upper() == 'UNIQUE_ID' or (k == 'ACT_SMT' and name == 'Label'):
                    continue
                vals.append([name, _val(getattr(inst, name))])
            out.append([k, vals])
    out.sort(key=repr)
    return ['ok', out]


def _first_diff(a, b, path=''):
    if type(a) != type(b) and not (isinstance(a, str) and isinstance(b, str)):
        return '%s: %r vs %r' % (path, _short(a), _short(b))
    if isinstance(a, list):
        if len(a) != len(b):
            return '%s: %d vs %d elements (%s | %s)' % (path, len(a), len(b), _short(a), _short(b))
        for i, (x, y) in enumerate(zip(a, b)):
            d = _first_diff(x, y, '%s/%s' % (path, a[0] if (i and isinstance(a[0], str)) else i))
            if d:
                return d
        return None
    return None if a == b else '%s: %r vs %r' % (path, a, b)


def _short(x):
    s = repr(x)
    return s if len(s) < 160 else s[:150] + '...'


def _tok_obs(text):
    out = []
    try:
        toks = G.ply_tokens(text + '\n')
    except Exception as e:
        # a lexer driven by the HARNESS over the whole text raised: an observation (the model has a token stream for
        # every text, so K fails on the case), never a failing input by itself and never a crash of the harness; if
        # oal.parse fails on the text too, D reports that outcome
        return [Sym('lexer-raised'), type(e).__name__]
    for t in toks:
        kind, lex = t[0], t[1]
        if kind in G.KWSET or kind in ('END_IF', 'END_FOR', 'END_WHILE'):
            lex = ''.join(chr(ord(c) + 32) if 'A' <= c <= 'Z' else c for c in lex)
        out.append([Sym(kind), lex])
    return out


def run_impl(case):
    texts = case['texts']
    base_mode, base = texts[0]
    fails = []
    stats = {'kind_' + case['kind']: 1}
    for k, v in case.get('stats', {}).items():
        stats['prod_' + k] = v

    def fail(sig, what, mode, text):
        if len(fails) < 4:
            fails.append({'sig': sig, 'what': '%s; lower-case program: %r ; %s program: %r' % (what, base, mode, text)})

    b_out, b_tree = _parse(base)
    stats['parse_' + b_out.split(':')[0]] = 1
    exec_kind = case['kind'] in ('exec', 'op', 'dattr')
    home = {'exec': 'f'}.get(case['kind'], case['kind'])
    if exec_kind:
        b_run = _run(base, case['n'], home)
        b_pre = _prebuild(base, home)
        stats['run_' + b_run[0][0]] = 1
        stats['prebuild_' + b_pre[0]] = 1
    # the spellings are evaluated back to back in this one process; in between a text that is REJECTED (a broken
    # copy of the program with a format-like token), at the end the lower-case text once more and the lower-case text
    # with layout around it (equal after strip()): nothing may leak from one parse / run / prebuild into the next
    broken = base[:len(base) // 2] + ' %s ) ( ' + base[len(base) // 2:]
    sequence = [(m, t, 'full') for m, t in texts[1:2]] + [('rejected', broken, 'reject')] + \
               [(m, t, 'full') for m, t in texts[2:4]] + [(m, t, 'noprebuild') for m, t in texts[4:]] + \
               [('lower-again', base, 'full'),
                                                         ('lower-padded', '\n  ' + base + '  \n', 'noprebuild')]
    for mode, text, how in sequence:
        if how == 'reject':
            o_bad, _ = _parse(text)
            stats['rejected_' + o_bad.split(':')[0]] = 1
            if not (o_bad == 'ParseException' or o_bad == 'tree'):
                fail('parse-outcome', 'parsing a malformed text ends with %s' % o_bad, mode, text)
            if exec_kind:
                _run(text, case['n'], home)
                _prebuild(text, home)
            continue
        out, tree = _parse(text)
        if out != b_out:
            fail('parse-outcome', 'parsing ends with %s for the lower-case spelling and %s for the %s spelling'
                 % (b_out, out, mode), mode, text)
            continue
        if tree != b_tree:
            fail('parse-tree', 'the syntax trees differ beyond cardinality/operator/boolean value spelling: %s'
                 % _first_diff(b_tree, tree), mode, text)
        if exec_kind:
            run = _run(text, case['n'], home)
            if run[0] != b_run[0]:
                fail('interpret-result', 'interpreting the body (home %s, n=%s) gives %r for the lower-case spelling '
                     'and %r for the %s spelling' % (home, case['n'], b_run[0], run[0], mode), mode, text)
            elif run[1] != b_run[1]:
                fail('interpret-population', 'the final populations differ: %s' % _first_diff(b_run[1], run[1]),
                     mode, text)
            if how == 'full':
                pre = _prebuild(text, home)
                if pre != b_pre:
                    fail('prebuild-instances', 'the prebuilt ACT_/V_/E_ instances differ: %s' % _first_diff(b_pre, pre),
                         mode, text)
    nontrivial = case.get('respelled', 0) >= 4 and b_out == 'tree' and (not exec_kind or b_run[0][0] == 'ok')
    try:
        obs = [_tok_obs(t) for _, t in texts]
    except UnicodeEncodeError:
        obs = None
    return {'obs': obs, 'd_fail': fails, 'nontrivial': nontrivial, 'key': base, 'stats': stats}


# ------------------------------------------------------------------------------------------ model

def model_line(case):
    try:
        for _, t in case['texts']:
            t.encode('utf-8')
    except UnicodeEncodeError:
        return None
    return dumps([Sym('c08-kinds')] + [t + '\n' for _, t in case['texts']])


def model_obs(case, ans):
    return ans


def shrink_candidates(case):
    """drop spellings: keep the lower-case program and one other"""
    texts = case['texts']
    if len(texts) > 2:
        for i in range(1, len(texts)):
            c = dict(case)
            c['texts'] = [texts[0], texts[i]]
            yield c
