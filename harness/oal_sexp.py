"""Generic encoder of bridgepoint.oal syntax trees as s-expressions (shared wire format).

  (NodeClassName <constructor argument 1> <constructor argument 2> ...)
  list-like nodes (StatementListNode, ElIfListNode, NavigationListNode, ParameterListNode,
  EventDataListNode):  (NodeClassName child1 child2 ...)
  strings -> "string", None -> none, nested nodes recursively.
With positions=True every node that has a position is wrapped as
  (@ (start_stream start_line start_column end_stream end_line end_column) "character_stream" <node>)

The field order is read from the node classes' __init__ signatures of the *workspace copy* of
bridgepoint/oal.py, so it follows the code that is being checked.
"""
import inspect

from sexp import Sym, NONE

_sig_cache = {}


def _fields(cls):
    if cls not in _sig_cache:
        try:
            params = list(inspect.signature(cls.__init__).parameters)[1:]
        except (TypeError, ValueError):
            params = []
        if params and params[0] in ('args',):
            params = []
        _sig_cache[cls] = params
    return _sig_cache[cls]


def encode(node, positions=False):
    from bridgepoint import oal
    if node is None:
        return NONE
    if isinstance(node, str):
        return node
    if isinstance(node, bool):
        return Sym('T') if node else Sym('F')
    if isinstance(node, int):
        return node
    if isinstance(node, (list, tuple)):
        return [encode(x, positions) for x in node]
    if not isinstance(node, oal.Node):
        return repr(node)
    cls = type(node)
    name = cls.__name__
    fields = _fields(cls)
    if not fields and isinstance(getattr(node, 'children', None), list):
        body = [Sym(name)] + [encode(c, positions) for c in node.children]
    else:
        body = [Sym(name)] + [encode(getattr(node, f), positions) for f in fields]
    if positions and getattr(node, 'position', None) is not None:
        p = node.position
        return [Sym('@'), [p.start_stream, p.start_line, p.start_column, p.end_stream, p.end_line, p.end_column],
                node.character_stream, body]
    return body
