"""C07 — OAL parsing follows the precedence table and ignores layout.

Interface to the Lean model: TOKEN level.  A case is a syntax tree (in the constructor format of
lean/PyxModel/Oal, which also records the optional words that were written) or, for the malformed
family, a bare token list.  The harness
  * prints the tree to tokens with its OWN printer (minimal parentheses from the order STATED IN THE PROPERTY, the
    table SPEC below — neither the `precedence` tuple of the code under test nor PLY's generated tables are read),
  * lays the tokens out as text (spaces, tabs, CR, newlines, /* */ and // comments between tokens — block comments with inner stars and
    slashes, ending in one to four stars, empty, multi-line, several per line, glued to the neighbouring tokens; `NS::`
    kept fused; `end if|for|while` one token with varied inner white space),
  * runs the real PLY lexer and parser on the text.

  D  (property predicate, oracle = the tree that was printed):
       the PLY token stream is exactly the printed tokens (layout and comments are ignored), and
       `oal.parse(text)` is exactly the tree (all optional-word choices give the same tree);
       family `spec`: flat operator texts `a o b o' c`, `u a o b`, `a o u b`, `a o (b o' c)` parse as the order
       STATED IN THE PROPERTY demands (or < and < comparisons < + - | < * / & ^ < % < unary; equal levels
       group to the left; comparisons do not chain) — this part does not read the workspace's table.
  K  (correspondence with lean/PyxModel/Oal, run with the GENERATED table):
       `printStmts tree` = the PLY token stream;  `parseStmts (PLY token stream)` = PLY's tree (also on the
       malformed family: both reject or both build the same tree);  and the model's parse gives back the tree
       with the optional-word choices (the instance of `stmt_roundtrip` for this case).
       The token stream sent to the model is the list of written tokens; run_impl checks on every case that the
       real lexer produces exactly that list (D, signature layout-changes-tokens), so the two are the same
       stream whenever no failure is reported.

  TEXT level (K, every case of every family): the driver also gets the LAYOUT (the separator before the first token
       and after every token), rebuilds the text and runs the composed model `parseText` = lexer model (tables
       generated from oal.py) + token conversion + parser model on it — the function `text_roundtrip` (Props/C07.lean) is
       about (`driver_text_parser`).  Compared: the lexer model's tokens with the real lexer's, and `parseText text` with
       `oal.parse(text)` (same tree or both reject).  The driver also decides, in Lean, whether the text lies in the PROVED
       domain (`inDomain`: every lexeme passes the Boolean `Well…` checks, every separator is layout, an empty one only
       where `tightOk` allows; sound: `driver_domain_sound`); counted per family (`domain_in`, `domain_out_lexemes`,
       `domain_out_layout`, each split into lexed-as-written / lexed-differently = how conservative the side conditions
       are); inside the domain the theorem's own prediction (lexed exactly as written, parsed to the written tree) is
       asserted (THEOREM-VIOLATED otherwise).
  family `seq` (docs/robustness-patterns.md 1, 2, 7): 3-5 texts through ONE lexer object, the worker's ONE OALParser and
       `oal.parse`, one after the other: A B A (the same text again after another one), rejected texts (damaged
       programs, operator soups) followed by accepted ones, two texts that differ in exactly one name's case / one blank
       inside a string / one digit (must give different trees), the same tree in two layouts around a rejected text.
       D: every text with a known tree parses to it whatever came before; both routes agree; a repeated text gives
       the same result; near-duplicates give different trees.  K: lexer model / parseText on every text.
  family `lit` (D and K, same predicates as the other tree families): the CONTENT of string constants and ticked phrases
       is drawn from everything that means something outside a literal (tab, blank runs, CR, FF, VT, no-break space,
       comment marks, operators, brackets, keywords, `end if`, the other quote, backslash, non-ASCII; line breaks in
       phrases) — the parsed node must carry it unchanged, in every layout.
  family `lexedge` (K only, no oracle): hand-written lexical edge cases (identifier `end`, `end  if` with unusual white
       space and glued neighbours, digits followed by letters / dots / signs, `/` next to comments, `%` next to `*` `/`,
       glued operators, keywords glued to names, odd strings, characters outside the alphabet, empty inputs, missing final
       newline / semicolon, huge literals) and all ordered pairs of 47 representative lexemes written WITHOUT a separator
       (bare and inside `x = u v ;`) — measures `LexemesOk` / `tightOk` and cross-checks the harness's own `tight_ok`
       against Lean's (`tight_py_*_lean_*`).

The parser tables are rebuilt from the grammar text of the workspace copy: setup() removes the editable
install's import finder, which would otherwise hand PLY the generated tables of /repo (PLY with optimize=1
accepts them without a signature check).  One OALParser is reused for the bulk of the cases; every 20th case
goes through `oal.parse` itself.
"""
import os

from sexp import Sym, dumps, loads, NONE

PROP = 'C07'
RULE = ('exhaustive expression trees with up to three levels of operators over the 16 binary and 6 unary operators '
        '(1 + 6*23 + 16*23^2 = 8603 shapes; operand kinds rotated over the leaves, statement context rotated); all '
        'ordered pairs of adjacent operators as flat texts against the order stated in the property (spec family); '
        'random expression trees to depth 8; random statement trees over every statement production with random '
        'layout, comments and optional-word choices; the same with keywords used as names wherever the grammar allows '
        '(variables also at the start of a statement, attributes, operation/function/parameter/event/class/relationship '
        'names, phrases written as identifiers); trees whose string constants and ticked phrases hold arbitrary literal '
        'characters - tabs, runs of blanks, CR / form feed / vertical tab, no-break spaces, comment marks, operators, '
        'keywords, the other quote, non-ASCII letters, line breaks in phrases (family lit: what is layout between tokens '
        'is content between quotes); operator/parenthesis soups (malformed family, K only); sequences of texts '
        'in one process (same text twice around another, rejected then accepted, near-duplicates); lexical edge-case texts '
        'and all ordered pairs of 47 representative lexemes written tight (K only). Every text of every family is also run '
        'through the composed text-level model (lexer model + parser model) and compared with oal.parse. '
        'Non-trivial: at least two operators, or a statement with an optional word / nested block; distinct = distinct text')
EXHAUSTIVE = {'quick': True, 'thorough': True}
ASSUMPTIONS = [
    'names are ID tokens or the keywords that the grammar allows in that position (kw_as_identifier_1 for variable names '
    'and rel ids, kw_as_identifier_1..4 for identifiers); the lists are written in the harness from the grammar text, a keyword '
    'keeps the spelling it was written with; namespaces (the token before ::) are never keywords',
    'keywords are written in lower case except where the node records the spelling (operators, cardinality, booleans, self in '
    'delete/relate), where upper case is mixed in; case-insensitivity of keywords is C08',
    'layout is inserted between tokens; `NS::` is one lexical unit (NAMESPACE look-ahead) and is kept fused',
]
TRUSTED_EXTRA = ['the harness printer / layout generator and its conversion of the model tree to the oal.py node encoding']
CHUNK = 3000
CASE_TIMEOUT_S = 20
BUDGET_S = {'quick': 200, 'thorough': 2400}

S = Sym
T_, F_ = Sym('T'), Sym('F')

BINOPS = [('PLUS', '+'), ('MINUS', '-'), ('PIPE', '|'), ('TIMES', '*'), ('DIV', '/'), ('MOD', '%'), ('AMP', '&'),
          ('CARET', '^'), ('LE', '<='), ('LESSTHAN', '<'), ('DOUBLEEQUAL', '=='), ('NOTEQUAL', '!='), ('GE', '>='),
          ('GT', '>'), ('AND', 'and'), ('OR', 'or')]
UNOPS = [('NOT', 'not'), ('EMPTY', 'empty'), ('NOT_EMPTY', 'not_empty'), ('CARDINALITY', 'cardinality'),
         ('PLUS', '+'), ('MINUS', '-')]
# the order STATED IN THE PROPERTY (independent of the code): level per binary operator, all left except comparisons
SPEC = {'OR': 1, 'AND': 2, 'LE': 3, 'LESSTHAN': 3, 'DOUBLEEQUAL': 3, 'NOTEQUAL': 3, 'GE': 3, 'GT': 3,
        'PLUS': 4, 'MINUS': 4, 'PIPE': 4, 'TIMES': 5, 'DIV': 5, 'AMP': 5, 'CARET': 5, 'MOD': 6}
SPEC_UNARY = 7

_oal = None
_parser = None
_lexer = None
_TABLE = None       # token name -> (level, assoc) as STATED IN THE PROPERTY (SPEC)
_ULEVEL = None
_CTX = None


# ------------------------------------------------------------------------------------------ setup

def setup(ctx):
    global _oal, _parser, _lexer, _TABLE, _ULEVEL, _CTX
    _CTX = ctx          # model_obs runs in the parent: the domain statistics of the driver are counted there
    import sys
    # PLY (optimize=1) imports `bridgepoint.__oal_parsetab` / `__oal_lextab` and uses them WITHOUT a signature
    # check.  The workspace copy has no such files, but the editable install of /repo registers a meta-path
    # finder that resolves `bridgepoint.<anything>` to /repo/bridgepoint, so the import would silently pick up
    # /repo's generated tables — stale with respect to the grammar text of the workspace.  Take that finder out
    # of this process, so that the tables are rebuilt from the grammar being checked.
    sys.meta_path[:] = [f for f in sys.meta_path if '__editable__' not in str(getattr(f, '__module__', ''))]
    for name in list(sys.modules):
        if name in ('bridgepoint.__oal_parsetab', 'bridgepoint.__oal_lextab'):
            del sys.modules[name]
    from bridgepoint import oal
    from ply import lex
    _oal = oal
    try:
        _parser = oal.OALParser()      # builds the LALR tables from the grammar of the workspace copy
    except Exception:                  # e.g. ply.yacc.YaccError: the grammar does not build; every case will say so
        _parser = None
    # the harness's lexer object is the one the LIBRARY builds: gen_oal_text.oal_lexer (shared with C08 / C13) runs the
    # current `OALParser.text_input` up to the point where it hands its lexer to the LALR parser, so the lexer carries
    # text_input's own lex.lex arguments and every attribute it sets (`label`, ...); nothing reads `oal.logger`
    import gen_oal_text as G
    try:
        _lexer = G.oal_lexer(_parser if _parser is not None else object.__new__(oal.OALParser), '<harness>')
    except Exception:       # the lexer rules do not build: every case observes `lexer-raised` (and the parse says why)
        _lexer = None
    here = os.path.realpath(os.path.dirname(oal.__file__))
    for name in ('bridgepoint.__oal_parsetab', 'bridgepoint.__oal_lextab'):
        m = sys.modules.get(name)
        if m is not None and not os.path.realpath(getattr(m, '__file__', here)).startswith(here):
            from common import HarnessError
            raise HarnessError('%s was loaded from %s, not rebuilt from the workspace grammar' % (name, m.__file__))
    # (robustness pattern 8) the printer's parentheses come from the order STATED IN THE PROPERTY (SPEC), not from the
    # `precedence` tuple of the code under test: the text of every tree family is what the property says the tree is
    # written as, whatever the workspace's table says
    _TABLE = dict((k, (lv, 'nonassoc' if lv == 3 else 'left')) for k, lv in SPEC.items())
    _ULEVEL = SPEC_UNARY


# ------------------------------------------------------------------------------------------ printer (Python oracle)

# keywords that the grammar accepts as names (kw_as_identifier_1..4 of oal.py, written here from the grammar text)
KW1 = ['across', 'any', 'assign', 'assigner', 'break', 'by', 'class', 'continue', 'control', 'create', 'creator',
       'delete', 'each', 'event', 'for', 'from', 'generate', 'in', 'instances', 'instance', 'many', 'object', 'one',
       'related', 'relate', 'select', 'stop', 'to', 'where', 'unrelate', 'using']
KW2 = ['bridge', 'cardinality', 'empty', 'false', 'not', 'not_empty', 'send', 'transform', 'true', 'of']
KW3 = ['param', 'rcvd_evt', 'selected', 'self']
KW4 = ['and', 'elif', 'else', 'if', 'or', 'return', 'while']
ALLKW = set(k.upper() for k in KW1 + KW2 + KW3 + KW4 + ['loop', 'then'])


def name_tok(n):
    """the token a name is lexed to: a keyword kind when the upper-cased lexeme is a keyword (t_ID), else ID"""
    u = n.upper()
    return (u, n) if u in ALLKW else ('ID', n)


def _lv(kind):
    return _TABLE.get(kind, (0, 'right'))


def _level(e):
    h = e[0]
    if h == 'un':
        return _ULEVEL
    if h == 'bin':
        return _lv(e[2])[0]
    return _ULEVEL + 1


def p_params(ps):
    out = []
    for i, (n, e) in enumerate(ps):
        if i:
            out.append(('COMMA', ','))
        out += [name_tok(n), ('COLON', ':')] + p_expr(e, 0)
    return out


def p_raw(e):
    h = e[0]
    if h == 'int':
        return [('NUMBER', e[1])]
    if h == 'real':
        return [('FRACTION', e[1])]
    if h == 'str':
        return [('STRING', e[1])]
    if h == 'bool':
        return [('TRUE' if e[1] == 'T' else 'FALSE', e[2])]
    if h == 'enumc':
        return [('NAMESPACE', e[1]), ('DOUBLECOLON', '::'), name_tok(e[2])]
    if h == 'var':
        return [name_tok(e[1])]
    if h == 'self':
        return [('SELF', 'self')]
    if h == 'selected':
        return [('SELECTED', 'selected')]
    if h == 'param':
        return [('PARAM', 'param'), ('DOT', '.'), name_tok(e[1])]
    if h == 'field':
        return p_raw(e[1]) + [('DOT', '.'), name_tok(e[2])]
    if h == 'index':
        return p_raw(e[1]) + [('LSQBR', '[')] + p_expr(e[2], 0) + [('RSQBR', ']')]
    if h == 'fcall':
        return [('DOUBLECOLON', '::'), name_tok(e[1]), ('LPAREN', '(')] + p_params(e[2]) + [('RPAREN', ')')]
    if h == 'icall':
        return [('NAMESPACE', e[1]), ('DOUBLECOLON', '::'), name_tok(e[2]), ('LPAREN', '(')] + p_params(e[3]) + [('RPAREN', ')')]
    if h == 'ocall':
        return p_raw(e[1]) + [('DOT', '.'), name_tok(e[2]), ('LPAREN', '(')] + p_params(e[3]) + [('RPAREN', ')')]
    if h == 'un':
        return [(str(e[1]), e[2])] + p_expr(e[3], _ULEVEL)
    if h == 'bin':
        lv, assoc = _lv(e[2])
        return p_expr(e[1], lv if assoc == 'left' else lv + 1) + [(str(e[2]), e[3])] + \
            p_expr(e[4], lv if assoc == 'right' else lv + 1)
    raise ValueError('bad expression %r' % (e,))


def p_expr(e, need):
    toks = p_raw(e)
    if _level(e) < need:
        return [('LPAREN', '(')] + toks + [('RPAREN', ')')]
    return toks


def _kw(k):
    return (k, k.lower())


def p_inst(i):
    return name_tok(i[1]) if i[0] == 'var' else ('SELF', i[1])


def p_phrase_tok(p):
    """a phrase is a ticked phrase (a string) or (ident name)"""
    return name_tok(p[1]) if isinstance(p, list) else ('TICKED_PHRASE', p)


def p_phrase(p):
    return [] if p == NONE else [('DOT', '.'), p_phrase_tok(p)]


def p_evspec(es):
    ident, star, meaning, parens, data = es
    out = [name_tok(ident)]
    if star == 'T':
        out.append(('TIMES', '*'))
    if meaning != NONE:
        out += [('COLON', ':'), p_phrase_tok(meaning)]
    if parens == 'T':
        out += [('LPAREN', '(')] + p_params(data) + [('RPAREN', ')')]
    return out


def p_target(tg):
    if tg[0] == 'cls':
        return [name_tok(tg[1]), _kw('ASSIGNER') if tg[2] == 'T' else _kw('CLASS')]
    if tg[0] == 'creator':
        return [name_tok(tg[1]), _kw('CREATOR')]
    return p_raw(tg[1])


def p_where(w):
    return [] if w == NONE else [_kw('WHERE')] + p_expr(w, 0)


def p_implicit(ns, n, ps):
    return [('NAMESPACE', ns), ('DOUBLECOLON', '::'), name_tok(n), ('LPAREN', '(')] + p_params(ps) + [('RPAREN', ')')]


IKW = {'bridge': 'BRIDGE', 'cls': 'TRANSFORM', 'port': 'SEND'}
CARD = {'one': 'ONE', 'any': 'ANY', 'many': 'MANY'}


def p_stmt(s):
    h = s[0]
    if h == 'brk':
        return [_kw('BREAK')]
    if h == 'cont':
        return [_kw('CONTINUE')]
    if h == 'ctrl':
        return [_kw('CONTROL'), _kw('STOP')]
    if h == 'ret':
        return [_kw('RETURN')] + ([] if s[1] == NONE else p_expr(s[1], 0))
    if h == 'assign':
        return ([_kw('ASSIGN')] if s[1] == 'T' else []) + p_raw(s[2]) + [('EQUAL', '=')] + p_expr(s[3], 0)
    if h == 'invoke':
        return p_raw(s[1])
    if h == 'kwCall':
        return [_kw(IKW[s[1]])] + ([] if s[2] == NONE else p_raw(s[2]) + [('EQUAL', '=')]) + p_implicit(s[3], s[4], s[5])
    if h == 'trCall':
        return [_kw('TRANSFORM')] + ([] if s[1] == NONE else p_raw(s[1]) + [('EQUAL', '=')]) + \
            p_raw([S('ocall'), s[2], s[3], s[4]])
    if h == 'sendEvent':
        return [_kw('SEND')] + p_implicit(s[1], s[2], s[3]) + [_kw('TO')] + p_expr(s[4], 0)
    if h == 'gen':
        return [_kw('GENERATE')] + p_evspec(s[1]) + [_kw('TO')] + p_target(s[2])
    if h == 'genPre':
        return [_kw('GENERATE')] + p_raw(s[1])
    if h == 'crtEv':
        return [_kw('CREATE'), _kw('EVENT'), _kw('INSTANCE'), name_tok(s[1]), _kw('OF')] + p_evspec(s[2]) + \
            [_kw('TO')] + p_target(s[3])
    if h == 'createObj':
        return [_kw('CREATE'), _kw('OBJECT'), _kw('INSTANCE'), name_tok(s[1]), _kw('OF'), name_tok(s[2])]
    if h == 'createObjNoVar':
        return [_kw('CREATE'), _kw('OBJECT'), _kw('INSTANCE'), _kw('OF'), name_tok(s[1])]
    if h == 'delete':
        return [_kw('DELETE'), _kw('OBJECT'), _kw('INSTANCE'), p_inst(s[1])]
    if h == 'forEach':
        return [_kw('FOR'), _kw('EACH'), name_tok(s[1]), _kw('IN'), name_tok(s[2])] + \
            ([_kw('LOOP')] if s[3] == 'T' else []) + p_block(s[4]) + [('END_FOR', 'end for')]
    if h == 'while':
        return [_kw('WHILE')] + p_expr(s[1], 0) + ([_kw('LOOP')] if s[2] == 'T' else []) + p_block(s[3]) + \
            [('END_WHILE', 'end while')]
    if h == 'if':
        out = [_kw('IF')] + p_expr(s[1], 0) + ([_kw('THEN')] if s[2] == 'T' else []) + p_block(s[3])
        for c, th, b in s[4]:
            out += [_kw('ELIF')] + p_expr(c, 0) + ([_kw('THEN')] if th == 'T' else []) + p_block(b)
        if s[5] != NONE:
            out += [_kw('ELSE')] + p_block(s[5][1])
        return out + [('END_IF', 'end if')]
    if h == 'rel':
        un = s[1] == 'T'
        return [_kw('UNRELATE' if un else 'RELATE'), p_inst(s[2]), _kw('FROM' if un else 'TO'), p_inst(s[3]),
                _kw('ACROSS'), name_tok(s[4])] + p_phrase(s[5]) + ([] if s[6] == NONE else [_kw('USING'), p_inst(s[6])])
    if h == 'selFrom':
        return [_kw('SELECT'), (CARD[s[1][0]], s[1][1]), name_tok(s[2]), _kw('FROM')] + \
            ([_kw('INSTANCES'), _kw('OF')] if s[3] == 'T' else []) + [name_tok(s[4])] + p_where(s[5])
    if h == 'selRel':
        out = [_kw('SELECT'), (CARD[s[1][0]], s[1][1]), name_tok(s[2]), _kw('RELATED'), _kw('BY')] + p_raw(s[3])
        for kl, r, ph in s[4]:
            out += [('ARROW', '->'), name_tok(kl), ('LSQBR', '['), name_tok(r)] + p_phrase(ph) + [('RSQBR', ']')]
        return out + p_where(s[5])
    raise ValueError('bad statement %r' % (s,))


def p_block(b):
    out = []
    for s in b:
        out += p_stmt(s) + [('SEMICOLON', ';')]
    return out


# ------------------------------------------------------------------------------------------ tree -> oal.py node encoding

def N(name, *xs):
    return [S(name)] + list(xs)


def y_params(ps, item='ParameterNode', lst='ParameterListNode'):
    return N(lst, *[N(item, n, y_expr(e)) for n, e in ps])


def y_expr(e):
    h = e[0]
    if h == 'int':
        return N('IntegerNode', e[1])
    if h == 'real':
        return N('RealNode', e[1])
    if h == 'str':
        return N('StringNode', e[1])
    if h == 'bool':
        return N('BooleanNode', e[2])
    if h == 'enumc':
        return N('EnumOrNamedConstantNode', e[1], e[2])
    if h == 'var':
        return N('VariableAccessNode', e[1])
    if h == 'self':
        return N('SelfAccessNode', 'self')
    if h == 'selected':
        return N('SelectedAccessNode', 'selected')
    if h == 'param':
        return N('ParamAccessNode', e[1])
    if h == 'field':
        return N('FieldAccessNode', y_expr(e[1]), e[2])
    if h == 'index':
        return N('IndexAccessNode', y_expr(e[1]), y_expr(e[2]))
    if h == 'fcall':
        return N('FunctionInvocationNode', e[1], y_params(e[2]))
    if h == 'icall':
        return N('ImplicitInvocationNode', e[1], e[2], y_params(e[3]))
    if h == 'ocall':
        return N('InstanceInvocationNode', y_expr(e[1]), e[2], y_params(e[3]))
    if h == 'un':
        return N('UnaryOperationNode', e[2], y_expr(e[3]))
    if h == 'bin':
        return N('BinaryOperationNode', y_expr(e[1]), e[3], y_expr(e[4]))
    raise ValueError('bad expression %r' % (e,))


def y_opt(e):
    return NONE if e == NONE else y_expr(e)


def y_evspec(es):
    return N('EventSpecNode', es[0], NONE if es[2] == NONE else y_phrase(es[2]), y_params(es[4], 'EventDataItemNode', 'EventDataListNode'))


def y_phrase(p):
    if p == NONE:
        return ''
    return "'%s'" % p[1] if isinstance(p, list) else p


IKCLS = {'bridge': 'BridgeInvocationNode', 'cls': 'ClassInvocationNode', 'port': 'PortInvocationNode'}


def y_stmt(s):
    h = s[0]
    if h == 'brk':
        return N('BreakNode')
    if h == 'cont':
        return N('ContinueNode')
    if h == 'ctrl':
        return N('ControlNode')
    if h == 'ret':
        return N('ReturnNode', y_opt(s[1]))
    if h == 'assign':
        return N('AssignmentNode', y_expr(s[2]), y_expr(s[3]))
    if h == 'invoke':
        return N('InvocationStatementNode', y_expr(s[1]))
    if h == 'kwCall':
        inv = N(IKCLS[s[1]], s[3], s[4], y_params(s[5]))
        return N('InvocationStatementNode', inv) if s[2] == NONE else N('AssignmentNode', y_expr(s[2]), inv)
    if h == 'trCall':
        inv = N('InstanceInvocationNode', y_expr(s[2]), s[3], y_params(s[4]))
        return N('InvocationStatementNode', inv) if s[1] == NONE else N('AssignmentNode', y_expr(s[1]), inv)
    if h == 'sendEvent':
        return N('GeneratePortEventNode', s[1], s[2], y_params(s[3]), y_expr(s[4]))
    if h == 'gen':
        tg = s[2]
        if tg[0] == 'cls':
            return N('GenerateClassEventNode', y_evspec(s[1]), tg[1])
        if tg[0] == 'creator':
            return N('GenerateCreatorEventNode', y_evspec(s[1]), tg[1])
        return N('GenerateInstanceEventNode', y_evspec(s[1]), y_expr(tg[1]))
    if h == 'genPre':
        return N('GeneratePreexistingNode', y_expr(s[1]))
    if h == 'crtEv':
        tg = s[3]
        if tg[0] == 'cls':
            return N('CreateClassEventNode', s[1], y_evspec(s[2]), tg[1])
        if tg[0] == 'creator':
            return N('CreateCreatorEventNode', s[1], y_evspec(s[2]), tg[1])
        return N('CreateInstanceEventNode', s[1], y_evspec(s[2]), y_expr(tg[1]))
    if h == 'createObj':
        return N('CreateObjectNode', s[1], s[2])
    if h == 'createObjNoVar':
        return N('CreateObjectNoVariableNode', s[1])
    if h == 'delete':
        return N('DeleteNode', s[1][1])
    if h == 'forEach':
        return N('ForEachNode', s[1], s[2], y_block(s[4]))
    if h == 'while':
        return N('WhileNode', y_expr(s[1]), y_block(s[3]))
    if h == 'if':
        return N('IfNode', y_expr(s[1]), y_block(s[3]),
                 N('ElIfListNode', *[N('ElIfNode', y_expr(c), y_block(b)) for c, _, b in s[4]]),
                 NONE if s[5] == NONE else N('ElseNode', y_block(s[5][1])))
    if h == 'rel':
        base = ('Unrelate' if s[1] == 'T' else 'Relate')
        if s[6] == NONE:
            return N(base + 'Node', s[2][1], s[3][1], s[4], y_phrase(s[5]))
        return N(base + 'UsingNode', s[2][1], s[3][1], s[4], y_phrase(s[5]), s[6][1])
    if h == 'selFrom':
        if s[5] == NONE:
            return N('SelectFromNode', s[1][1], s[2], s[4])
        return N('SelectFromWhereNode', s[1][1], s[2], s[4], y_expr(s[5]))
    if h == 'selRel':
        chain = N('NavigationListNode', *[N('NavigationStepNode', kl, r, y_phrase(ph)) for kl, r, ph in s[4]])
        if s[5] == NONE:
            return N('SelectRelatedNode', s[1][1], s[2], y_expr(s[3]), chain)
        return N('SelectRelatedWhereNode', s[1][1], s[2], y_expr(s[3]), chain, y_expr(s[5]))
    raise ValueError('bad statement %r' % (s,))


def y_block(b):
    return N('BlockNode', N('StatementListNode', *[y_stmt(s) for s in b]))


def y_body(b):
    return N('BodyNode', y_block(b))


# ------------------------------------------------------------------------------------------ layout

_TIGHT = {'LPAREN', 'RPAREN', 'LSQBR', 'RSQBR', 'COMMA', 'SEMICOLON'}
_WS = [' ', '  ', '\t', '\n', '\r\n', ' \n ', '\n\n', ' \t ']
_COMMENTS = ['/* c */', '/**/', '/* a\n b */', '/* ** / */', '/* "x" \'y\' */', '/*x = 1;*/', '// line\n', '//\n',
             '// if then end if; /* \n', '/* // */', '/***/', '/****/', '/******/', '/* section **/', '/*** x ***/',
             '/**\n * doc\n **/', '/* a * b ** c *** d ****/', '/*/ x */', '/* x = 1; **/', '/***\n***/', '// **/ x\n']
_INNER = [' ', '  ', '\t', '\n', ' \n\t', '\r\n', '   ', '\t\t', '\n\n', '\x0c', ' \x0b ', '\x1f', '\u00a0', '\u2003 ']
_CBODY = ['c', 'x = 1;', ' ', '  ', '\n', '\n * ', '*', '**', '***', ' * ', '/', ' / ', '//', '/ *', '* /', '"s"', "'p'",
          'end if', 'return y;', '-', '->', '::', 'a*b', '*x', 'x*', '\t', '\r\n', '(', ')', ';']


def block_comment(rng):
    """`/*` body `*`{1..4} `/` : the body is any mix of text, star runs, slashes and newlines that does not contain `*/`"""
    body = ''.join(rng.choice(_CBODY) for _ in range(rng.choice([0, 0, 1, 1, 2, 3, 5])))
    while '*/' in body:
        body = body.replace('*/', '* /')
    return '/*' + body + '*' * rng.choice([1, 1, 2, 2, 3, 4]) + '/'


def comment(rng):
    x = rng.random()
    if x < 0.35:
        return rng.choice(_COMMENTS)
    if x < 0.9:
        return block_comment(rng)
    return '//' + ''.join(rng.choice(_CBODY + ['*/', '/*']) for _ in range(rng.choice([0, 1, 2]))).replace('\n', ' ').replace('\r', ' ') + '\n'


# every fixed-string token of the language (the harness's own list: the decision which gaps may be empty must not
# come from the implementation under test)
_LITS = ['==', '!=', '<=', '>=', '->', '::', '<', '>', '=', '+', '-', '*', '/', '%', '|', '&', '^', '(', ')', '[', ']',
         ',', ';', ':', '.', '?']


def _wordch(c):
    return c.isalnum() or c == '_' or ord(c) > 127


def tight_ok(k, lx, nlx):
    """may the lexeme `lx` of kind `k` be directly followed by the text `nlx` (no separator)?  The Python twin of
    `tightOk` (lean/PyxModel/Oal/LexClass.lean, proved sufficient in Proofs/OalTight.lean: layout_irrelevant_tight),
    conservative where they differ: a word must not be followed by a word character or `::`; a number neither by
    those nor by a digit or `.`; a fraction neither by those nor by `e E + - f F l L`; `/` not by `*` or `/`; another
    fixed-string token not by a character that continues a longer fixed-string token, `.` not by a digit; strings,
    phrases and `end if` may be followed by anything."""
    if not nlx:
        return True
    c, two = nlx[0], nlx[:2]
    if k in ('STRING', 'TICKED_PHRASE', 'END_IF', 'END_FOR', 'END_WHILE'):
        return True
    if k == 'NUMBER':
        return not (_wordch(c) or c.isdigit() or c == '.' or two == '::')
    if k == 'FRACTION':
        return not (_wordch(c) or c.isdigit() or c in '.eE+-fFlL' or two == '::')
    if lx == '/':
        return c not in '*/'
    if lx in _LITS:
        if lx == '.' and (c.isdigit() or ord(c) > 127):
            return False
        return not any(l.startswith(lx + c) for l in _LITS)
    if _wordch(lx[-1]):                    # identifiers, keywords, namespaces
        return not (_wordch(c) or two == '::')
    return False


_EOF_ENDINGS = [' // done', '// x = 1;', '\n// last line', '\n\t// a /* b', '//', ' // */ x', ' /* end */', '/**/', ' /* a\n b **/',
                '  ', '\t', '\n', '\r\n', ' \n ', ' // one\n// two']


def layout(toks, rng, mode):
    """tokens -> (text, tokens as they should be lexed); see layout3"""
    text, want, _ = layout3(toks, rng, mode)
    return text, want


def layout3(toks, rng, mode):
    """tokens -> (text, tokens as they should be lexed, [sep0, gap after token 1, ..., gap after token N]) with
    text = sep0 + lexeme1 + gap1 + ... + lexemeN + gapN.  mode 0: single spaces; 1: random white space;
    2: random white space, some comments, tight brackets; 3: a comment in (nearly) every gap, glued to the
    token before it, to the token after it, or to both, often several comments and statements on one line;
    4: NOTHING between two tokens wherever `tight_ok` allows (`a+b`, `x=1;`, `a->B[R1]`, `f(p:1)`), one white-space
    string elsewhere; 5: as 2, but every gap that `tight_ok` allows is left empty with probability 0.6"""
    want = []
    n = len(toks)
    gaps = [''] * n
    for i, (k, lx) in enumerate(toks):
        if k in ('END_IF', 'END_FOR', 'END_WHILE') and mode:
            a, b = lx.split()
            lx = a + rng.choice(_INNER) + b
        want.append((k, lx))
        if i + 1 == n:
            break
        nk = toks[i + 1][0]
        if k == 'NAMESPACE' and nk == 'DOUBLECOLON':
            continue
        if mode == 0:
            gaps[i] = ' '
            continue
        if mode == 2 and (k in _TIGHT or nk in _TIGHT) and rng.random() < 0.5:
            continue
        if mode in (4, 5):
            nlx = toks[i + 1][1]
            if nk == 'NAMESPACE' and i + 2 < n and toks[i + 2][0] == 'DOUBLECOLON':
                nlx = nlx + '::'
            if tight_ok(k, lx, nlx) and (mode == 4 or rng.random() < 0.6):
                continue
            if mode == 4:
                gaps[i] = rng.choice(_WS)
                continue
        if mode == 3:
            if rng.random() < 0.15:
                gaps[i] = ' '
                continue
            c = comment(rng)
            if rng.random() < 0.2:
                c = c + rng.choice(['', ' ']) + comment(rng)
            glue = rng.randrange(4)          # 0: ' c ', 1: 'c ', 2: ' c', 3: 'c'
            before = '' if (glue in (1, 3) and not lx.endswith('/')) else ' '
            after = '' if glue in (2, 3) else ' '
            gaps[i] = before + c + after
            continue
        parts = [rng.choice(_WS)]
        if mode in (2, 5):
            r = rng.random()
            if r < 0.25:
                parts.append(comment(rng))
                if rng.random() < 0.5:
                    parts.append(rng.choice(_WS))
                if rng.random() < 0.3 and not lx.endswith('/'):
                    parts.pop(0)          # the comment directly after the token
            elif r < 0.3:
                parts += [comment(rng), rng.choice(_WS), comment(rng)]
        gaps[i] = ''.join(parts)
    sep0 = ''
    if mode >= 2 and rng.random() < 0.3:
        sep0 = rng.choice(_WS + [comment(rng)])
    if mode >= 2 and rng.random() < 0.3 and n:
        gaps[n - 1] = rng.choice(_WS + [comment(rng)])
    elif mode >= 1 and n and rng.random() < 0.08:
        # how the TEXT ends (such texts go through the public entry `oal.parse(text)`, which has to supply the final
        # line break itself): a `//` comment that is not followed by a line break, a block comment, blanks, a line break
        gaps[n - 1] = rng.choice(_EOF_ENDINGS)
    text = sep0 + ''.join(lx + g for (_, lx), g in zip(want, gaps))
    return text, want, [sep0] + gaps


# ------------------------------------------------------------------------------------------ generators of trees

NAMES = ['x', 'y', 'cnt', 'inst_1', '_v', 'A1', 'dog', 'i', 'total', 'Z9', 'o', 'arr', 'X', 'Cnt', 'a1', 'DOG']
KLS = ['K', 'A', 'Dog', 'X_Y', 'B2']
RELS = ['R1', 'R22', 'R3']
NSS = ['NS', 'LOG', 'ARCH', 'T1', 'e_2', 'string', 'DOT', 'Number']
FNS = ['f', 'g', 'LogInfo', 'op', 'm_1']
PHRASES = ["'is owned by'", "'owns'", "''", "'a.b'", "'x\ny'", "'/* no */'"]
INTS = ['0', '1', '42', '007', '2147483648', '9007199254740993', '18446744073709551616']
REALS = ['1.5', '.5', '2.', '3.25', '10.0', '1e5', '2.E3', '7.5f']
# OAL strings have no escape sequences: a backslash is an ordinary character, also directly before the closing quote
STRS = ['""', '"hi"', '"a b"', '"/* c */"', '"// d"', '"it\'s"', '"x=1;"', '"C:\\temp\\"', '"\\"', '"a\\b"', '"\\\\"',
        '"\\n"', '"100%\\"']


# --- family `lit`: the CONTENT of a string constant / ticked phrase is part of the tree, whatever characters it is made of.
# Between tokens a blank, a tab, a CR, a comment, ... are layout; between the quotes they are ordinary characters that
# the parsed node has to carry unchanged.  Contents are drawn from everything that means something OUTSIDE a literal:
# layout characters (runs of blanks, tabs at every column, CR, form feed, vertical tab, no-break space), comment
# openers and closers, operators, brackets, separators, keywords, the other kind of quote, backslashes, non-ASCII letters.
_LIT_UNITS = [' ', '  ', '   ', '\t', '\t\t', ' \t', '\t ', '\r', '\x0c', '\x0b', '\u00a0', '\u2003', 'a', 'b', 'one', 'two',
              'x', 'Z', '_', '0', '1', '42', '1.5', '/*', '*/', '/**/', '//', '/', '*', ';', '=', '==', '::', '->', '.',
              ',', ':', '(', ')', '[', ']', '\\', '%', '+', '-', '<', '>', '!', '|', '&', '^', '?', '@', '#', '$', '{', '}',
              '`', '~', 'end if', 'end\tfor', 'self', 'not', 'and', 'assign', 'then', '\u00e9', '\u00df', '\u4e2d']


def lit_content(r, exclude):
    """a random literal content: 0..6 units, none of the characters of `exclude` (the closing quote; for a string also
    the line break, which a string constant cannot contain)"""
    units = _LIT_UNITS + (['\n', ' \n\t', '\r\n', '"'] if '\n' not in exclude else ["'"])
    s = ''.join(r.choice(units) for _ in range(r.choice([0, 1, 1, 2, 2, 3, 3, 4, 6])))
    return ''.join(ch for ch in s if ch not in exclude)


def lit_string(r):
    return '"' + lit_content(r, '"\n') + '"'


def lit_phrase(r):
    return "'" + lit_content(r, "'") + "'"


def _is_ticked(x):
    return isinstance(x, str) and not isinstance(x, Sym) and len(x) >= 2 and x[0] == "'" and x[-1] == "'"


def _is_strnode(x):
    return isinstance(x, list) and len(x) == 2 and isinstance(x[0], Sym) and x[0] == 'str' and isinstance(x[1], str)


def respell_literals(x, r, p=1.0):
    """the same tree with the content of every string constant and every ticked phrase redrawn (each with probability p);
    names never begin with a tick, so a plain string that does is a ticked phrase"""
    if _is_strnode(x):
        return [x[0], lit_string(r)] if r.random() < p else x
    if _is_ticked(x):
        return lit_phrase(r) if r.random() < p else x
    if isinstance(x, list):
        return [respell_literals(y, r, p) for y in x]
    return x


def lit_expr(r, depth):
    """an expression whose operands are mostly string constants"""
    if depth <= 0 or r.random() < 0.3:
        if r.random() < 0.75:
            return [S('str'), lit_string(r)]
        return atom(r.choice([0, 2, 5, 9, 10, 11, 12, 13]), r, 1)
    if r.random() < 0.15:
        k, lx = op_un(r.randrange(6), r)
        return [S('un'), k, lx, lit_expr(r, depth - 1)]
    k, lx = op_bin(r.randrange(16), r)
    return [S('bin'), lit_expr(r, depth - 1), k, lx, lit_expr(r, depth - 1)]


def lit_params(r):
    return [[idn(r), lit_expr(r, r.choice([0, 0, 1]))] for _ in range(r.choice([1, 1, 2, 3]))]


def lit_stmt(r, j):
    """one statement of each production that carries a ticked phrase (always written, always ticked) or takes string
    arguments"""
    k = j % 8
    if k == 0:
        return [S('rel'), flag(r), inst_name(r), inst_name(r), vn(r, RELS), lit_phrase(r), inst_name(r) if r.random() < 0.5 else NONE]
    if k == 1:
        hook = [S('self')] if r.random() < 0.3 else chain(r, 1, var_access=True)
        steps = [[idn(r, KLS), idn(r, RELS), lit_phrase(r) if r.random() < 0.8 else NONE] for _ in range(r.choice([1, 2, 3]))]
        return [S('selRel'), card(r, True), vn(r), hook, steps, lit_expr(r, 2) if r.random() < 0.5 else NONE]
    if k in (2, 3):
        parens = r.random() < 0.7
        es = [idn(r, ['E1', 'ev_2', 'Done']), flag(r, 0.3), lit_phrase(r), T_ if parens else F_, lit_params(r) if parens else []]
        return [S('gen'), es, target(r)] if k == 2 else [S('crtEv'), vn(r), es, target(r)]
    if k == 4:
        if r.random() < 0.5:
            return [S('invoke'), [S('icall'), r.choice(NSS), idn(r, FNS), lit_params(r)]]
        return [S('invoke'), [S('fcall'), idn(r, FNS), lit_params(r)]]
    if k == 5:
        return [S('kwCall'), S(r.choice(['bridge', 'cls', 'port'])), chain(r, 0, var_access=True) if r.random() < 0.5 else NONE,
                r.choice(NSS), idn(r, FNS), lit_params(r)]
    if k == 6:
        return [S('sendEvent'), r.choice(NSS), idn(r, FNS), lit_params(r), lit_expr(r, 1)]
    return [S('selFrom'), card(r, False), vn(r), flag(r), idn(r, KLS), lit_expr(r, 2)]


def _kw_spelling(r, w):
    return r.choice([w, w, w.upper(), w.capitalize()])


# the NAMES of the token types that are not keywords (written here from the token list of the grammar): as words they are
# ordinary identifiers — `number`, `string`, `times`, `dot`, `comment`, `le`, `id`, ... in any letter case
TOKEN_TYPE_WORDS = ['id', 'namespace', 'number', 'fraction', 'string', 'ticked_phrase', 'qmark', 'doubleequal', 'notequal',
                    'lessthan', 'le', 'gt', 'ge', 'plus', 'minus', 'pipe', 'div', 'mod', 'amp', 'caret', 'times', 'colon',
                    'comma', 'arrow', 'lsqbr', 'rsqbr', 'dot', 'doublecolon', 'lparen', 'rparen', 'semicolon', 'equal',
                    'comment', 'sl_string', 'end_for', 'end_if', 'end_while', 'unary', 'lt', 'newline', 'error']
_P_TOKEN_WORD = 0.05


def _token_word(r):
    w = r.choice(TOKEN_TYPE_WORDS)
    return r.choice([w, w, w.upper(), w.capitalize()])


def vn(r, pool=None):
    """a `variable_name` / `rel_id`: from the pool, or (with probability r.kwp) a kw_as_identifier_1 keyword, or (5 %)
    a word that spells the name of a non-keyword token type"""
    if r.random() < getattr(r, 'kwp', 0.0):
        return _kw_spelling(r, r.choice(KW1))
    if r.random() < _P_TOKEN_WORD:
        return _token_word(r)
    return r.choice(pool or NAMES)


def idn(r, pool=None):
    """an `identifier`: from the pool, or (with probability r.kwp) any keyword the grammar allows as identifier"""
    if r.random() < getattr(r, 'kwp', 0.0):
        return _kw_spelling(r, r.choice(KW1 + KW2 + KW3 + KW4))
    if r.random() < _P_TOKEN_WORD:
        return _token_word(r)
    return r.choice(pool or NAMES)


def mk_int(r):
    return [S('int'), r.choice(INTS)]


def atom(kind, r, depth=0):
    """one operand of the given kind (0..13); nested expressions are small"""
    k = kind % 14
    if k == 0:
        return mk_int(r)
    if k == 1:
        return [S('real'), r.choice(REALS)]
    if k == 2:
        return [S('str'), r.choice(STRS)]
    if k == 3:
        b = r.random() < 0.5
        return [S('bool'), T_ if b else F_, r.choice(['true', 'TRUE', 'True'] if b else ['false', 'FALSE', 'fAlse'])]
    if k == 4:
        return [S('enumc'), r.choice(NSS), idn(r)]
    if k == 5:
        return [S('var'), vn(r)]
    if k == 6:
        return [S('self')]
    if k == 7:
        return [S('selected')]
    if k == 8:
        return [S('param'), vn(r)]
    if k == 9:
        return chain(r, depth, force='field')
    if k == 10:
        return chain(r, depth, force='index')
    if k == 11:
        return [S('fcall'), idn(r, FNS), params(r, depth)]
    if k == 12:
        return [S('icall'), r.choice(NSS), idn(r, FNS), params(r, depth)]
    return [S('ocall'), r.choice([[S('var'), vn(r)], [S('self')], [S('selected')]]), idn(r, FNS), params(r, depth)]


def small_expr(r, depth):
    if depth >= 2 or r.random() < 0.5:
        return atom(r.choice([0, 1, 2, 3, 5, 5, 8]), r, depth + 1)
    return rand_expr(r, 2, depth + 1)


def params(r, depth):
    return [[idn(r), small_expr(r, depth + 1)] for _ in range(r.choice([0, 0, 1, 1, 2, 3]))]


def chain(r, depth, force=None, var_access=False):
    """an access chain; var_access=True: a `variable_access` (not bare self/selected)"""
    base = r.choice([[S('var'), vn(r)], [S('var'), vn(r)], [S('self')], [S('selected')],
                     [S('param'), vn(r)]])
    n = r.choice([0, 1, 1, 2, 3])
    if force:
        n = max(n, 1)
    e = base
    for i in range(n):
        last = (i == n - 1)
        want_index = (force == 'index') if (last and force) else (r.random() < 0.35)
        if want_index and e[0] not in ('self', 'selected'):
            e = [S('index'), e, small_expr(r, depth + 1)]
        elif want_index and last and force == 'index':
            e = [S('index'), [S('field'), e, idn(r)], small_expr(r, depth + 1)]
        else:
            e = [S('field'), e, idn(r)]
    if var_access and e[0] in ('self', 'selected'):
        e = [S('field'), e, idn(r)]
    return e


def op_bin(i, r=None):
    k, lx = BINOPS[i % 16]
    if r is not None and k in ('AND', 'OR') and r.random() < 0.2:
        lx = lx.upper()
    return S(k), lx


def op_un(i, r=None):
    k, lx = UNOPS[i % 6]
    if r is not None and lx.isalpha() and r.random() < 0.2:
        lx = lx.upper()
    return S(k), lx


def rand_expr(r, depth, adepth=0):
    if depth <= 0 or r.random() < 0.22:
        return atom(r.randrange(14), r, adepth)
    if r.random() < 0.25:
        k, lx = op_un(r.randrange(6), r)
        return [S('un'), k, lx, rand_expr(r, depth - 1, adepth)]
    k, lx = op_bin(r.randrange(16), r)
    return [S('bin'), rand_expr(r, depth - 1, adepth), k, lx, rand_expr(r, depth - 1, adepth)]


def flag(r, p=0.5):
    return T_ if r.random() < p else F_


def inst_name(r):
    if r.random() < 0.2:
        return [S('self'), r.choice(['self', 'SELF', 'Self'])]
    return [S('var'), vn(r)]


def phrase(r):
    """`phrase : TICKED_PHRASE | identifier`"""
    return [S('ident'), idn(r, ['owner', 'next', 'p_1'])] if r.random() < 0.25 else r.choice(PHRASES)


def opt_phrase(r):
    return phrase(r) if r.random() < 0.5 else NONE


def evspec(r):
    parens = r.random() < 0.6
    data = params(r, 1) if parens else []
    return [idn(r, ['E1', 'ev_2', 'Done']), flag(r, 0.3), opt_phrase(r),
            T_ if parens else F_, data]


def target(r):
    x = r.random()
    if x < 0.3:
        return [S('cls'), idn(r, KLS), flag(r)]
    if x < 0.5:
        return [S('creator'), idn(r, KLS)]
    if x < 0.65:
        return [S('inst'), [S('self')]]
    return [S('inst'), chain(r, 1, var_access=True)]


def card(r, allow_one):
    c = r.choice(['one', 'any', 'many'] if allow_one else ['any', 'many'])
    return [S(c), r.choice([c, c.upper(), c.capitalize()])]


def opt_where(r, ed):
    return rand_expr(r, ed) if r.random() < 0.5 else NONE


STMT_KINDS = ['brk', 'cont', 'ctrl', 'ret', 'assign', 'invoke', 'kwCall', 'trCall', 'sendEvent', 'gen', 'genPre',
              'crtEv', 'createObj', 'createObjNoVar', 'delete', 'forEach', 'while', 'if', 'rel', 'selFrom', 'selRel']


def rand_stmt(r, kind, bdepth, ed):
    if kind == 'brk':
        return [S('brk')]
    if kind == 'cont':
        return [S('cont')]
    if kind == 'ctrl':
        return [S('ctrl')]
    if kind == 'ret':
        return [S('ret'), rand_expr(r, ed) if r.random() < 0.8 else NONE]
    if kind == 'assign':
        return [S('assign'), flag(r), chain(r, 0, var_access=True), rand_expr(r, ed)]
    if kind == 'invoke':
        return [S('invoke'), atom(r.choice([11, 12, 13]), r)]
    if kind == 'kwCall':
        return [S('kwCall'), S(r.choice(['bridge', 'cls', 'port'])), chain(r, 0, var_access=True) if r.random() < 0.5 else NONE,
                r.choice(NSS), idn(r, FNS), params(r, 0)]
    if kind == 'trCall':
        return [S('trCall'), chain(r, 0, var_access=True) if r.random() < 0.5 else NONE,
                r.choice([[S('var'), vn(r)], [S('self')], [S('selected')]]), idn(r, FNS), params(r, 0)]
    if kind == 'sendEvent':
        return [S('sendEvent'), r.choice(NSS), idn(r, FNS), params(r, 0), rand_expr(r, ed)]
    if kind == 'gen':
        return [S('gen'), evspec(r), target(r)]
    if kind == 'genPre':
        return [S('genPre'), chain(r, 0, var_access=True)]
    if kind == 'crtEv':
        return [S('crtEv'), vn(r), evspec(r), target(r)]
    if kind == 'createObj':
        return [S('createObj'), vn(r), idn(r, KLS)]
    if kind == 'createObjNoVar':
        return [S('createObjNoVar'), idn(r, KLS)]
    if kind == 'delete':
        return [S('delete'), inst_name(r)]
    if kind == 'forEach':
        return [S('forEach'), vn(r), vn(r), flag(r), rand_block(r, bdepth - 1, ed)]
    if kind == 'while':
        return [S('while'), rand_expr(r, ed), flag(r), rand_block(r, bdepth - 1, ed)]
    if kind == 'if':
        elifs = [[rand_expr(r, ed), flag(r), rand_block(r, bdepth - 1, ed)] for _ in range(r.choice([0, 0, 1, 2]))]
        els = [S('else'), rand_block(r, bdepth - 1, ed)] if r.random() < 0.5 else NONE
        return [S('if'), rand_expr(r, ed), flag(r), rand_block(r, bdepth - 1, ed), elifs, els]
    if kind == 'rel':
        return [S('rel'), flag(r), inst_name(r), inst_name(r), vn(r, RELS), opt_phrase(r),
                inst_name(r) if r.random() < 0.5 else NONE]
    if kind == 'selFrom':
        return [S('selFrom'), card(r, False), vn(r), flag(r), idn(r, KLS), opt_where(r, ed)]
    if kind == 'selRel':
        hook = [S('self')] if r.random() < 0.3 else chain(r, 1, var_access=True)
        steps = [[idn(r, KLS), idn(r, RELS), opt_phrase(r)] for _ in range(r.choice([1, 1, 2, 3]))]
        return [S('selRel'), card(r, True), vn(r), hook, steps, opt_where(r, ed)]
    raise ValueError(kind)


def rand_block(r, bdepth, ed):
    if bdepth <= 0:
        n = r.choice([0, 1, 1, 2])
        kinds = [k for k in STMT_KINDS if k not in ('forEach', 'while', 'if')]
    else:
        n = r.choice([0, 1, 2, 2, 3])
        kinds = STMT_KINDS
    return [rand_stmt(r, r.choice(kinds), bdepth, ed) for _ in range(n)]


def wrap_expr(e, ctxno, r):
    """put an expression into one of the statement contexts where expressions occur"""
    c = ctxno % 8
    v = [S('var'), 'x']
    blk = [[S('brk')]]
    if c == 0:
        return [[S('ret'), e]]
    if c == 1:
        return [[S('assign'), F_, v, e]]
    if c == 2:
        return [[S('while'), e, T_, blk]]
    if c == 3:
        return [[S('while'), e, F_, [[S('assign'), F_, v, mk_int(r)]]]]
    if c == 4:
        return [[S('if'), e, F_, [[S('invoke'), [S('fcall'), 'f', []]]], [[e, F_, blk]], NONE]]
    if c == 5:
        return [[S('selFrom'), [S('any'), 'any'], 'x', T_, 'K', e]]
    if c == 6:
        return [[S('assign'), T_, [S('index'), [S('var'), 'a'], e], [S('fcall'), 'f', [['p', e]]]]]
    return [[S('if'), e, T_, [], [], [S('else'), [[S('ret'), NONE]]]]]


# ------------------------------------------------------------------------------------------ cases

def _case(fam, block, lay, mode, extra=None):
    c = {'fam': fam, 'tree': dumps(block), 'lay': lay, 'mode': mode}
    if extra:
        c.update(extra)
    return c


def _level1(i, leaf):
    """the 23 shapes of up to one operator level over atoms"""
    if i == 0:
        return leaf()
    if i <= 6:
        k, lx = op_un(i - 1)
        return [S('un'), k, lx, leaf()]
    k, lx = op_bin(i - 7)
    return [S('bin'), leaf(), k, lx, leaf()]


def gen_exhaustive(ctx, rounds):
    r = ctx.rng.fork('exh')
    counter = [0]

    def leaf():
        counter[0] += 1
        return atom(counter[0], r)
    n = 0
    for rnd in range(rounds):
        counter[0] = rnd * 5
        shapes = [lambda: leaf()]
        for u in range(6):
            for x in range(23):
                shapes.append(lambda u=u, x=x: [S('un'), op_un(u)[0], op_un(u)[1], _level1(x, leaf)])
        for b in range(16):
            for x in range(23):
                for y in range(23):
                    shapes.append(lambda b=b, x=x, y=y: [S('bin'), _level1(x, leaf), op_bin(b)[0], op_bin(b)[1], _level1(y, leaf)])
        for mk in shapes:
            e = mk()
            n += 1
            yield _case('exh3', wrap_expr(e, n + rnd, r), n * 131 + rnd, (n + rnd) % 6)


def gen_spec(ctx):
    """flat operator texts against the order STATED IN THE PROPERTY (expected tree computed from SPEC)"""
    a, b, c = [S('var'), 'a'], [S('var'), 'b'], [S('int'), '3']
    n = 0
    for i in range(16):
        for j in range(16):
            n += 1
            yield {'fam': 'spec', 'spec': ['bb', i, j], 'lay': n, 'mode': n % 6}
    for u in range(6):
        for i in range(16):
            n += 1
            yield {'fam': 'spec', 'spec': ['ub', u, i], 'lay': n, 'mode': n % 6}
            yield {'fam': 'spec', 'spec': ['bu', i, u], 'lay': n + 7, 'mode': (n + 1) % 6}
        for v in range(6):
            n += 1
            yield {'fam': 'spec', 'spec': ['uu', u, v], 'lay': n, 'mode': n % 6}
    for i in range(16):
        for j in range(16):
            n += 1
            yield {'fam': 'spec', 'spec': ['bpb', i, j], 'lay': n, 'mode': n % 6}
            yield {'fam': 'spec', 'spec': ['pbb', i, j], 'lay': n + 3, 'mode': (n + 1) % 6}


def spec_case(spec):
    """-> (tokens, expected expression tree or None (= must be rejected))"""
    a, b, c = [S('var'), 'a'], [S('var'), 'b'], [S('int'), '3']
    A, B, C = [('ID', 'a')], [('ID', 'b')], [('NUMBER', '3')]
    kind, i, j = spec
    LP, RP = [('LPAREN', '(')], [('RPAREN', ')')]
    if kind == 'bb':
        (k1, l1), (k2, l2) = BINOPS[i], BINOPS[j]
        toks = A + [(k1, l1)] + B + [(k2, l2)] + C
        s1, s2 = SPEC[k1], SPEC[k2]
        if s1 == s2 and s1 == 3:
            return toks, None
        if s2 > s1:
            return toks, [S('bin'), a, S(k1), l1, [S('bin'), b, S(k2), l2, c]]
        return toks, [S('bin'), [S('bin'), a, S(k1), l1, b], S(k2), l2, c]
    if kind == 'ub':
        (ku, lu), (k1, l1) = UNOPS[i], BINOPS[j]
        return [(ku, lu)] + A + [(k1, l1)] + B, [S('bin'), [S('un'), S(ku), lu, a], S(k1), l1, b]
    if kind == 'bu':
        (k1, l1), (ku, lu) = BINOPS[i], UNOPS[j]
        return A + [(k1, l1), (ku, lu)] + B, [S('bin'), a, S(k1), l1, [S('un'), S(ku), lu, b]]
    if kind == 'uu':
        (ku, lu), (kv, lv) = UNOPS[i], UNOPS[j]
        return [(ku, lu), (kv, lv)] + A, [S('un'), S(ku), lu, [S('un'), S(kv), lv, a]]
    if kind == 'bpb':      # a o ( b o' c ): a parenthesised subexpression is one operand
        (k1, l1), (k2, l2) = BINOPS[i], BINOPS[j]
        return A + [(k1, l1)] + LP + B + [(k2, l2)] + C + RP, [S('bin'), a, S(k1), l1, [S('bin'), b, S(k2), l2, c]]
    if kind == 'pbb':      # ( a o b ) o' c
        (k1, l1), (k2, l2) = BINOPS[i], BINOPS[j]
        return LP + A + [(k1, l1)] + B + RP + [(k2, l2)] + C, [S('bin'), [S('bin'), a, S(k1), l1, b], S(k2), l2, c]
    raise ValueError(spec)


def gen_random_expr(ctx, n):
    rng = ctx.rng.fork('rexpr')
    for i in range(n):
        r = rng.fork(i)
        e = rand_expr(r, r.choice([3, 4, 5, 6, 8]))
        yield _case('rexpr', wrap_expr(e, i, r), i, r.choice([0, 1, 2, 2, 3, 4, 4, 5]))


def gen_random_stmt(ctx, n):
    rng = ctx.rng.fork('rstmt')
    for i in range(n):
        r = rng.fork(i)
        if i < 6 * len(STMT_KINDS):
            blk = [rand_stmt(r, STMT_KINDS[i % len(STMT_KINDS)], 2, 2)]       # every production, several times
        else:
            blk = rand_block(r, r.choice([1, 2, 3]), r.choice([1, 2, 3]))
        yield _case('rstmt', blk, i, r.choice([0, 1, 2, 2, 3, 3, 4, 4, 5, 5]))


def gen_kwnames(ctx, n):
    """keywords used as names wherever the grammar's kw_as_identifier productions allow them: variables (also at
    the start of a statement, where `select = 1;` is an assignment and `select any …` a select), attributes,
    operation / function / parameter / event / class / relationship names, phrases"""
    rng = ctx.rng.fork('kwname')
    for i in range(n):
        r = rng.fork(i)
        r.kwp = r.choice([0.3, 0.6, 0.9])
        if i % 3 == 0:
            blk = wrap_expr(rand_expr(r, r.choice([2, 3, 4])), i, r)
        elif i % 3 == 1:
            blk = [rand_stmt(r, STMT_KINDS[(i // 3) % len(STMT_KINDS)], 2, 2)]
        else:
            blk = rand_block(r, r.choice([1, 2]), r.choice([1, 2]))
        yield _case('kwname', blk, i, r.choice([0, 1, 2, 3, 4, 5]))


def gen_literals(ctx, n):
    """family `lit`: trees whose string constants and ticked phrases hold arbitrary literal characters (see _LIT_UNITS):
    operator trees over string constants, every production that carries a phrase or takes arguments, and ordinary random
    statement blocks with every literal redrawn; all layouts"""
    rng = ctx.rng.fork('lit')
    for i in range(n):
        r = rng.fork(i)
        k = i % 4
        if k == 0:
            blk = wrap_expr(lit_expr(r, r.choice([1, 2, 2, 3, 4])), i // 4, r)
        elif k == 1:
            blk = [lit_stmt(r, i // 4)]
        elif k == 2:
            blk = respell_literals([rand_stmt(r, STMT_KINDS[(i // 4) % len(STMT_KINDS)], 2, 3)], r)
        else:
            blk = respell_literals(rand_block(r, r.choice([1, 2]), r.choice([2, 3])), r, 0.8)
        yield _case('lit', blk, i, r.choice([0, 1, 2, 3, 4, 5]))


def gen_alt(ctx, n):
    """spellings that give the same tree but are not what the printer writes (parse side only)"""
    rng = ctx.rng.fork('alt')
    for i in range(n):
        r = rng.fork(i)
        yield {'fam': 'alt', 'alt': i % 5, 'lay': i, 'mode': r.choice([0, 1, 2, 3, 4, 5]), 'seed': i}


def alt_case(case, r):
    """-> (tokens, tree)"""
    k = case['alt']
    if k == 0:      # rcvd_evt.x
        e = [S('param'), r.choice(NAMES)]
        blk = [[S('ret'), [S('bin'), e, S('PLUS'), '+', mk_int(r)]]]
        toks = p_block(blk)
        toks = [('RCVD_EVT', 'rcvd_evt') if t[0] == 'PARAM' else t for t in toks]
        return toks, blk
    if k == 1:      # phrase written as an identifier (now part of the tree: (ident name))
        blk = [[S('rel'), flag(r), inst_name(r), inst_name(r), r.choice(RELS), [S('ident'), 'owner'], NONE]]
        return p_block(blk), blk
    if k == 2:      # empty statements
        blk = rand_block(r, 1, 2)
        toks = [('SEMICOLON', ';')]
        for s in blk:
            toks += p_stmt(s) + [('SEMICOLON', ';')] + [('SEMICOLON', ';')] * r.choice([0, 1, 2])
        return toks, blk
    if k == 3:      # trailing comma in a parameter list
        inv = [S('fcall'), r.choice(FNS), [[r.choice(NAMES), small_expr(r, 1)] for _ in range(r.choice([1, 2]))]]
        blk = [[S('invoke'), inv]]
        toks = p_block(blk)
        toks = toks[:-2] + [('COMMA', ',')] + toks[-2:]
        return toks, blk
    # navigation step phrase as identifier, event meaning as identifier
    blk = [[S('gen'), ['E1', F_, [S('ident'), 'go'], F_, []], [S('inst'), [S('var'), 'x']]]]
    return p_block(blk), blk


def gen_soup(ctx, n):
    rng = ctx.rng.fork('soup')
    for i in range(n):
        yield {'fam': 'soup', 'seed': i, 'lay': i, 'mode': 0}


def soup_tokens(r):
    """a mostly well-formed operator / parenthesis sequence, then damaged"""
    e = rand_expr_simple(r, r.choice([1, 2, 3]))
    toks = flat(e, r)
    for _ in range(r.choice([0, 1, 1, 2])):
        x = r.random()
        if not toks:
            break
        p = r.randrange(len(toks))
        if x < 0.35:
            del toks[p]
        elif x < 0.6:
            toks.insert(p, toks[p])
        elif x < 0.8:
            toks.insert(p, r.choice([('LPAREN', '('), ('RPAREN', ')')]))
        else:
            k, lx = r.choice(BINOPS + UNOPS)
            toks.insert(p, (k, lx))
    return [('RETURN', 'return')] + toks + [('SEMICOLON', ';')]


def rand_expr_simple(r, depth):
    if depth <= 0 or r.random() < 0.25:
        return r.choice([[S('var'), 'a'], [S('int'), '1'], [S('var'), 'b']])
    if r.random() < 0.25:
        k, lx = op_un(r.randrange(6))
        return [S('un'), k, lx, rand_expr_simple(r, depth - 1)]
    k, lx = op_bin(r.randrange(16))
    return [S('bin'), rand_expr_simple(r, depth - 1), k, lx, rand_expr_simple(r, depth - 1)]


def flat(e, r):
    """tokens of e with random (possibly missing, possibly redundant) parentheses"""
    h = e[0]
    if h == 'un':
        t = [(str(e[1]), e[2])] + flat(e[3], r)
    elif h == 'bin':
        t = flat(e[1], r) + [(str(e[2]), e[3])] + flat(e[4], r)
    else:
        t = p_raw(e)
    if r.random() < 0.3:
        t = [('LPAREN', '(')] + t + [('RPAREN', ')')]
    return t


# ------------------------------------------------------------------------------------------ several texts, one process

def gen_seq(ctx, n):
    """docs/robustness-patterns.md 1, 2, 7: several texts through the SAME parser object (and through `oal.parse`)
    one after the other — the same text twice with another one in between, rejected texts followed by accepted
    ones, texts that differ in exactly one respect (the case of one name, a blank inside a string, one digit)"""
    for i in range(n):
        yield {'fam': 'seq', 'seed': i, 'shape': i % 4}


def _near_duplicate(toks, r):
    """the same tokens with ONE changed in a way that must change the tree; None when there is no such token"""
    cands = []
    for i, (k, lx) in enumerate(toks):
        if k == 'ID' and lx.swapcase() != lx and lx.swapcase().upper() not in ALLKW:
            cands.append((i, (k, lx.swapcase())))
        elif k == 'STRING' and ' ' in lx:
            cands.append((i, (k, lx.replace(' ', '  ', 1))))
        elif k == 'STRING' and len(lx) > 2:
            cands.append((i, (k, lx[:-1] + ' "')))
        elif k == 'NUMBER':
            cands.append((i, (k, lx + '0')))
    if not cands:
        return None
    i, t = r.choice(cands)
    return toks[:i] + [t] + toks[i + 1:]


def seq_items(case):
    """-> [(text, tree or None, tag)]; tag: 'good' (tree known), 'same:<j>' (the text of item j again),
    'near:<j>' (differs from item j in one name / string / number), 'bad' (damaged, no oracle)"""
    import common
    r = common.Prng(case['seed']).fork('seq')
    items = []

    def good(tag='good'):
        blk = rand_block(r, r.choice([1, 2]), r.choice([1, 2]))
        toks = p_block(blk)
        text, _ = layout(toks, r.fork('lay', len(items)), r.choice([0, 1, 2, 3, 4, 5]))
        items.append((text, blk, tag))
        return toks, blk

    def bad():
        x = r.random()
        if x < 0.4:
            toks = soup_tokens(r.fork('soup', len(items)))
        else:
            toks = p_block(rand_block(r, 1, r.choice([1, 2])))
            if x < 0.7 and len(toks) > 1:
                del toks[r.randrange(len(toks))]             # one token missing
            elif x < 0.85:
                toks = toks[:max(1, len(toks) // 2)]           # cut in the middle
            else:
                toks.insert(r.randrange(len(toks) + 1), r.choice([('RPAREN', ')'), ('EQUAL', '='), ('ELSE', 'else')]))
        text, _ = layout(toks, r.fork('lay', len(items)), r.choice([0, 1, 4]))
        items.append((text, None, 'bad'))

    shape = case.get('shape', 0)
    if shape == 0:                       # A B A (B A)
        good()
        good()
        items.append((items[0][0], items[0][1], 'same:0'))
        if r.random() < 0.5:
            items.append((items[1][0], items[1][1], 'same:1'))
    elif shape == 1:                     # rejected texts, then accepted ones, on the same objects
        bad()
        good()
        bad()
        items.append((items[1][0], items[1][1], 'same:1'))
        good()
    elif shape == 2:                     # two of a kind: one token differs
        toks, blk = good()
        near = _near_duplicate(toks, r)
        if near is not None:
            text, _ = layout(near, r.fork('lay', 'near'), r.choice([0, 1, 4]))
            items.append((text, None, 'near:0'))
        items.append((items[0][0], items[0][1], 'same:0'))
    else:                                # the same tree in two layouts around a rejected text
        toks, blk = good()
        bad()
        text, _ = layout(toks, r.fork('lay', 'again'), r.choice([0, 3, 4, 5]))
        items.append((text, blk, 'good'))
        items.append(('  ' + items[0][0] + ' \n', blk, 'good'))
    return items


def run_seq(case):
    items = seq_items(case)
    fails = []
    lx = _lexer.clone()                  # ONE lexer object for all the texts of the case
    toks_l = [_ply_tokens(t, lx) for t, _, _ in items]
    res_p = [_ply_tree(t, False) for t, _, _ in items]        # the worker's one OALParser, text after text
    res_f = [_ply_tree(t, True) for t, _, _ in items]         # `oal.parse`, text after text
    for j, ((text, tree, tag), (tp, fp), (tf, ff)) in enumerate(zip(items, res_p, res_f)):
        for f in (fp, ff):
            if f:
                fails.append(f)
        if tp != tf:
            fails.append({'sig': 'seq-route-differs', 'what': 'text %d %r of a sequence: the reused OALParser gives %s, '
                          'oal.parse gives %s' % (j, text, dumps(tp), dumps(tf))})
        if tree is not None and tp != y_body(tree):
            fails.append({'sig': 'seq-roundtrip', 'what': 'text %d %r parsed after %d other texts in the same process gives %s, '
                          'the tree that was written is %s' % (j, text, j, dumps(tp), dumps(y_body(tree)))})
        if tag.startswith('same:'):
            k = int(tag[5:])
            if tp != res_p[k][0] or toks_l[j] != toks_l[k]:
                fails.append({'sig': 'seq-repeat-differs', 'what': 'the same text %r parsed twice with other texts in '
                              'between: first %s, then %s' % (text, dumps(res_p[k][0]), dumps(tp))})
        if tag.startswith('near:'):
            k = int(tag[5:])
            if tp == res_p[k][0]:
                fails.append({'sig': 'seq-collision', 'what': 'texts %r and %r differ in a name / string / number, both '
                              'parse to %s' % (items[k][0], text, dumps(tp))})
    stats = {'cases_seq': 1, 'seq_texts': len(items), 'seq_shape_%d' % case.get('shape', 0): 1,
             'seq_rejected': sum(1 for t, _ in res_p if t == S('ParseException')),
             'seq_accepted_after_rejected': sum(
                 1 for j, (t, _) in enumerate(res_p)
                 if t != S('ParseException') and any(u == S('ParseException') for u, _ in res_p[:j]))}
    return {'obs': [[[[S(k), l] for k, l in tl], tp] for tl, (tp, _) in zip(toks_l, res_p)], 'd_fail': fails[:2],
            'nontrivial': len(items) >= 3, 'key': '\x00'.join(t for t, _, _ in items), 'stats': stats}


# ------------------------------------------------------------------------------------------ lexical edge cases

_LITKIND = {'==': 'DOUBLEEQUAL', '!=': 'NOTEQUAL', '<=': 'LE', '>=': 'GE', '->': 'ARROW', '::': 'DOUBLECOLON',
            '<': 'LESSTHAN', '>': 'GT', '=': 'EQUAL', '+': 'PLUS', '-': 'MINUS', '*': 'TIMES', '/': 'DIV', '%': 'MOD',
            '|': 'PIPE', '&': 'AMP', '^': 'CARET', '(': 'LPAREN', ')': 'RPAREN', '[': 'LSQBR', ']': 'RSQBR',
            ',': 'COMMA', ';': 'SEMICOLON', ':': 'COLON', '.': 'DOT', '?': 'QMARK'}
_REPS = [('ID', 'a'), ('ID', 'x1'), ('ID', 'end'), ('ID', 'e'), ('ID', '_f'), ('NUMBER', '1'), ('NUMBER', '42'),
         ('FRACTION', '1.5'), ('FRACTION', '2.'), ('FRACTION', '.5'), ('FRACTION', '1e5'), ('FRACTION', '7.5f'),
         ('STRING', '"s"'), ('TICKED_PHRASE', "'p'"), ('END_IF', 'end if'), ('END_FOR', 'end  for'), ('AND', 'and'),
         ('NOT', 'not'), ('NOT_EMPTY', 'not_empty'), ('SELF', 'self'), ('IF', 'if')] + [(k, l) for l, k in _LITKIND.items()]

# texts written by hand: K only (lexer model + parseText against the real lexer + parser), no oracle
_EDGE_TEXTS = [
    # the identifier `end` (outside LexemesOk: `end` + white space + if|for|while is ONE token)
    'x = end;', 'end = 1;', 'x = end + 1;', 'x = end.y;', 'x = END;', 'x = end1;', 'x = endif;', 'x = end_if;',
    'if (a) end = 1; end if;', 'x = end\nif;', 'return end;', 'select any end from instances of K;', 'end.x = end [ 1 ];',
    # `end if` and friends: repeated and unusual white space between the words, glued neighbours
    'if a break; end if;', 'if a break; end  if;', 'if a break; end\tif;', 'if a break; end\nif;', 'if a break; END IF;',
    'if a break; End   If;', 'if a break; end\x0cif;', 'if a break; end\u00a0if;', 'if a break; endif;',
    'if a break; end if;x = 1;', 'if a break; end ifx = 1;', 'if a break; end iffy;', 'if a break;end if;',
    'while a break; end \r\n while;', 'for each x in xs break; end\n\n\tfor;', 'if a break; end /* c */ if;',
    'if a break; end if', 'while a break; end  for;', 'if a break; end if; end if;',
    # numbers followed by letters, dots and signs
    'x = 1x;', 'x = 1e5;', 'x = 1e;', 'x = 1f;', 'x = 1.5f;', 'x = 1.5F;', 'x = 1.5l;', 'x = 1.e;', 'x = 1..2;',
    'x = 1.x;', 'x=.5;', 'x = a.5;', 'x = 1and 2;', 'x = 1 and2;', 'x = 12abc::f();', 'x = 1::a;', 'x = 1e+5;',
    'x = 1e-5;', 'x = 1e+;', 'x = 1.5e3;', 'x = 1.5+2;', 'x = 2.+3;', 'x = 1.-1;', 'x = 007;', 'x = 0x1F;',
    'x = 18446744073709551616;', 'x = 9007199254740993.0;', 'x = 1e400;', 'x = -1;', 'x = - 1;', 'x = --1;',
    'x = \u0661\u0662;', 'x = 1\u0662;',
    # `/` next to comments, `%` next to `*` and `/`
    'x = a / /* c */ b;', 'x = a //* c */ b;\nx = 1;', 'x = a /* c */ / b;', 'x = a /2;', 'x = a//c\n/b;', 'x = a/b/c;',
    'x = a/*b;', 'x = a / * b */ c;', 'x = a /**/ b;', 'x = a/**// b;', 'x = a /***/ * b;', 'x = a /* * / */ b;',
    'x = a // b', 'x = a; // no newline at the end', 'x = a; /* not closed', 'x = a; /*/ b;', '/**/x/**/=/**/1/**/;/**/',
    'x = a % b * c;', 'x = a * b % c;', 'x = a / b % c;', 'x = a % b / c;', 'x = a%b%c;', 'x = a%-b;', 'x = a*-b%c;',
    # operators glued to one another
    'x = a<-b;', 'x = a- -b;', 'x = a--b;', 'x = a-->b;', 'x = a->b;', 'x = a<=-1;', 'x = a== -1;', 'x=-1;', 'x = a!=b;',
    'x = a! =b;', 'x = a<>b;', 'x = a=>b;', 'x = a= =b;', 'x = a===b;', 'x = a::b;', 'x = a:: b;', 'x = a ::b();',
    'x = NS ::f();', 'x = NS:: f();', 'x = NS::f ();', 'x = f(p:::g());', 'x = ::f(p : 1);', 'x = ::f(p:1,q:2);',
    'x .y = 1;', 'x. y = 1;', 'x..y = 1;', 'x = a<b<c;', 'x = a<(b<c);', 'x = not-a;', 'x = a+-b;', 'x = a|b&c^d;',
    'select many ys related by self->K[R1]->L[R2.\'p\'];', 'select many ys related by self - > K[R1];',
    # keywords glued to names
    'x = notx;', 'x = not_emptyx;', 'x = not empty x;', 'x = not_ empty x;', 'x = selfx;', 'x = self.x;', 'x = param.x;',
    'x = paramx;', 'x = rcvd_evt.x;', 'x = cardinalityx;', 'x = aand b;', 'x = a orb;', 'returnx;', 'return;', 'returnx = 1;',
    # strings and phrases
    'dir = "C:\\temp\\";', '::f(a: "\\", b: "\\");', 'x = "\\" + "\\"; y = "a\\";', 'x = "\\\\"; y = "\\";', "relate a to b across R1.'p\\';",
    'total = total + number;', 'return string;', 'times = times - 1;', 'x = self.comment;', '::log(string: "x");',
    'x = selected.dot;', 'x = Number::le; ID = id.Id[iD];', 'select many plus from instances of MINUS;',
    'x = "a"b";', 'x = "a\nb";', 'x = "";', 'x = """";', 'x = "it\'s";', "relate a to b across R1.'x''y';",
    "relate a to b across R1.'';", "relate a to b across R1.'a\nb';", 'x = ";', "x = ';", 'x = "/* c */" + "// d";',
    # characters that are not in the alphabet, form feed / vertical tab between tokens
    'x = 1 @ 2;', 'x = a $ b;', 'x = 1 \\ 2;', 'x = `a`;', 'x = ~a;', 'x = #a;', 'x = {a};', 'x\x0c=\x0c1;', 'x\x0b= 1;',
    '\u00e9 = 1;', 'x = "\u00e9";', 'x\u00a0= 1;', '\ufeffx = 1;', 'x = a ? b;',
    # empty and nearly empty inputs, missing final newline / semicolon
    '', ' ', '\n', ';', ';;', ' ; ; ', '// c', '// c\n', '/* c */', '/* not closed', 'x = 1', 'x', '=', 'x = 1;;', ';x = 1;',
    'x = 1;\r\n', 'x = 1;\r', '\tx\t=\t1\t;\t',
]


def gen_lexedge(ctx):
    """lexical edge cases (K only): hand-written texts, and every ordered pair of representative lexemes written
    without a separator — measures where `LexemesOk` / `tightOk` (and the harness's `tight_ok`) are conservative"""
    for i, t in enumerate(_EDGE_TEXTS):
        yield {'fam': 'lexedge', 'text': t, 'i': i}
    n = 0
    for u in _REPS:
        for v in _REPS:
            n += 1
            yield {'fam': 'lexedge', 'toks': [list(u), list(v)], 'lay': ['', '', ''], 'i': n}
    # the same pairs inside a statement, so that some of them parse:  x = u v ;
    for u in _REPS:
        for v in _REPS:
            n += 1
            if n % 3 == ctx.seed % 3:
                yield {'fam': 'lexedge', 'toks': [['ID', 'x'], ['EQUAL', '='], list(u), list(v), ['SEMICOLON', ';']],
                       'lay': ['', ' ', ' ', '', ' ', ''], 'i': n}


def run_lexedge(case):
    if 'text' in case:
        text = case['text']
        written = None
    else:
        written = [tuple(t) for t in case['toks']]
        lay = case['lay']
        text = lay[0] + ''.join(lx + g for (_, lx), g in zip(written, lay[1:]))
    got = _ply_tokens(text)
    tree, f = _ply_tree(text, 'text' in case or case.get('i', 0) % 4 == 0)     # oal.parse: every hand-written text, a quarter of the pairs
    stats = {'cases_lexedge': 1, 'lexedge_' + ('rejected' if tree == S('ParseException') else 'parsed'): 1}
    if written is not None:
        stats['lexedge_pair_' + ('lexed_as_written' if got == written else 'lexed_differently')] = 1
    return {'obs': [S('n/a'), S('n/a'), [[S(k), l] for k, l in got], tree], 'd_fail': [f] if f else [],
            'nontrivial': True, 'key': 'lexedge:' + text, 'stats': stats}


def generate(ctx):
    for c in gen_spec(ctx):
        yield c
    for c in gen_kwnames(ctx, ctx.pick(2000, 30000)):
        yield c
    for c in gen_exhaustive(ctx, ctx.pick(1, 16)):
        yield c
    for c in gen_random_stmt(ctx, ctx.pick(3000, 50000)):
        yield c
    for c in gen_random_expr(ctx, ctx.pick(2500, 40000)):
        yield c
    for c in gen_literals(ctx, ctx.pick(1600, 24000)):
        yield c
    for c in gen_alt(ctx, ctx.pick(300, 3000)):
        yield c
    for c in gen_soup(ctx, ctx.pick(3000, 30000)):
        yield c
    for c in gen_seq(ctx, ctx.pick(300, 6000)):
        yield c
    for c in gen_lexedge(ctx):
        yield c


def search(ctx, broken):
    """something no longer checks: the flat texts against the stated order first, then everything, larger"""
    for c in gen_spec(ctx):
        yield c
    for c in gen_kwnames(ctx, 20000):
        yield c
    for c in gen_exhaustive(ctx, 2):
        yield c
    for c in gen_random_stmt(ctx, 20000):
        yield c
    for c in gen_random_expr(ctx, 20000):
        yield c
    for c in gen_literals(ctx, 12000):
        yield c
    for c in gen_seq(ctx, 3000):
        yield c
    for c in gen_lexedge(ctx):
        yield c


# ------------------------------------------------------------------------------------------ running a case

def _prng(case):
    import common
    return common.Prng(case.get('lay', 0)).fork(case['fam'], case.get('mode', 0))


def build(case):
    """-> (tokens to write, tree or None, expected-reject flag, compare-printer flag)"""
    fam = case['fam']
    if fam == 'spec':
        toks, e = spec_case(case['spec'])
        toks = [('RETURN', 'return')] + toks + [('SEMICOLON', ';')]
        return toks, (None if e is None else [[S('ret'), e]]), e is None, False
    if fam == 'alt':
        import common
        toks, blk = alt_case(case, common.Prng(case['seed']).fork('alt'))
        return toks, blk, False, False
    if fam == 'soup':
        import common
        return soup_tokens(common.Prng(case['seed']).fork('soup')), None, None, False
    blk = loads(case['tree'])
    return p_block(blk), blk, False, True


def _norm_tok(k, lx):
    if k in ('END_IF', 'END_FOR', 'END_WHILE'):
        lx = ' '.join(lx.split())
    return [S(k), lx]


def _drain(lx):
    got = []
    while True:
        t = lx.token()
        if t is None:
            break
        got.append((t.type, t.value))
    return got


def _ply_tokens(text, lx=None):
    """the real lexer's tokens of text + line break.  Fast path: a clone of the lexer object built in setup.  The
    property is about `oal.parse(text)`: an exception below the harness's OWN lexer object is not the library's
    fault unless a lexer freshly built by the library's own `text_input` fails on the text as well — then the parse of
    the same text reports it (signature parser-raised-…)."""
    try:
        lx = lx or _lexer.clone()
        lx.input(text + '\n')
        return _drain(lx)
    except Exception:
        try:
            import gen_oal_text as G
            lx2 = G.oal_lexer(_parser if _parser is not None else object.__new__(_oal.OALParser), '<harness>')
            lx2.input(text + '\n')
            return _drain(lx2)
        except Exception as e:
            return [('lexer-raised', type(e).__name__)]


def _derived_views(node, fails, text):
    """(robustness pattern 9) the views of a parsed tree that the field-by-field comparison does not read — `children`
    (what every Walker traverses), `many`, `key_letter`, `port_name` — against what the constructor fields say: the
    node-valued fields, in constructor order, are exactly the nodes among `children`; list nodes list their items"""
    from oal_sexp import _fields
    N_ = _oal.Node
    stack = [node]
    while stack and len(fails) < 2:
        n = stack.pop()
        cls = type(n).__name__
        f = _fields(type(n))
        try:
            ch = n.children
            ch = list(ch) if ch is not None else []
        except Exception as e:
            ch = [S('children-raised'), type(e).__name__]
        if f:
            exp = [getattr(n, x) for x in f if isinstance(getattr(n, x), N_)]
            act = [c for c in ch if isinstance(c, N_)]
            if [id(x) for x in exp] != [id(x) for x in act]:
                fails.append({'sig': 'children-view', 'what': 'text %r: %s.children gives %s, its node-valued fields are %s'
                              % (text, cls, [type(c).__name__ for c in ch], [type(c).__name__ for c in exp])})
            stack.extend(exp)
        else:
            stack.extend(c for c in ch if isinstance(c, N_))
        card = getattr(n, 'cardinality', None)
        if cls.startswith('Select') and isinstance(card, str) and n.many != (card.upper() == 'MANY'):
            fails.append({'sig': 'derived-view-many', 'what': 'text %r: %s written with %r has many = %r' % (text, cls, card, n.many)})
        for attr in ('key_letter', 'port_name'):
            if cls in ('ClassInvocationNode', 'BridgeInvocationNode', 'PortInvocationNode') and \
                    hasattr(type(n), attr) and getattr(n, attr) != n.namespace:
                fails.append({'sig': 'derived-view-' + attr, 'what': 'text %r: %s.%s = %r, written namespace %r'
                              % (text, cls, attr, getattr(n, attr), n.namespace)})


def _ply_tree(text, via_parse):
    """-> (encoded tree | ParseException | (parser-raised X), failure or None)"""
    from oal_sexp import encode
    try:
        root = _oal.parse(text) if (via_parse or _parser is None) else _parser.text_input(text + '\n')
    except _oal.ParseException:
        return S('ParseException'), None
    except Exception as e:      # not a syntax error of the text: the parser itself is unusable
        return [S('parser-raised'), type(e).__name__], {
            'sig': 'parser-raised-%s' % type(e).__name__,
            'what': 'oal.parse(%r) raised %s: %s' % (text, type(e).__name__, str(e)[:200])}
    return encode(root), None


def run_impl(case):
    from oal_sexp import encode
    if case['fam'] == 'seq':
        return run_seq(case)
    if case['fam'] == 'lexedge':
        return run_lexedge(case)
    toks, tree, must_reject, _ = build(case)
    text, want = layout(toks, _prng(case), case.get('mode', 0))
    fails = []
    # the real lexer
    got = _ply_tokens(text)
    if got != want:
        k = next((i for i in range(min(len(got), len(want))) if got[i] != want[i]), min(len(got), len(want)))
        fails.append({'sig': 'layout-changes-tokens',
                      'what': 'text %r lexes to %r..., written tokens were %r... (first difference at token %d)'
                              % (text, got[k:k + 3], want[k:k + 3], k)})
    # the real parser (one reused OALParser; a sample goes through oal.parse itself)
    # the public entry `oal.parse(text)` (a new OALParser per call: ~7 ms) for a sample of the texts that end with their
    # last token, for a fifth of those that go on after it (blanks, line break, block comment, terminated `//`
    # comment, layout before the first token) and for EVERY text that ends in a `//` comment without a line break:
    # `parse` has to complete the text; all other texts go through the worker's one OALParser (`text_input`)
    last = want[-1][1] if want else ''
    tail = text[text.rfind(last) + len(last):] if last else text
    lay_no = case.get('lay', 0)
    via_parse = _parser is None or lay_no % 40 == 0 or ('//' in tail and not tail.endswith('\n')) or \
        ((tail or text != text.lstrip()) and lay_no % 5 == 0)
    root = None
    try:
        root = _oal.parse(text) if via_parse else _parser.text_input(text + '\n')
    except _oal.ParseException:
        obs_tree = S('ParseException')
    except Exception as e:      # not a syntax error of the text: the parser itself is unusable (grammar does not build, ...)
        obs_tree = [S('parser-raised'), type(e).__name__]
        fails.append({'sig': 'parser-raised-%s' % type(e).__name__,
                      'what': 'oal.parse(%r) raised %s: %s' % (text, type(e).__name__, str(e)[:200])})
    if root is not None:
        obs_tree = encode(root)
        _derived_views(root, fails, text)
    if tree is not None:
        want_tree = y_body(tree)
        if obs_tree != want_tree:
            sig = 'spec-order' if case['fam'] == 'spec' else 'roundtrip'
            how = 'oal.parse(text)' if via_parse else 'OALParser.text_input(text + "\\n")'
            if via_parse and _parser is not None:
                other, _ = _ply_tree(text, False)
                if other == want_tree:
                    # the grammar is fine: the public entry point treats the END of the text differently
                    sig = 'entry-point-end-of-text'
                    how = 'oal.parse(text) [OALParser.text_input(text + "\\n") gives the written tree]'
            fails.append({'sig': sig, 'what': 'text %r parses via %s to %s, the tree that was written is %s'
                                              % (text, how, dumps(obs_tree), dumps(want_tree))})
    elif must_reject:
        if obs_tree != S('ParseException'):
            fails.append({'sig': 'spec-order', 'what': 'text %r (two comparison operators in a row) must be rejected, '
                                                       'it parses to %s' % (text, dumps(obs_tree))})
    nops = sum(1 for k, _ in toks if k in SPEC or k in ('NOT', 'EMPTY', 'NOT_EMPTY', 'CARDINALITY'))
    compound = any(k in ('IF', 'WHILE', 'FOR', 'SELECT', 'GENERATE', 'CREATE', 'RELATE', 'UNRELATE') for k, _ in toks)
    stats = {'cases_' + case['fam']: 1, 'tokens': len(toks), 'mode_%d' % case.get('mode', 0): 1}
    if via_parse:
        stats['via_oal_parse'] = 1
        if '//' in tail and not tail.endswith('\n'):
            stats['ends_in_line_comment_without_newline'] = 1
        elif tail.rstrip().endswith('*/'):
            stats['ends_in_block_comment'] = 1
        elif tail:
            stats['ends_in_white_space'] = 1
    if obs_tree == S('ParseException'):
        stats['rejected_' + case['fam']] = 1
    if case['fam'] in ('rstmt',):
        for s in loads(case['tree']):
            stats['stmt_' + str(s[0])] = stats.get('stmt_' + str(s[0]), 0) + 1
    if case['fam'] == 'lit':
        for k, lx in toks:
            if k in ('STRING', 'TICKED_PHRASE'):
                kind = 'lit_string' if k == 'STRING' else 'lit_phrase'
                stats[kind] = stats.get(kind, 0) + 1
                for tag, chars in (('tab', '\t'), ('blank_run', None), ('cr_ff_vt', '\r\x0c\x0b'), ('line_break', '\n'),
                                   ('comment_mark', None), ('non_ascii', None), ('other_quote', '"' if k != 'STRING' else "'")):
                    if tag == 'blank_run':
                        hit = '  ' in lx
                    elif tag == 'comment_mark':
                        hit = '/*' in lx or '//' in lx or '*/' in lx
                    elif tag == 'non_ascii':
                        hit = any(ord(ch) > 127 for ch in lx)
                    else:
                        hit = any(ch in chars for ch in lx)
                    if hit:
                        stats['%s_with_%s' % (kind, tag)] = stats.get('%s_with_%s' % (kind, tag), 0) + 1
    # components 3 and 4: what the TEXT gives (K: the lexer model and `parseText` of the driver on the same text)
    return {'obs': [[_norm_tok(k, l) for k, l in got], obs_tree, [[S(k), l] for k, l in got], obs_tree],
            'd_fail': fails[:2], 'nontrivial': nops >= 2 or compound, 'key': text, 'stats': stats}


_memo = {}


def _built(case):
    """(tokens, tree, compare-printer flag, tokens as laid out) — computed once per case object in the parent"""
    k = id(case)
    hit = _memo.get(k)
    if hit is not None and hit[0] is case:
        return hit[1]
    toks, tree, _, cmp_print = build(case)
    _, want, lay = layout3(toks, _prng(case), case.get('mode', 0))
    if len(_memo) > 3 * CHUNK:
        _memo.clear()
    _memo[k] = (case, (toks, tree, cmp_print, want, lay))
    return toks, tree, cmp_print, want, lay


def model_line(case):
    if case['fam'] == 'seq':
        return dumps([S('c07t')] + [t for t, _, _ in seq_items(case)])
    if case['fam'] == 'lexedge':
        if 'text' in case:
            return dumps([S('c07t'), case['text']])
        return dumps([S('c07'), NONE, [S('lay')] + list(case['lay'])] + [[S(k), l] for k, l in case['toks']])
    toks, tree, cmp_print, want, lay = _built(case)
    tree_s = tree if (tree is not None and cmp_print) else NONE
    if lay and '//' in lay[-1] and not lay[-1].endswith('\n'):
        lay = lay[:-1] + [lay[-1] + '\n']       # an unterminated `//` comment at the end: closed by the final line break
    return dumps([S('c07'), tree_s, [S('lay')] + lay] + [[S(k), l] for k, l in want])


def _model_tree(parsed):
    if isinstance(parsed, list) and parsed and parsed[0] == 'parsed':
        try:
            return y_body(parsed[1])
        except Exception as e:     # undecodable model answer
            return [S('undecodable'), str(e)]
    return S('ParseException') if parsed == 'error' else [S('model-error'), parsed]


def _model_lexed(lexed):
    if isinstance(lexed, list) and lexed and lexed[0] == 'lexed':
        return [[S(str(t[0])), t[1]] for t in lexed[1:]]
    return [S('model-lex-failed'), lexed]


def _count(key, n=1):
    if _CTX is not None:
        _CTX.count(key, n)


def _domain(case, dom):
    """the driver's `inDomain` flags (the hypotheses of text_roundtrip / driver_domain_sound, decided in Lean):
    count where the generated text lies; -> False when the theorem's own prediction fails"""
    lexok, layok, same = [str(x) == 'T' for x in dom[1:4]]
    fam = case['fam']
    if lexok and layok:
        _count('domain_in')
        _count('domain_in_' + fam)
        return same
    why = 'lexemes' if not lexok else 'layout'
    _count('domain_out_%s' % why)
    _count('domain_out_%s_%s' % (why, fam))
    _count('domain_out_%s_%s' % (why, 'but_lexed_as_written' if same else 'and_lexed_differently'))
    return True


def model_obs(case, ans):
    if case['fam'] == 'seq':
        return [[_model_lexed(a[0]), _model_tree(a[1])] for a in ans]
    if case['fam'] == 'lexedge':
        if 'text' in case:
            return [S('n/a'), S('n/a'), _model_lexed(ans[0][0]), _model_tree(ans[0][1])]
        ok = _domain(case, ans[4])
        py = all(g != '' or tight_ok(k, lx, case['toks'][i + 1][1])
                 for i, ((k, lx), g) in enumerate(list(zip(case['toks'], case['lay'][1:]))[:-1]))
        if str(ans[4][1]) == 'T':
            _count('tight_py_%s_lean_%s' % ('accepts' if py else 'refuses', 'accepts' if str(ans[4][2]) == 'T' else 'refuses'))
        lexed = [[S(k), l] for k, l in case['toks']] if ans[2] == '=' else _model_lexed(ans[2])
        return [S('n/a'), S('n/a'), lexed if ok else [S('THEOREM-VIOLATED: in the domain, lexed differently')],
                _model_tree(ans[1] if ans[3] == '=' else ans[3])]
    toks, tree, cmp_print, want, lay = _built(case)
    printed, parsed = ans[0], ans[1]
    if printed == NONE:
        ptoks = [_norm_tok(k, l) for k, l in want]
    elif isinstance(printed, list) and printed and printed[0] == 'printed':
        ptoks = [_norm_tok(str(t[0]), t[1]) for t in printed[1:]]
    else:
        ptoks = [S('model-print-failed'), printed]
    if isinstance(parsed, list) and parsed and parsed[0] == 'parsed':
        blk = parsed[1]
        if tree is not None and case['fam'] != 'spec' and blk != tree:
            return [ptoks, [S('model-parse-loses-the-tree'), blk], S('n/a'), S('n/a')]
        try:
            ptree = y_body(blk)
        except Exception as e:     # undecodable model answer
            ptree = [S('undecodable'), str(e)]
    else:
        ptree = S('ParseException') if parsed == 'error' else [S('model-error'), parsed]
    # TEXT level: `=` abbreviates "the lexer model returned the written tokens" / "hence the same parse"
    ok = _domain(case, ans[4])
    lexed = [[S(k), l] for k, l in want] if ans[2] == '=' else _model_lexed(ans[2])
    if not ok:
        lexed = [S('THEOREM-VIOLATED: in the domain, lexed differently')]
    if ans[3] == '=':
        ttree = ptree
    else:
        ttree = _model_tree(ans[3])
        if isinstance(ans[3], list) and ans[3] and ans[3][0] == 'parsed' and tree is not None and case['fam'] != 'spec' \
                and str(ans[4][1]) == 'T' and str(ans[4][2]) == 'T' and ans[3][1] != tree:
            ttree = [S('THEOREM-VIOLATED: in the domain, the text does not parse to the tree'), ans[3][1]]
    return [ptoks, ptree, lexed, ttree]


def shrink_candidates(case):
    if 'tree' not in case:
        if case.get('mode', 0) != 0:
            c = dict(case)
            c['mode'] = 0
            yield c
        return
    blk = loads(case['tree'])
    if case.get('mode', 0) != 0:
        c = dict(case)
        c['mode'] = 0
        yield c
    # drop statements, then replace expressions by sub-expressions
    for i in range(len(blk)):
        if len(blk) > 1:
            c = dict(case)
            c['tree'] = dumps(blk[:i] + blk[i + 1:])
            yield c

    def subs(x, path):
        if isinstance(x, list) and x and isinstance(x[0], Sym):
            if x[0] == 'bin':
                yield path, x[1]
                yield path, x[4]
            elif x[0] == 'un':
                yield path, x[3]
        if isinstance(x, list):
            for i, y in enumerate(x):
                for r in subs(y, path + [i]):
                    yield r

    def put(x, path, v):
        if not path:
            return v
        y = list(x)
        y[path[0]] = put(x[path[0]], path[1:], v)
        return y
    for path, v in list(subs(blk, [])):
        c = dict(case)
        c['tree'] = dumps(put(blk, path, v))
        yield c

    # shorter literal contents: the first / second half, then one character less
    def lits(x, path):
        if _is_strnode(x):
            yield path + [1], x[1]
        elif _is_ticked(x):
            yield path, x
        elif isinstance(x, list):
            for i, y in enumerate(x):
                for r in lits(y, path + [i]):
                    yield r
    for path, lx in list(lits(blk, [])):
        q, body = lx[0], lx[1:-1]
        if len(body) < 2:
            continue
        cuts = [body[:len(body) // 2], body[len(body) // 2:]] + [body[:i] + body[i + 1:] for i in range(len(body))][:12]
        for b in cuts:
            c = dict(case)
            c['tree'] = dumps(put(blk, path, q + b + q))
            yield c
