"""Synthetic ooaofooa base model + generator of name-resolved OAL action bodies (C05, C06).

  SPEC            a small application model written as plain data: classes (attributes, one referential
                  attribute, attributes and parameters declared with user-defined types over chains of S_UDT,
                  operations with parameters, one derived attribute), associations, functions, external entities
                  with bridges, enumerations, constants, state-machine events (SM_SM / SM_ISM / SM_ASM / SM_EVT)
                  for the event statements, and four action *homes*
                  (function, bridge, operation, derived attribute) whose body text the cases supply
  build_base(m)   instantiates SPEC as ooaofooa instances (O_OBJ, O_ATTR, O_TFR, S_SYNC, S_EE, S_BRG,
                  S_DT/S_IRDT/S_EDT/S_ENUM, CNST_*, R_REL, parameters) in a fresh ooaofooa metamodel `m`
                  exactly as tests/test_bridgepoint/utils.py does (bare PE_PE per packageable element)
  ProgramGen      scope- and type-aware random generator; every class, attribute, relationship number,
                  function, bridge, operation, parameter, enumerator, constant it names exists in SPEC and
                  every variable is used only where the prebuilder's symbol table can see it
  render(prog)    abstract program -> OAL text with random surface spelling (keyword case, optional
                  `assign`/`then`/`loop`/`instances of`, ticked or bare phrases, redundant parentheses)

Nothing here imports the repository at module load; `build_base` receives the metamodel.
"""

CORE_TYPES = ['void', 'boolean', 'integer', 'real', 'string', 'unique_id']

# parameters of the four homes; `pa` and `pn` are declared with user-defined types
HOME_PARAMS = [['pi', 'integer'], ['pb', 'boolean'], ['ps', 'string'], ['pr', 'real'], ['pa', 'Age_t'], ['pn', 'Name_t'],
               ['pd', 'inst_ref<Dog>'],       # an instance handle as parameter: attributes are read THROUGH it
               ['pst', 'Point_t']]            # a structure as parameter: members are read through it
# the bridge home declares the SAME parameter names with OTHER types (a look-up keyed by name alone would mix them up)
BRIDGE_PARAMS = [['pi', 'real'], ['pb', 'boolean'], ['ps', 'string'], ['pr', 'integer'], ['pa', 'Years_t'], ['pn', 'string'],
                 ['pd', 'inst_ref<Dog>'], ['pst', 'Point_t']]

SPEC = {
    # the enumerations share enumerator names (unknown, red); one constant is named like an enumerator, and two
    # constant specifications hold a constant of the same name (MAX) with different types
    'enums': [['Color', ['red', 'green', 'blue', 'unknown']], ['Mode', ['fast', 'slow', 'unknown']],
              ['Alarm', ['red', 'amber', 'unknown']]],
    'consts': [['Limits', [['MAX', 'integer', '10'], ['LABEL', 'string', 'lbl'], ['RATIO', 'real', '0.5'],
                          ['DEBUG', 'boolean', 'true']]],
               ['Defaults', [['MAX', 'real', '99.5'], ['unknown', 'string', 'u'], ['LABEL', 'string', 'other'],
                             ['COUNT', 'integer', '3']]]],
    'classes': [
        {'kl': 'DOG', 'name': 'Dog',
         'attrs': [['Id', 'integer'], ['Name', 'string'], ['Age', 'integer'], ['Weight', 'real'],
                   ['Alive', 'boolean'], ['Tint', 'Color'], ['Score', 'integer'],
                   ['Years', 'Years_t'], ['Nick', 'Name_t'], ['Fit', 'Flag_t'],
                   ['length', 'real']],        # an attribute NAMED length (arrays have a .length too), not an integer
         'refs': [['Owner_Id', 'PER', 'Id']],
         'derived': ['Score'],
         'ops': [['bark', True, 'void', [['times', 'integer'], ['loud', 'boolean']]],
                 ['getAge', True, 'integer', []],
                 ['rename', True, 'string', [['first', 'string'], ['last', 'string'], ['n', 'integer']]],
                 ['count', False, 'integer', []],
                 ['reset', False, 'void', [['val', 'integer']]],
                 ['home_op', True, 'void', HOME_PARAMS]]},
        {'kl': 'PER', 'name': 'Person',
         # Age / Weight / count / getAge exist in DOG too, with OTHER types
         'attrs': [['Id', 'integer'], ['Name', 'string'], ['Rich', 'boolean'], ['Cash', 'real'],
                   ['Share', 'Ratio_t'], ['Level', 'Age_t'], ['Age', 'real'], ['Weight', 'integer'], ['length', 'string']],
         'refs': [], 'derived': [],
         'ops': [['greet', True, 'string', [['msg', 'string']]],
                 ['total', False, 'real', []],
                 ['count', False, 'real', []],
                 ['getAge', True, 'string', []],
                 ['home_cop', False, 'void', HOME_PARAMS]]},
        {'kl': 'LIC', 'name': 'License',
         'attrs': [['Nr', 'integer'], ['Fee', 'real'], ['Valid', 'boolean'], ['Name', 'integer']],
         'refs': [], 'derived': [], 'ops': []},
        # a class that shares its key letters with the external entity TIM (Time): NS::f(...) with these key letters
        # is a bridge invocation (external entities are looked up first); the class has no operations, so no
        # invocation is ambiguous
        {'kl': 'TIM', 'name': 'Timer',
         'attrs': [['Id', 'integer'], ['Due', 'integer'], ['Armed', 'boolean'], ['Note', 'string']],
         'refs': [], 'derived': [], 'ops': []},
    ],
    # number, one side, other side, phrases (one side -> other, other -> one), link class or None
    'rels': [[1, 'DOG', 'PER', "'is owned by'", "'owns'", None],
             [2, 'DOG', 'DOG', "'chases'", "'flees'", None],
             [3, 'PER', 'LIC', "'holds'", "'belongs_to'", None],
             [4, 'DOG', 'PER', "'visits'", "'hosts'", 'LIC'],
             [5, 'DOG', 'DOG', "'leads'", "'follows'", None]],
    'functions': [['noop', 'void', []],
                  ['add', 'integer', [['a', 'integer'], ['b', 'integer']]],
                  ['check', 'boolean', [['flag', 'boolean'], ['name', 'string'], ['n', 'integer']]],
                  ['scale', 'real', [['x', 'real']]],
                  ['label', 'string', []],
                  ['top', 'inst_ref<Dog>', []],
                  ['other', 'string', [['pi', 'string'], ['pb', 'integer'], ['a', 'real']]],
                  ['home_fn', 'void', HOME_PARAMS]],
    'ees': [['LOG', 'Logging', [['info', 'void', [['msg', 'string']]],
                                ['level', 'integer', []],
                                ['fmt', 'string', [['a', 'string'], ['b', 'integer'], ['c', 'boolean']]]]],
            ['TIM', 'Time', [['now', 'integer', []], ['since', 'real', [['t', 'integer']]],
                             ['level', 'real', []], ['info', 'string', [['msg', 'integer']]]]],
            ['HOM', 'Home', [['home_brg', 'void', BRIDGE_PARAMS]]]],
    # user-defined types: name, the type it is based on (a core type or another user-defined type)
    # structured data types: name, members (name, type)
    # (a member NAMED length, not an integer: `p.length` on a structure is that member, not an array length)
    'structs': [['Point_t', [['x', 'real'], ['y', 'real'], ['tag', 'string'], ['n', 'integer'], ['ok', 'boolean'],
                             ['length', 'real']]]],
    'udts': [['Age_t', 'integer'], ['Years_t', 'Age_t'], ['Name_t', 'string'], ['Ratio_t', 'real'], ['Flag_t', 'boolean']],
    # state machine events per class: instance state machine (SM_ISM) and class / assigner state machine (SM_ASM):
    # (derived label, meaning)
    # SHARED1 / SHARED_A exist on both classes (same label and meaning, different SM_EVT instances)
    'events': [['DOG', [['DOG1', 'bark heard'], ['DOG2', 'fed'], ['SHARED1', 'ping']], [['DOG_A1', 'tick'], ['SHARED_A', 'pong']]],
               ['PER', [['PER1', 'paid'], ['SHARED1', 'ping']], [['SHARED_A', 'pong']]]],
}

# action homes: function, bridge, instance-based operation, derived attribute, class-based operation, state action;
# 'common' is not a home but the kind of body that is valid in every home (no parameters, no self)
HOMES = ['function', 'bridge', 'operation', 'derived', 'cop', 'state']
HOME_SELF = {'function': None, 'bridge': None, 'operation': 'DOG', 'derived': 'DOG', 'cop': None, 'state': 'DOG',
             'common': None}


def home_params(home):
    if home in ('function', 'operation', 'cop'):
        return HOME_PARAMS
    if home == 'bridge':
        return BRIDGE_PARAMS
    return []


def class_of(kl):
    for c in SPEC['classes']:
        if c['kl'] == kl:
            return c
    raise KeyError(kl)


def inst_ref(kl):
    return 'inst_ref<%s>' % class_of(kl)['name']


def inst_ref_set(kl):
    return 'inst_ref_set<%s>' % class_of(kl)['name']


def attr_type(kl, name):
    """declared type of an attribute; a referential attribute has the type of the attribute it refers to"""
    c = class_of(kl)
    for n, t in c['attrs']:
        if n == name:
            return t
    for n, okl, oattr in c['refs']:
        if n == name:
            return attr_type(okl, oattr)
    raise KeyError((kl, name))


def core_type(ty):
    """the core type a (chain of) user-defined type(s) is based on; other types are their own core type"""
    for n, base in SPEC['udts']:
        if n == ty:
            return core_type(base)
    return ty


# --------------------------------------------------------------------------- base model

def build_base(m, xtuml):
    """instantiate SPEC in the ooaofooa metamodel `m`; returns {'function': S_SYNC, 'bridge': S_BRG,
    'operation': O_TFR, 'derived': O_DBATTR} (the four homes)"""
    rel = xtuml.relate

    def pe(inst):
        p = m.new('PE_PE')
        assert rel(inst, p, 8001)
        return inst

    dts = {}
    for s_dt in m.select_many('S_DT'):
        dts[s_dt.Name] = s_dt
    for name, enumerators in SPEC['enums']:
        s_dt = pe(m.new('S_DT', Name=name))
        s_edt = m.new('S_EDT')
        assert rel(s_dt, s_edt, 17)
        prev = None
        for e in enumerators:
            s_enum = m.new('S_ENUM', Name=e)
            assert rel(s_enum, s_edt, 27)
            if prev is not None:
                assert rel(prev, s_enum, 56, 'precedes')
            prev = s_enum
        dts[name] = s_dt
    for name, base in SPEC['udts']:
        s_dt = pe(m.new('S_DT', Name=name))
        s_udt = m.new('S_UDT')
        assert rel(s_udt, s_dt, 17)
        assert rel(s_udt, dts[base], 18)
        dts[name] = s_dt
    for name, members in SPEC['structs']:
        s_dt = pe(m.new('S_DT', Name=name))
        s_sdt = m.new('S_SDT')
        assert rel(s_sdt, s_dt, 17)
        prev = None
        for mn, mt in members:
            s_mbr = m.new('S_MBR', Name=mn)
            assert rel(s_mbr, s_sdt, 44)
            assert rel(s_mbr, dts[mt], 45)
            if prev is not None:
                assert rel(prev, s_mbr, 46, 'precedes')
            prev = s_mbr
        dts[name] = s_dt
    objs = {}
    for c in SPEC['classes']:
        o_obj = pe(m.new('O_OBJ', Key_Lett=c['kl'], Name=c['name']))
        objs[c['kl']] = o_obj
        for is_set, tyname in ((False, inst_ref(c['kl'])), (True, inst_ref_set(c['kl']))):
            s_dt = pe(m.new('S_DT', Name=tyname))
            s_irdt = m.new('S_IRDT', isSet=is_set)
            assert rel(s_irdt, s_dt, 17)
            assert rel(s_irdt, o_obj, 123)
            dts[tyname] = s_dt
    homes = {}
    battrs = {}
    for c in SPEC['classes']:
        o_obj = objs[c['kl']]
        for name, ty in c['attrs']:
            o_attr = m.new('O_ATTR', Name=name)
            o_battr = m.new('O_BATTR')
            assert rel(o_attr, o_obj, 102)
            assert rel(o_attr, dts[ty], 114)
            assert rel(o_battr, o_attr, 106)
            battrs[(c['kl'], name)] = o_battr
            if name in c['derived']:
                o_dbattr = m.new('O_DBATTR')
                assert rel(o_dbattr, o_battr, 107)
                homes['derived'] = o_dbattr
            else:
                o_nbattr = m.new('O_NBATTR')
                assert rel(o_nbattr, o_battr, 107)
    for c in SPEC['classes']:
        o_obj = objs[c['kl']]
        for name, okl, oattr in c['refs']:
            o_attr = m.new('O_ATTR', Name=name)
            o_rattr = m.new('O_RATTR', BaseAttrName=oattr)
            assert rel(o_attr, o_obj, 102)
            assert rel(o_attr, dts['same_as<Base_Attribute>'], 114)
            assert rel(o_rattr, o_attr, 106)
            assert rel(o_rattr, battrs[(okl, oattr)], 113)
        for name, inst_based, ret, params in c['ops']:
            o_tfr = m.new('O_TFR', Name=name, Instance_Based=1 if inst_based else 0)
            assert rel(o_tfr, o_obj, 115)
            assert rel(o_tfr, dts[ret], 116)
            prev = None
            for pn, pt in params:
                o_tparm = m.new('O_TPARM', Name=pn)
                assert rel(o_tparm, o_tfr, 117)
                assert rel(o_tparm, dts[pt], 118)
                if prev is not None:
                    assert rel(prev, o_tparm, 124, 'precedes')
                prev = o_tparm
            if name == 'home_op':
                homes['operation'] = o_tfr
            if name == 'home_cop':
                homes['cop'] = o_tfr
    for numb, a, b, ph_ab, ph_ba, link in SPEC['rels']:
        pe(m.new('R_REL', Numb=numb))
    for kl, ism, asm in SPEC['events']:
        for kind, events in (('SM_ISM', ism), ('SM_ASM', asm)):
            if not events:
                continue
            sm_sm = m.new('SM_SM')
            m.new(kind, Obj_ID=objs[kl].Obj_ID, SM_ID=sm_sm.SM_ID)
            if kl == 'DOG' and kind == 'SM_ISM':
                # the state-action home: a state of DOG's instance state machine with its action
                sm_state = m.new('SM_STATE', Name='Idle', Numb=1)
                sm_act = m.new('SM_ACT')
                sm_ah = m.new('SM_AH')
                sm_moah = m.new('SM_MOAH')
                assert rel(sm_state, sm_sm, 501)
                assert rel(sm_act, sm_sm, 515)
                assert rel(sm_ah, sm_act, 514)
                assert rel(sm_moah, sm_ah, 513)
                assert rel(sm_moah, sm_state, 511)
                homes['state'] = sm_act
            for numb, (label, meaning) in enumerate(events):
                m.new('SM_EVT', SM_ID=sm_sm.SM_ID, SMspd_ID=m.id_generator.next(), Numb=numb + 1,
                      Drv_Lbl=label, Mning=meaning)
    for name, ret, params in SPEC['functions']:
        s_sync = pe(m.new('S_SYNC', Name=name))
        assert rel(s_sync, dts[ret], 25)
        prev = None
        for pn, pt in params:
            s_sparm = m.new('S_SPARM', Name=pn)
            assert rel(s_sparm, s_sync, 24)
            assert rel(s_sparm, dts[pt], 26)
            if prev is not None:
                assert rel(prev, s_sparm, 54, 'precedes')
            prev = s_sparm
        if name == 'home_fn':
            homes['function'] = s_sync
    for kl, name, bridges in SPEC['ees']:
        s_ee = pe(m.new('S_EE', Key_Lett=kl, Name=name))
        for bn, ret, params in bridges:
            s_brg = m.new('S_BRG', Name=bn)
            assert rel(s_brg, s_ee, 19)
            assert rel(s_brg, dts[ret], 20)
            prev = None
            for pn, pt in params:
                s_bparm = m.new('S_BPARM', Name=pn)
                assert rel(s_bparm, s_brg, 21)
                assert rel(s_bparm, dts[pt], 22)
                if prev is not None:
                    assert rel(prev, s_bparm, 55, 'precedes')
                prev = s_bparm
            if bn == 'home_brg':
                homes['bridge'] = s_brg
    for group, consts in SPEC['consts']:
        cnst_csp = pe(m.new('CNST_CSP', InformalGroupName=group))
        for name, ty, value in consts:
            cnst_syc = m.new('CNST_SYC', Name=name)
            cnst_lfsc = m.new('CNST_LFSC')
            cnst_lsc = m.new('CNST_LSC', Value=value)
            assert rel(cnst_syc, dts[ty], 1500)
            assert rel(cnst_syc, cnst_csp, 1504)
            assert rel(cnst_syc, cnst_lfsc, 1502)
            assert rel(cnst_lsc, cnst_lfsc, 1503)
    return homes


def ctx_sexp(home):
    """the name-resolution / typing context of SPEC for one home, as data for the Lean driver (sexp.dumps-able)"""
    from sexp import Sym
    classes = []
    for c in SPEC['classes']:
        attrs = [[n, attr_type(c['kl'], n)] for n, _ in c['attrs']] + \
                [[n, attr_type(c['kl'], n)] for n, _, _ in c['refs']]
        ops = [[n, ret] for n, _, ret, _ in c['ops']]
        classes.append([c['kl'], inst_ref(c['kl']), inst_ref_set(c['kl']), attrs, ops])
    funcs = [[n, ret] for n, ret, _ in SPEC['functions']]
    ees = [[kl, [[bn, ret] for bn, ret, _ in bridges]] for kl, _, bridges in SPEC['ees']]
    enums = [[n, es] for n, es in SPEC['enums']]
    consts = [[g, [[n, t] for n, t, _ in cs]] for g, cs in SPEC['consts']]
    params = [[n, t] for n, t in home_params(home)]
    self_kl = HOME_SELF[home]
    return [Sym('ctx'), classes, funcs, ees, enums, consts, params, self_kl if self_kl else Sym('none')]


# --------------------------------------------------------------------------- program generator

KEYWORDS = set('''assign assigner break bridge send control stop continue create event instance of object delete for
each in generate if elif else relate to across using return select one any many transform unrelate from while class
creator related by instances where cardinality empty false not not_empty true and or param rcvd_evt self selected
loop then end'''.split())

SCALARS = ['integer', 'real', 'string', 'boolean']


class ProgramGen(object):
    """Generates an abstract program: a list of statements
         ['s', text]                                   simple statement (text without the ';')
         ['if', cond, block, [[cond, block]...], else_block_or_None]
         ['while', cond, block]
         ['for', var, setvar, block]
       Expressions are generated as text directly (every sub-expression that is an operation is
       parenthesised with probability, always where the grammar needs it)."""

    def __init__(self, rng, home, size, feats=None, events=False, bare_consts=False, structs=False):
        self.r = rng
        self.structs = structs              # read / assign members of structured values
        self.events = events
        self.bare_consts = bare_consts      # read constants by their bare name (regenerates qualified: C06 only)
        self.home = home
        self.size = size
        self.scopes = [dict()]          # name -> ('trn', type) | ('int', kl) | ('ins', kl)
        self.counter = 0
        self.names = set()              # every variable name used in this body (exact spelling)
        self.loop = 0
        self.feats = feats              # None = everything; else a set of statement-kind names
        self.stats = {}
        if HOME_SELF[home]:
            pass                        # `self` is not a symbol until first used; it is never shadowed here

    # ---- scope
    def lookup(self, name):
        for s in reversed(self.scopes):
            if name in s:
                return s[name]
        return None

    def visible(self, pred):
        out = []
        seen = set()
        for s in reversed(self.scopes):
            for n, v in s.items():
                if n not in seen:
                    seen.add(n)
                    if pred(v):
                        out.append(n)
        return sorted(out)

    def fresh(self, prefix, allow_const=False):
        """a name no variable of this body has yet.  OAL variable names are case-sensitive (only keywords are
        not): about a quarter of the fresh names are an existing name of this body in ANOTHER letter case
        (i1 / I1, ds2 / Ds2 / DS2), i.e. a DIFFERENT variable, possibly of another kind or type, also across
        nested blocks"""
        consts = sorted(set(n for _, cs in SPEC['consts'] for n, _, _ in cs))
        if allow_const and self.r.random() < 0.08:
            # an instance handle / set / loop variable / event variable NAMED LIKE a constant of the model: once declared
            # (by select / create / for each / create event) the local variable is what the name denotes.  Not for
            # variables declared by assignment: `MAX = 1` with no variable MAX addresses the constant, which is not
            # a well-formed assignment
            free = [n for n in consts if self.lookup(n) is None]
            if free:
                name = self.r.choice(free)
                self.names.add(name)
                self.stats['names_like_a_constant'] = self.stats.get('names_like_a_constant', 0) + 1
                return name
        if self.names and self.r.random() < 0.15:
            # a name whose block has ended is unknown again: using it declares ANOTHER variable (possibly of another type)
            gone = [n for n in sorted(self.names) if self.lookup(n) is None and (allow_const or n not in consts)]
            if gone:
                self.stats['redeclared_names'] = self.stats.get('redeclared_names', 0) + 1
                return self.r.choice(gone)
        if self.names and self.r.random() < 0.25:
            base = self.r.choice(sorted(self.names))
            for cand in self.r.sample([base.upper(), base.capitalize(), base.lower()], 3):
                if cand not in self.names and cand.lower() not in KEYWORDS:
                    self.names.add(cand)
                    self.stats['case_variant_names'] = self.stats.get('case_variant_names', 0) + 1
                    return cand
        self.counter += 1
        name = '%s%d' % (prefix, self.counter)
        self.names.add(name)
        return name

    def declare(self, name, info):
        self.scopes[-1][name] = info

    def count(self, k):
        self.stats['stmt_' + k] = self.stats.get('stmt_' + k, 0) + 1

    # ---- expressions
    def lit(self, ty):
        r = self.r
        if ty == 'integer':
            return str(r.choice([0, 1, 2, 3, 7, 10, 42, 100, 65535]))
        if ty == 'real':
            # every shape of the lexer's FRACTION rule: with / without point, exponent without a point (upper / lower E,
            # signed), exponent after `digits.`, float / long suffixes
            return r.choice(['0.5', '1.0', '3.14', '10.25', '2.', '.75', '1e5', '25E-1', '3e+2', '7E0', '2.e3', '4.E-2',
                             '1e5F', '.5f', '2.L', '6e1l'])
        if ty == 'string':
            # OAL strings have no escape sequences: a backslash, a percent sign, a tick, a tab are ordinary characters
            return '"%s"' % r.choice(['', 'a', 'hello', 'x y', 'Dog #1', "it's", 'end if', 'a;b', 'C:\\temp\\log.txt',
                                      'a\\nb', '\\\\', 'ends with \\', '100%', '%s %d', "''", 'tab\there', '{0}',
                                      '\\"'[:1] + 'q', '/* no comment */', '// neither'])
        if ty == 'boolean':
            return r.choice(['true', 'false', 'TRUE', 'False'])
        raise KeyError(ty)

    def paren(self, text, is_op, force=False):
        if is_op and (force or self.r.random() < 0.6):
            return '(' + text + ')'
        if not is_op and self.r.random() < 0.05:
            return '(' + text + ')'
        return text

    def inst_vars(self, kl=None):
        return self.visible(lambda v: v[0] == 'int' and (kl is None or v[1] == kl))

    def set_vars(self, kl=None):
        return self.visible(lambda v: v[0] == 'ins' and (kl is None or v[1] == kl))

    def handles(self, kl=None):
        """instance handles usable in expressions: instance variables, and self where it exists"""
        hs = [(n, self.lookup(n)[1]) for n in self.inst_vars(kl)]
        skl = HOME_SELF[self.home]
        if skl and (kl is None or kl == skl) and self.r.random() < 0.5:
            hs.append((self.self_word(), skl))
        return hs

    def bare_const(self, ty):
        """the bare name of a constant of type ty that no visible variable hides (only unambiguous names)"""
        names = [n for n in ('COUNT',) if ty == 'integer'] + [n for n in ('RATIO',) if ty == 'real'] + \
                [n for n in ('DEBUG',) if ty == 'boolean'] + [n for n in ('unknown',) if ty == 'string']
        return [n for n in names if self.lookup(n) is None]

    def index_text(self):
        """an array index: a literal, or (C06 families) a constant read by its bare name, alone or in a sum"""
        r = self.r
        if self.bare_consts and self.bare_const('integer') and r.random() < 0.4:
            self.stats['bare_constant_in_index'] = self.stats.get('bare_constant_in_index', 0) + 1
            return r.choice(['COUNT', 'COUNT + 1', '2 * COUNT', 'COUNT - COUNT'])
        return str(r.choice([0, 1, 2, 5]))

    def self_word(self):
        """`self` is a keyword: any letter case"""
        w = self.r.choice(['self', 'self', 'self', 'SELF', 'Self'])
        if w != 'self':
            self.stats['self_respelled'] = self.stats.get('self_respelled', 0) + 1
        return w

    def inst_names(self, kl):
        """instance NAMES usable in delete / relate / unrelate: instance variables of the class, and `self`"""
        ns = self.inst_vars(kl)
        if HOME_SELF[self.home] == kl and self.r.random() < 0.6:
            ns = ns + [self.self_word()]
        return ns

    def rel_word(self, numb):
        """a relationship id is a number: R1 = R01 = r1"""
        w = self.r.random()
        if w < 0.8:
            return 'R%d' % numb
        self.stats['rel_id_respelled'] = self.stats.get('rel_id_respelled', 0) + 1
        return self.r.choice(['R0%d', 'R00%d', 'r%d', 'r0%d']) % numb

    def params_text(self, params, depth, sel):
        parts = []
        for pn, pt in params:
            parts.append('%s: %s' % (pn, self.expr(pt, depth + 1, sel)[0]))
        if len(parts) >= 2 and self.r.random() < 0.4:
            # actual parameters are named: any order is legal, and the order written is part of the tree
            self.r.shuffle(parts)
            self.stats['parameters_not_in_declaration_order'] = self.stats.get('parameters_not_in_declaration_order', 0) + 1
        return ', '.join(parts) if self.r.random() < 0.8 else ','.join(parts)

    def invocation(self, ty, depth, sel):
        """an invocation returning `ty` (None if there is none available): (text, kind)"""
        cands = []
        for n, ret, ps in SPEC['functions']:
            if ret == ty and not n.startswith('home'):
                cands.append(('fn', n, ps))
        for kl, _, bridges in SPEC['ees']:
            for bn, ret, ps in bridges:
                if ret == ty and not bn.startswith('home'):
                    cands.append(('brg', kl, bn, ps))
        for c in SPEC['classes']:
            for on, ib, ret, ps in c['ops']:
                if ret == ty and not on.startswith('home'):
                    if not ib:
                        cands.append(('cop', c['kl'], on, ps))
                    else:
                        for h, _ in self.handles(c['kl']):
                            cands.append(('iop', h, on, ps))
        if not cands:
            return None
        c = self.r.choice(cands)
        if c[0] == 'fn':
            return '::%s(%s)' % (c[1], self.params_text(c[2], depth, sel)), 'fn'
        if c[0] in ('brg', 'cop'):
            return '%s::%s(%s)' % (c[1], c[2], self.params_text(c[3], depth, sel)), c[0]
        return '%s.%s(%s)' % (c[1], c[2], self.params_text(c[3], depth, sel)), 'iop'

    def expr(self, ty, depth=0, sel=None):
        """(text, is_operation) of type `ty`; `sel` = key letters of the class `selected` denotes (in a where)"""
        r = self.r
        leaf = depth >= 3 or r.random() < 0.35
        opts = []
        # leaves
        opts.append('lit')
        if self.visible(lambda v: v == ('trn', ty)):
            opts += ['var', 'var']
        if self.visible(lambda v: v[0] == 'arr' and v[1] == ty):
            opts += ['elem']
        if ty == 'integer' and self.visible(lambda v: v[0] == 'arr'):
            opts += ['alen']
        attr_src = []
        for h, kl in self.handles():
            c = class_of(kl)
            for n, _ in c['attrs']:
                if core_type(attr_type(kl, n)) == ty:        # an attribute of a user-defined type reads as its core type
                    attr_src.append('%s.%s' % (h, n))
            for n, _, _ in c['refs']:
                if core_type(attr_type(kl, n)) == ty:
                    attr_src.append('%s.%s' % (h, n))
        for pn, pt in home_params(self.home):
            if pt == inst_ref('DOG'):                       # attributes read through a parameter that is a handle
                for n, _ in class_of('DOG')['attrs']:
                    if core_type(attr_type('DOG', n)) == ty:
                        attr_src.append('param.%s.%s' % (pn, n))
                        if n == 'length':
                            attr_src.append('param.%s.%s' % (pn, n))
        for sn, members in (SPEC['structs'] if self.structs else []):   # members of a structure parameter / transient
            roots = ['param.%s' % pn for pn, pt in home_params(self.home) if pt == sn] + \
                    self.visible(lambda v: v == ('trn', sn))
            for root in roots:
                for mn, mt in members:
                    if mt == ty and r.random() < 0.5:
                        attr_src.append('%s.%s' % (root, mn))
        if sel:
            c = class_of(sel)
            for n, _ in c['attrs']:
                if core_type(attr_type(sel, n)) == ty:
                    attr_src.append('selected.%s' % n)
                    attr_src.append('selected.%s' % n)
        if attr_src:
            opts += ['attr', 'attr']
        if any(core_type(t) == ty for _, t in home_params(self.home)):
            opts.append('param')
        for g, cs in SPEC['consts']:
            if any(t == ty for _, t, _ in cs):
                opts.append('const')
        k = r.choice(opts)
        if not leaf:
            k = r.choice(['op', 'op', 'op', 'call', k])
        if k == 'call':
            inv = self.invocation(ty, depth, sel)
            if inv is not None:
                return inv[0], False
            k = 'op'
        if k == 'op':
            if ty == 'integer':
                w = r.random()
                if w < 0.12 and self.set_vars():
                    return '%s %s' % (r.choice(['cardinality', 'CARDINALITY']), r.choice(self.set_vars())), True
                if w < 0.22:
                    a = self.expr('integer', depth + 1, sel)
                    return '%s%s' % (r.choice(['-', '- ', '+']), self.paren(a[0], a[1], True)), True
                a = self.expr('integer', depth + 1, sel)
                b = self.expr('integer', depth + 1, sel)
                return '%s %s %s' % (self.paren(a[0], a[1]), r.choice(['+', '-', '*', '/', '%']),
                                     self.paren(b[0], b[1])), True
            if ty == 'real':
                a = self.expr('real', depth + 1, sel)
                b = self.expr(r.choice(['real', 'real', 'integer']), depth + 1, sel)
                return '%s %s %s' % (self.paren(a[0], a[1]), r.choice(['+', '-', '*', '/']),
                                     self.paren(b[0], b[1])), True
            if ty == 'string':
                a = self.expr('string', depth + 1, sel)
                b = self.expr('string', depth + 1, sel)
                return '%s + %s' % (self.paren(a[0], a[1]), self.paren(b[0], b[1])), True
            if ty == 'boolean':
                w = r.random()
                if w < 0.15:
                    a = self.expr('boolean', depth + 1, sel)
                    return '%s %s' % (r.choice(['not', 'NOT', 'Not']), self.paren(a[0], a[1], True)), True
                if w < 0.30 and (self.inst_vars() or self.set_vars()):
                    v = r.choice(self.inst_vars() + self.set_vars())
                    return '%s %s' % (r.choice(['empty', 'not_empty', 'EMPTY', 'Not_Empty']), v), True
                if w < 0.55:
                    a = self.expr('boolean', depth + 1, sel)
                    b = self.expr('boolean', depth + 1, sel)
                    return '%s %s %s' % (self.paren(a[0], a[1]), r.choice(['and', 'or', 'AND', 'Or']),
                                         self.paren(b[0], b[1])), True
                if w < 0.62:
                    en, es = r.choice(SPEC['enums'])
                    a = self.expr(en, depth + 1, sel)
                    return '%s %s %s::%s' % (a[0], r.choice(['==', '!=']), en, r.choice(es)), True
                if w < 0.70 and len(self.inst_vars()) >= 1:
                    v = r.choice(self.inst_vars())
                    kl = self.lookup(v)[1]
                    w2 = r.choice(self.inst_vars(kl))
                    return '%s %s %s' % (v, r.choice(['==', '!=']), w2), True
                t2 = r.choice(['integer', 'integer', 'real', 'string'])
                a = self.expr(t2, depth + 1, sel)
                # numeric comparisons also mix an integer with a real operand (either side): still boolean
                t3 = r.choice(['integer', 'real']) if t2 != 'string' and r.random() < 0.4 else t2
                b = self.expr(t3, depth + 1, sel)
                ops = ['==', '!=', '<', '<=', '>', '>='] if t2 != 'string' else ['==', '!=']
                return '%s %s %s' % (self.paren(a[0], a[1], True) if a[1] else a[0], r.choice(ops),
                                     self.paren(b[0], b[1], True) if b[1] else b[0]), True
            k = 'lit'
        if k in ('lit', 'const') and self.bare_consts and self.bare_const(ty) and r.random() < 0.3:
            self.stats['bare_constant_read'] = self.stats.get('bare_constant_read', 0) + 1
            return r.choice(self.bare_const(ty)), False
        if k == 'var':
            return r.choice(self.visible(lambda v: v == ('trn', ty))), False
        if k == 'alen':
            self.stats['array_length_read'] = self.stats.get('array_length_read', 0) + 1
            return '%s.length' % r.choice(self.visible(lambda v: v[0] == 'arr')), False
        if k == 'elem':
            name = r.choice(self.visible(lambda v: v[0] == 'arr' and v[1] == ty))
            dims = self.lookup(name)[2]
            idx = ''.join('[%s]' % (self.index_text() if r.random() < 0.7 else self.expr('integer', depth + 2, sel)[0])
                          for _ in range(dims))
            return name + idx, False
        if k == 'attr':
            src = r.choice(attr_src)
            if any(src.startswith(('param.pst.',)) or self.lookup(src.split('.')[0]) == ('trn', sn) for sn, _ in SPEC['structs']):
                self.stats['struct_members'] = self.stats.get('struct_members', 0) + 1
            return src, False
        if k == 'param':
            return '%s.%s' % (r.choice(['param', 'param', 'PARAM']),
                              r.choice([n for n, t in home_params(self.home) if core_type(t) == ty])), False
        if k == 'const':
            cands = ['%s::%s' % (g, n) for g, cs in SPEC['consts'] for n, t, _ in cs if t == ty]
            if cands:
                return r.choice(cands), False
        if ty in SCALARS:
            return self.lit(ty), False
        for en, es in SPEC['enums']:
            if en == ty:
                return '%s::%s' % (en, r.choice(es)), False
        raise KeyError(ty)

    # ---- statements
    def rel_steps(self, kl, maxlen):
        """a navigation chain starting at class kl: (text, final class)"""
        r = self.r
        text = ''
        cur = kl
        for i in range(r.randint(1, maxlen)):
            opts = []
            for numb, a, b, ph_ab, ph_ba, link in SPEC['rels']:
                if a == cur:
                    opts.append((numb, b, ph_ab, a == b))
                    if link:
                        opts.append((numb, link, ph_ab, False))
                if b == cur:
                    opts.append((numb, a, ph_ba, a == b))
                    if link:
                        opts.append((numb, link, ph_ba, False))
                if link == cur:
                    opts.append((numb, a, ph_ba, False))
                    opts.append((numb, b, ph_ab, False))
            if not opts:
                break
            numb, dst, phrase, need = r.choice(opts)
            text += '->%s[%s%s]' % (dst, self.rel_word(numb), self.phrase(phrase, need))
            cur = dst
        return text, cur

    def phrase(self, phrase, need):
        r = self.r
        if not need and r.random() < 0.5:
            return ''
        bare = phrase[1:-1]
        if ' ' not in bare and bare.lower() not in KEYWORDS and r.random() < 0.5:
            return '.' + bare
        return '.' + phrase

    def target_var(self, kind, kl, prefix, by_assignment=False):
        """an existing variable of exactly this kind/class (re-use) or a fresh name; declares it"""
        existing = self.visible(lambda v: v == (kind, kl))
        if existing and self.r.random() < 0.3:
            return self.r.choice(existing)
        name = self.fresh(prefix, allow_const=not by_assignment)
        self.declare(name, (kind, kl))
        return name

    def where(self, kl):
        return self.expr('boolean', 1, kl)[0]

    def block(self, depth, n=None):
        self.scopes.append(dict())
        n = self.r.randint(0, 3) if n is None else n
        out = []
        for _ in range(n):
            out.extend(self.statement(depth + 1))
        self.scopes.pop()
        return out

    def kinds(self, depth):
        ks = ['assign', 'assign', 'assign', 'attr', 'create', 'create_nv', 'select_from', 'select_from',
              'select_from_where', 'invoke', 'invoke', 'assign_call', 'return', 'control', 'array'] + \
             (['struct', 'struct'] if self.structs else [])
        if depth < 3:
            ks += ['if', 'if', 'while']
        if self.inst_vars():
            ks += ['delete', 'relate', 'relate', 'unrelate', 'select_rel', 'select_rel', 'select_rel_where',
                   'assign_inst', 'attr', 'attr']
        if self.set_vars():
            ks += ['select_rel', 'assign_inst']
            if depth < 3:
                ks += ['for', 'for']
        if HOME_SELF[self.home]:
            ks += ['self_attr', 'select_rel']
        if self.loop:
            ks += ['break', 'continue']
        if self.events:
            ks += ['gen_evt', 'gen_evt', 'create_evt', 'create_evt']
            if self.visible(lambda v: v[0] == 'evt'):
                ks += ['gen_pre', 'gen_pre']
        if self.feats is not None:
            ks = [k for k in ks if k in self.feats] or ['assign']
        return ks

    def statement(self, depth):
        r = self.r
        k = r.choice(self.kinds(depth))
        self.count(k)
        if k == 'assign':
            ty = r.choice(SCALARS + ['integer', 'boolean', 'Color', 'Mode', 'Alarm'])
            existing = self.visible(lambda v: v == ('trn', ty))
            e = self.expr(ty, 0)[0]
            others = self.visible(lambda v: v[0] == 'trn' and v[1] in SCALARS and v[1] != ty)
            if others and ty in SCALARS and r.random() < 0.15:
                # a later assignment of ANOTHER type: the variable keeps the type first assigned to it
                name = r.choice(others)
                self.stats['retyped_assignments'] = self.stats.get('retyped_assignments', 0) + 1
            elif existing and r.random() < 0.4:
                name = r.choice(existing)
            else:
                name = self.fresh({'integer': 'i', 'real': 'x', 'string': 's', 'boolean': 'b'}.get(ty, 'e'))
                self.declare(name, ('trn', ty))
            return [['s', '%s = %s' % (name, e), 'assign']]
        if k == 'array':
            ty = r.choice(SCALARS)
            existing = self.visible(lambda v: v[0] == 'arr' and v[1] == ty)
            value = self.expr(ty, 1)[0]          # before the array exists: it cannot refer to itself
            if existing and r.random() < 0.5:
                name = r.choice(existing)
                dims = self.lookup(name)[2]
            else:
                name = self.fresh('arr')
                dims = r.choice([1, 1, 2])
                self.declare(name, ('arr', ty, dims))
            # the first assignment sizes the array from constant indices (eval_constant_expression)
            idx = ''.join('[%s]' % self.index_text() for _ in range(dims))
            return [['s', '%s%s = %s' % (name, idx, value), 'assign']]
        if k == 'struct':
            sn, members = r.choice(SPEC['structs'])
            self.stats['struct_members'] = self.stats.get('struct_members', 0) + 1
            have = self.visible(lambda v: v == ('trn', sn))
            pars = [pn for pn, pt in home_params(self.home) if pt == sn]
            if have and r.random() < 0.6:
                mn, mt = r.choice(members)                  # assign a member of a transient structure
                return [['s', '%s.%s = %s' % (r.choice(have), mn, self.expr(mt, 1)[0]), 'assign']]
            if not pars:
                return []
            name = self.fresh('pt')                          # a transient structure: copy of the parameter
            self.declare(name, ('trn', sn))
            return [['s', '%s = param.%s' % (name, pars[0]), 'assign']]
        if k == 'assign_call':
            ty = r.choice(['integer', 'string', 'real', 'boolean'])
            inv = self.invocation(ty, 0, None)
            if inv is None:
                return []
            existing = self.visible(lambda v: v == ('trn', ty))
            if existing and r.random() < 0.4:
                name = r.choice(existing)
            else:
                name = self.fresh('r')
                self.declare(name, ('trn', ty))
            text, kind = inv
            kw = ''
            if kind == 'brg' and r.random() < 0.5:
                kw = 'bridge '
            if kind in ('cop', 'iop') and r.random() < 0.5:
                kw = 'transform '
            return [['s', '%s%s = %s' % (kw, name, text), 'plain' if kw else 'assign']]
        if k == 'assign_inst':
            srcs = [(n, 'int', self.lookup(n)[1]) for n in self.inst_vars()] + \
                   [(n, 'ins', self.lookup(n)[1]) for n in self.set_vars()]
            if HOME_SELF[self.home]:
                srcs.append(('self', 'int', HOME_SELF[self.home]))
            srcs.append(('::top()', 'int', 'DOG'))
            for a in self.set_vars():
                for b in self.set_vars(self.lookup(a)[1]):      # set algebra on two sets of one class
                    srcs.append(('%s %s %s' % (a, r.choice(['|', '&', '-', '+', '^']), b), 'ins', self.lookup(a)[1]))
            src, kind, kl = r.choice(srcs)
            name = self.target_var(kind, kl, 'h' if kind == 'int' else 'hs', by_assignment=True)
            return [['s', '%s = %s' % (name, src), 'assign']]
        if k in ('attr', 'self_attr'):
            hs = self.handles() if k == 'attr' else [('self', HOME_SELF[self.home])]
            if not hs:
                return []
            h, kl = r.choice(hs)
            c = class_of(kl)
            an, at = r.choice(c['attrs'])
            return [['s', '%s.%s = %s' % (h, an, self.expr(core_type(at), 0)[0]), 'assign']]
        if k == 'create':
            kl = r.choice(SPEC['classes'])['kl']
            name = self.target_var('int', kl, 'o')
            return [['s', 'create object instance %s of %s' % (name, kl), 'plain']]
        if k == 'create_nv':
            return [['s', 'create object instance of %s' % r.choice(SPEC['classes'])['kl'], 'plain']]
        if k == 'delete':
            cands = self.inst_vars()
            if HOME_SELF[self.home] and r.random() < 0.2:
                cands = cands + [self.self_word()]
            return [['s', 'delete object instance %s' % r.choice(cands), 'plain']]
        if k in ('relate', 'unrelate'):
            rels = []
            for numb, a, b, ph_ab, ph_ba, link in SPEC['rels']:
                for va in self.inst_names(a):
                    for vb in self.inst_names(b):
                        if link:
                            for vl in self.inst_vars(link):
                                rels.append((va, vb, numb, ph_ab, a == b, vl))
                        else:
                            rels.append((va, vb, numb, ph_ab, a == b, None))
            if not rels:
                return []
            va, vb, numb, ph, need, vl = r.choice(rels)
            text = '%s %s %s %s across %s%s' % (k, va, 'to' if k == 'relate' else 'from', vb, self.rel_word(numb),
                                                self.phrase(ph, need))
            if vl:
                text += ' using %s' % vl
            return [['s', text, 'plain']]
        if k in ('select_from', 'select_from_where'):
            kl = r.choice(SPEC['classes'])['kl']
            many = r.random() < 0.5
            wh = ' where %s' % self.where(kl) if k == 'select_from_where' else ''
            name = self.target_var('ins' if many else 'int', kl, 'ds' if many else 'd')
            return [['s', 'select %s %s from%s %s%s' % ('many' if many else 'any', name,
                                                         ' instances of' if r.random() < 0.8 else '', kl, wh),
                     'select']]
        if k in ('select_rel', 'select_rel_where'):
            hs = [(n, self.lookup(n)[1]) for n in self.inst_vars() + self.set_vars()]
            if HOME_SELF[self.home]:
                hs.append(('self', HOME_SELF[self.home]))
            if not hs:
                return []
            h, kl = r.choice(hs)
            chain, dst = self.rel_steps(kl, 3)
            if not chain:
                return []
            card = r.choice(['one', 'any', 'many', 'many'])
            wh = ' where %s' % self.where(dst) if k == 'select_rel_where' else ''
            name = self.target_var('ins' if card == 'many' else 'int', dst, 'ns' if card == 'many' else 'n')
            return [['s', 'select %s %s related by %s%s%s' % (card, name, h, chain, wh), 'select']]
        if k == 'invoke':
            cands = []
            for n, ret, ps in SPEC['functions']:
                if not n.startswith('home'):
                    cands.append(('::%s' % n, ps, ''))
            for kl, _, bridges in SPEC['ees']:
                for bn, ret, ps in bridges:
                    if not bn.startswith('home'):
                        cands.append(('%s::%s' % (kl, bn), ps, 'bridge '))
            for c in SPEC['classes']:
                for on, ib, ret, ps in c['ops']:
                    if on.startswith('home'):
                        continue
                    if not ib:
                        cands.append(('%s::%s' % (c['kl'], on), ps, 'transform '))
                    else:
                        for h, _ in self.handles(c['kl']):
                            cands.append(('%s.%s' % (h, on), ps, 'transform '))
            head, ps, kw = r.choice(cands)
            return [['s', '%s%s(%s)' % (kw if r.random() < 0.5 else '', head, self.params_text(ps, 0, None)),
                     'plain']]
        if k in ('gen_evt', 'create_evt'):
            targets = []
            for kl, ism, asm in SPEC['events']:
                for label, meaning in asm:
                    targets.append((label, meaning, '%s %s' % (kl, r.choice(['class', 'assigner']))))
                for label, meaning in ism:
                    targets.append((label, meaning, '%s creator' % kl))
                    for h, _ in self.handles(kl):
                        targets.append((label, meaning, h))
                        targets.append((label, meaning, h))
            label, meaning, to = r.choice(targets)
            data = []
            for nm in r.sample(['count', 'who', 'flag', 'amount'], r.choice([0, 0, 1, 2, 3])):
                data.append('%s: %s' % (nm, self.expr(r.choice(SCALARS), 1)[0]))
            # the meaning may be omitted (the regenerated text prints the modelled one)
            mtext = '' if r.random() < 0.2 else ':' + ("'%s'" % meaning if (' ' in meaning or r.random() < 0.6)
                                                       else meaning)
            if not mtext:
                self.stats['event_meaning_omitted'] = self.stats.get('event_meaning_omitted', 0) + 1
            spec = "%s%s(%s)" % (label, mtext, ', '.join(data))
            if k == 'gen_evt':
                return [['s', 'generate %s to %s' % (spec, to), 'plain']]
            name = self.target_var('evt', None, 'ev')
            return [['s', 'create event instance %s of %s to %s' % (name, spec, to), 'plain']]
        if k == 'gen_pre':
            return [['s', 'generate %s' % r.choice(self.visible(lambda v: v[0] == 'evt')), 'plain']]
        if k == 'return':
            if r.random() < 0.3:
                return [['s', 'return', 'plain']]
            return [['s', 'return %s' % self.expr(r.choice(SCALARS), 0)[0], 'plain']]
        if k == 'control':
            return [['s', 'control stop', 'plain']]
        if k in ('break', 'continue'):
            return [['s', k, 'plain']]
        if k == 'if':
            cond = self.expr('boolean', 0)[0]
            blk = self.block(depth)
            elifs = []
            for _ in range(r.choice([0, 0, 1, 1, 2, 3])):
                c2 = self.expr('boolean', 0)[0]
                elifs.append([c2, self.block(depth)])
            els = self.block(depth) if r.random() < 0.5 else None
            return [['if', cond, blk, elifs, els]]
        if k == 'while':
            cond = self.expr('boolean', 0)[0]
            self.loop += 1
            blk = self.block(depth)
            self.loop -= 1
            return [['while', cond, blk]]
        if k == 'for':
            sv = r.choice(self.set_vars())
            kl = self.lookup(sv)[1]
            name = self.target_var('int', kl, 'it')     # declared in the block enclosing the loop
            self.loop += 1
            blk = self.block(depth)
            self.loop -= 1
            return [['for', name, sv, blk]]
        raise KeyError(k)

    def program(self):
        out = []
        guard = 0
        while len(out) < self.size and guard < 10 * self.size + 10:
            guard += 1
            out.extend(self.statement(0))
        if not out:
            out = [['s', 'control stop', 'plain']]
        return out


# --------------------------------------------------------------------------- rendering

def _kw(rng, word, vary):
    if not vary:
        return word
    w = rng.random()
    if w < 0.7:
        return word
    if w < 0.85:
        return word.upper()
    return word.capitalize()


_HEAD_WORDS = ('create', 'object', 'event', 'generate', 'instance', 'delete', 'select', 'many', 'any', 'one', 'relate', 'unrelate',
               'return', 'control', 'stop', 'break', 'continue', 'bridge', 'transform')


def _respell(rng, text, vary):
    """re-spell the leading keywords of a simple statement in a random letter case (identifiers are left alone:
    only the run of bare keywords at the head of the statement is touched)"""
    if not vary or rng.random() < 0.6:
        return text
    words = text.split(' ')
    up = rng.random() < 0.5
    out = []
    for i, w in enumerate(words):
        if w in _HEAD_WORDS:
            out.append(w.upper() if up else w.capitalize())
        else:
            out.extend(words[i:])
            break
    return ' '.join(out)


def render(prog, style_rng, vary=True, indent=0):
    r = style_rng
    lines = []
    pad = '  ' * indent if r.random() < 0.9 else ''
    for st in prog:
        if st[0] == 's':
            text = st[1]
            if st[2] == 'assign' and r.random() < 0.3:
                text = _kw(r, 'assign', vary) + ' ' + text
            else:
                text = _respell(r, text, vary)
            lines.append(pad + text + ';')
            if r.random() < 0.05:
                lines.append(pad + ';')
            if r.random() < 0.05:
                lines.append(pad + '// a comment; with a semicolon')
            if r.random() < 0.03:
                lines.append(pad + '/* block\n comment */')
        elif st[0] == 'if':
            then = (' ' + _kw(r, 'then', vary)) if r.random() < 0.4 else ''
            lines.append(pad + '%s %s%s' % (_kw(r, 'if', vary), _cond(r, st[1], then), then))
            lines.append(render(st[2], r, vary, indent + 1))
            # ragged layout: successive elif clauses may start further LEFT than the ones before them
            ragged = vary and len(st[3]) >= 2 and r.random() < 0.4
            extra = sorted((r.choice([0, 1, 3, 6, 9]) for _ in st[3]), reverse=True) if ragged else [0] * len(st[3])
            for (c, b), ex in zip(st[3], extra):
                then = (' ' + _kw(r, 'then', vary)) if r.random() < 0.4 else ''
                lines.append(pad + ' ' * ex + '%s %s%s' % (_kw(r, 'elif', vary), _cond(r, c, then), then))
                lines.append(render(b, r, vary, indent + 1))
            if st[4] is not None:
                lines.append(pad + _kw(r, 'else', vary))
                lines.append(render(st[4], r, vary, indent + 1))
            lines.append(pad + _end(r, 'if', vary) + ';')
        elif st[0] == 'while':
            loop = (' ' + _kw(r, 'loop', vary)) if r.random() < 0.3 else ''
            lines.append(pad + '%s %s%s' % (_kw(r, 'while', vary), _cond(r, st[1], loop), loop))
            lines.append(render(st[2], r, vary, indent + 1))
            lines.append(pad + _end(r, 'while', vary) + ';')
        elif st[0] == 'for':
            loop = (' ' + _kw(r, 'loop', vary)) if r.random() < 0.3 else ''
            lines.append(pad + '%s %s %s %s %s%s' % (_kw(r, 'for', vary), _kw(r, 'each', vary), st[1],
                                                      _kw(r, 'in', vary), st[2], loop))
            lines.append(render(st[3], r, vary, indent + 1))
            lines.append(pad + _end(r, 'for', vary) + ';')
    sep = '\n'
    text = sep.join(x for x in lines if x != '')
    if indent == 0 and vary:
        text = _noise(r, text)
    return text


_TOKEN = None


def _noise(r, text):
    """surface noise on a whole rendered body, outside string literals, ticked phrases and comments:
    every keyword occurrence - in ANY syntactic position, also inside where clauses, parameter lists, event
    specifications - is re-spelled in upper / capitalised letters with probability 0.15 (identifiers are never
    keywords here, and are left alone); multi-line block comments inside statements (after a comma); a final `//`
    comment without a newline after it; CRLF line ends; tabs for indentation"""
    global _TOKEN
    import re
    if _TOKEN is None:
        _TOKEN = re.compile(r'/\*.*?\*/|//[^\n]*|"[^"\n]*"|\'[^\'\n]*\'|[A-Za-z_][A-Za-z_0-9]*|.', re.S)
    out = []
    for tok in _TOKEN.findall(text):
        if tok.lower() in KEYWORDS and tok == tok.lower() and r.random() < 0.15:
            tok = tok.upper() if r.random() < 0.5 else tok.capitalize()
        elif tok == ',' and r.random() < 0.04:
            tok = ', /* a comment over\n   two lines */'
        out.append(tok)
    text = ''.join(out)
    w = r.random()
    if w < 0.08:
        text = text + ' // the last line is a comment'
    elif w < 0.12:
        text = text + '\n/* closing\n\ncomment */'
    if r.random() < 0.1:
        text = '\n'.join(('\t' * ((len(ln) - len(ln.lstrip(' '))) // 2) + ln.lstrip(' ')) for ln in text.split('\n'))
    if r.random() < 0.1:
        text = text.replace('\n', '\r\n')
    return text


def _cond(r, cond, follower):
    # a condition directly followed by a block must be delimited: always parenthesise
    return '(' + cond + ')'


def _end(r, what, vary):
    w = r.random()
    if not vary or w < 0.7:
        return 'end ' + what
    if w < 0.8:
        return 'END ' + what.upper()
    if w < 0.9:
        return 'end  ' + what
    return 'End ' + what.capitalize()


def text_stats(text):
    """surface features of a rendered body, for the evidence's input distribution"""
    import re
    st = {}
    if '\r\n' in text:
        st['text_crlf'] = 1
    if re.search(r'^\t', text, re.M):
        st['text_tab_indent'] = 1
    if 'a comment over\n' in text or 'a comment over\r\n' in text:
        st['text_comment_inside_statement'] = 1
    if '/*' in text:
        st['text_block_comment'] = 1
    if text.rstrip().endswith('comment') and '//' in text.split('\n')[-1]:
        st['text_final_line_comment_no_newline'] = 1
    if re.search(r'\b(SELECT|Select|WHERE|Where|RELATED|Related|ACROSS|Across|INSTANCES|Instances|OF|Of|TO|To|FROM|From)\b', text):
        st['text_inner_keyword_respelled'] = 1
    if re.search(r'\b(CARDINALITY|Cardinality|NOT_EMPTY|Not_empty|EMPTY|Empty|NOT|Not|AND|And|OR|Or)\b', text):
        st['text_operator_keyword_respelled'] = 1
    if '\\' in text:
        st['text_backslash_in_string'] = 1
    return st


def count_statements(prog):
    n = 0
    for st in prog:
        n += 1
        if st[0] == 'if':
            n += count_statements(st[2]) + sum(count_statements(b) for _, b in st[3])
            if st[4] is not None:
                n += count_statements(st[4])
        elif st[0] == 'while':
            n += count_statements(st[2])
        elif st[0] == 'for':
            n += count_statements(st[3])
    return n


# --------------------------------------------------------------------------- running the implementation

class OutOfDomain(Exception):
    """the body names something that does not exist (not name-resolved): not an input of C05 / C06"""


class Rig(object):
    """Everything a case needs from the workspace copy of the repository (created once per process, in `setup`):
    the ooaofooa loader (schema parsed once), one OAL parser, one PLY lexer for tokenising generated text."""

    def __init__(self):
        import xtuml
        from bridgepoint import ooaofooa, prebuild, sourcegen, oal
        from xtuml import consistency_check
        from ply import lex
        self.xtuml = xtuml
        self.prebuild = prebuild
        self.sourcegen = sourcegen
        self.oal = oal
        self.cc = consistency_check
        self.loader = ooaofooa.Loader()
        self.parser = oal.OALParser()
        self.lexer = lex.lex(module=oal.OALParser())
        self.keywords = set(oal.OALParser.keywords)

    def fresh(self):
        m = self.loader.build_metamodel()
        homes = build_base(m, self.xtuml)
        return m, homes

    def parse(self, text):
        """the real parser (one parser object re-used; `oal.parse` builds a new one per call from the same tables)"""
        return self.parser.text_input(text + '\n')

    def translate(self, home, text, via_model=False, regenerate=True):
        """fresh base model, body text placed in the home, prebuild, regenerate: (metamodel, home instance, text).
        Raises OutOfDomain when the prebuilder itself reports an unresolved name (its two documented
        `raise Exception("Unknown …")` sites): such a body is not name-resolved, i.e. outside the property's domain
        (only the case minimiser can produce one, by deleting the statement that declares a variable)."""
        m, homes = self.fresh()
        h = homes[home]
        h.Action_Semantics_internal = text
        h.Suc_Pars = 1
        try:
            if via_model:
                self.prebuild.prebuild_model(m)
            else:
                self.prebuild.prebuild_action(h)
        except Exception as e:
            if type(e) is Exception and str(e).startswith(('Unknown transient', 'Unknown identifier')):
                raise OutOfDomain(str(e))
            raise
        return m, h, (self.sourcegen.gen_text_action(h) if regenerate else None)

    def tokens(self, text):
        """[(PLY token type, value)] of a text, by the real lexer"""
        lx = self.lexer.clone()
        lx.lineno = 1
        lx.input(text + '\n')
        out = []
        while True:
            t = lx.token()
            if t is None:
                break
            out.append([t.type, t.value])
        return out


# --------------------------------------------------------------------------- canon, independently in Python

_CALLS = ('ImplicitInvocationNode', 'BridgeInvocationNode', 'ClassInvocationNode', 'PortInvocationNode')


def _canon_name(n):
    return 'self' if n.lower() == 'self' else n


def _canon_rel(s):
    import re
    m = re.fullmatch(r'[Rr](\d+)', s)
    return 'R%d' % int(m.group(1)) if m else s


def event_meanings():
    return dict((label, "'%s'" % meaning) for _, ism, asm in SPEC['events'] for label, meaning in ism + asm)


def canon_py(x, ees, classes, events=None):
    """the C05 normal form on the generic s-expression encoding of a tree (harness/oal_sexp.py):
    operator keywords, boolean literals and select cardinalities lower-cased; a bare NS::f(...) classified as
    bridge (NS is an external entity) / class operation (NS is a class) / port message (neither); the keyword self
    as instance name of delete / relate / unrelate in lower case; relationship ids as R<number>; the meaning of a known
    event as the model states it.  Nothing else is touched (identifiers are case-sensitive)."""
    from sexp import Sym
    if not isinstance(x, list) or not x or not isinstance(x[0], Sym):
        return x
    head = str(x[0])
    rest = [canon_py(e, ees, classes, events) for e in x[1:]]
    if head == 'UnaryOperationNode':
        rest[0] = rest[0].lower()
    elif head == 'BinaryOperationNode':
        rest[1] = rest[1].lower()
    elif head == 'BooleanNode':
        rest[0] = rest[0].lower()
    elif head in ('SelectFromNode', 'SelectFromWhereNode', 'SelectRelatedNode', 'SelectRelatedWhereNode'):
        rest[0] = rest[0].lower()
    elif head == 'DeleteNode':
        rest[0] = _canon_name(rest[0])                      # the keyword self in any letter case; no other name
    elif head in ('RelateNode', 'UnrelateNode', 'RelateUsingNode', 'UnrelateUsingNode'):
        rest[0], rest[1], rest[2] = _canon_name(rest[0]), _canon_name(rest[1]), _canon_rel(rest[2])
        if len(rest) == 5:
            rest[4] = _canon_name(rest[4])
    elif head == 'NavigationStepNode':
        rest[1] = _canon_rel(rest[1])                       # a relationship id is a number
    elif head == 'EventSpecNode':
        ev = event_meanings() if events is None else events
        if rest[0] in ev:
            rest[1] = ev[rest[0]]                           # the meaning is printed from the model
    elif head == 'ImplicitInvocationNode':
        ns = rest[0]
        head = 'BridgeInvocationNode' if ns in ees else ('ClassInvocationNode' if ns in classes
                                                         else 'PortInvocationNode')
    return [Sym(head)] + rest


def first_difference(a, b, path='tree'):
    """None if the two encoded trees are equal in every field and every length, else a description"""
    if isinstance(a, list) and isinstance(b, list):
        if len(a) != len(b):
            return '%s: %d vs %d elements (%s | %s)' % (path, len(a), len(b), _brief(a), _brief(b))
        for i, (x, y) in enumerate(zip(a, b)):
            head = str(a[0]) if a and not isinstance(a[0], list) else ''
            d = first_difference(x, y, '%s/%s[%d]' % (path, head, i))
            if d:
                return d
        return None
    if type(a) is not type(b) or a != b:
        return '%s: %r vs %r' % (path, _brief(a), _brief(b))
    return None


def _brief(x):
    from sexp import dumps
    try:
        s = dumps(x)
    except Exception:
        s = repr(x)
    return s if len(s) < 160 else s[:157] + '...'


def ee_names():
    return [kl for kl, _, _ in SPEC['ees']]


def class_names():
    return [c['kl'] for c in SPEC['classes']]
