"""Random regex sources and texts for the self-test of the generic regex matcher (lean/PyxModel/Regex.lean), and the wire
format of a regex AST (lean/PyxModel/RegexSexp.lean).

The lexer models take their lexemes from `Regex.matchPrefix` on ASTs that translator/regex_ast.py computes with Python's
own regex parser.  What that matcher must agree with is Python's `re.match(source, text)`: `regex_case` draws a regex
source over every construct the AST has (classes, negated classes, ranges, `\\d \\s \\w` and their negations with
non-ASCII members, `.`, groups, ordered alternation, greedy and lazy `* + ?`, bounded repeats, positive and negative
look-ahead) plus a handful of texts over the same small alphabet, so that near-misses and backtracking are frequent.

Shared: the OAL lexer check (prop_C13) uses it; a check of another lexer built on the same matcher can too.
"""
import os
import re
import sys

from sexp import Sym

sys.path.insert(0, os.path.join(os.path.dirname(os.path.abspath(__file__)), '..', 'translator'))
import regex_ast  # noqa: E402

# letters, digits (incl. a non-ASCII decimal and a non-ASCII letter), the characters the OAL / SQL rules are about,
# blanks (incl. a non-ASCII one and the newline `.` does not match)
ALPHABET = ['a', 'b', 'e', 'E', '_', '0', '7', '٣', 'é', '*', '/', '.', '-', '+', ':', "'", '"', ' ', '\n',
            '\t', ' ', '²']
FLAGS = re.VERBOSE          # what PLY compiles the rule regexes with


def to_sexp(t):
    k = t[0]
    if k == 'eps':
        return [Sym('eps')]
    if k == 'cls':
        items = []
        for it in t[2]:
            if it[0] in ('cat', 'ncat'):
                items.append([Sym(it[0]), Sym(it[1])])
            else:
                items.append([Sym(it[0])] + list(it[1:]))
        return [Sym('cls'), Sym('T' if t[1] else 'F')] + items
    if k == 'star':
        return [Sym('star'), Sym('T' if t[1] else 'F'), to_sexp(t[2])]
    return [Sym(k)] + [to_sexp(x) for x in t[1:]]


def _lit(ch):
    return re.escape(ch)       # escapes blanks and '#' too, as VERBOSE needs


def _cls_item(r):
    k = r.random()
    if k < 0.5:
        ch = r.choice(ALPHABET)
        return '\\' + ch if ch in '\\]^-[' else ('\\n' if ch == '\n' else '\\t' if ch == '\t' else '\\ ' if ch == ' ' else ch)
    if k < 0.7:
        return r.choice(['a-e', '0-9', 'A-Z', '*-/', '٠-٩'])
    return r.choice(['\\d', '\\s', '\\w', '\\D', '\\S', '\\W'])


def _atom(r):
    k = r.random()
    if k < 0.35:
        return _lit(r.choice(ALPHABET))
    if k < 0.5:
        return r.choice(['\\d', '\\s', '\\w', '\\D', '\\S', '\\W', '.'])
    return '[%s%s]' % ('^' if r.random() < 0.35 else '', ''.join(_cls_item(r) for _ in range(r.choice([1, 1, 2, 3]))))


def rand_source(r, depth):
    """a regex source; may still be refused by regex_ast (a repetition whose body can match the empty string)"""
    if depth <= 0:
        return _atom(r)
    k = r.random()
    if k < 0.30:
        return ''.join(rand_source(r, depth - 1) for _ in range(r.choice([2, 2, 3])))
    if k < 0.48:
        return '%s%s)' % (r.choice(['(', '(?:']), '|'.join(rand_source(r, depth - 1) for _ in range(r.choice([2, 2, 3]))))
    if k < 0.80:
        body = rand_source(r, depth - 1)
        if len(body) > 1 and not (body.startswith('[') and body.endswith(']') and body.count('[') == 1) \
                and not (len(body) == 2 and body[0] == '\\'):
            body = '(%s)' % body
        return body + r.choice(['*', '+', '?', '*', '+', '*?', '+?', '??', '{2}', '{1,3}', '{0,2}', '{2,}', '{1,2}?'])
    if k < 0.90:
        return '(?%s%s)' % (r.choice(['=', '=', '!']), rand_source(r, depth - 1))
    return _atom(r)


def rand_text(r, maxlen):
    return ''.join(r.choice(ALPHABET) for _ in range(r.randrange(maxlen + 1)))


def regex_case(r, n_texts=8):
    """(source, AST tree, texts); sources the AST cannot express are redrawn (counted in `refused`)"""
    refused = 0
    while True:
        src = rand_source(r, r.choice([1, 2, 2, 3]))
        try:
            re.compile(src, FLAGS)
        except re.error:
            refused += 1
            continue
        try:
            tree = regex_ast.to_ast(src, FLAGS)
        except regex_ast.Unsupported:
            refused += 1
            continue
        texts = [rand_text(r, r.choice([3, 6, 12])) for _ in range(n_texts)]
        # texts the regex matches partly: a matched prefix of another text with a changed tail
        m = [t for t in texts if re.compile(src, FLAGS).match(t)]
        if m:
            t = r.choice(m)
            e = re.compile(src, FLAGS).match(t).end()
            texts.append(t[:e] + rand_text(r, 4))
            texts.append(t[:max(0, e - 1)])
        return src, tree, texts, refused


def py_lengths(src, texts):
    c = re.compile(src, FLAGS)
    out = []
    for t in texts:
        m = c.match(t)
        out.append(Sym('none') if m is None else m.end())
    return out
