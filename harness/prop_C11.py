"""C11 — The consistency check reports exactly the violations present.

Models over the seven association shapes, extended with plain attributes and unique identifiers, are
driven into consistent and inconsistent states: API histories (new / relate / unrelate / delete), the
loader's unchecked connects (`link.connect(..., check=False)` in both directions, which is how loading
duplicate keys over-populates an end), attribute writes producing null and duplicate identifying values,
type names in mixed letter case; plus models loaded from SQL text and checked through both command-line
`main` functions with every -r / -k restriction (incl. repeated options).

  D  counts recomputed by an independent comprehension over the dumped pools, link entries and attribute
     values: (instance, association end) pairs whose partner count lies outside the end's bounds; null
     identifying values + instances repeating an earlier instance's identifier; consistent <=> both zero;
     restricted checks = the corresponding part; subtype check; exit status <=> violations exist.
  K  lean/PyxModel/Check.lean evaluated by the driver on the same explicit state.
"""
import copy
import os
import struct

import meta_common as mc
import prop_C02
from sexp import Sym, dumps

PROP = 'C11'
RULE = ('random API histories (10-80 ops) over 7 association shapes extended with attributes P (integer), U (unique_id in '
        'random letter case), S (string), X (real, random letter case) and 0-3 unique identifiers over them (also over '
        'referential attributes), then 0-4 unchecked connects and 0-6 attribute writes (half of them to identifying attributes) drawn '
        'per type from a small pool {None, 0, 1, 2, "", "a", "b"} (two thirds) and from clusters of pairwise different values that coincide under a coarser reading (reals equal to six decimals / six significant digits / '
        'as integers / in single precision, integers equal in their low 32 or 64 bits or as floats, strings equal up to letter '
        'case or surrounding blanks), so that "repeats an earlier identifier" is decided on close values too; per state: unrestricted and '
        'per-association / per-class checks, is_consistent, subtype check; a loaded-from-text family run through both '
        'main() functions with all -r/-k subsets; family `loaded`: the API cases with the state after the first k ops built by '
        'xtuml.ModelLoader from SQL text (meta_common.Model.from_sql). Non-trivial: at least one violation and at least one satisfied end; '
        'distinct = distinct (shape, state recipe)')
EXHAUSTIVE = {'quick': False, 'thorough': False}
ASSUMPTIONS = ['identifying values are compared with == only; strings (by table) and reals (by IEEE-754 bit pattern, -0.0 as 0.0, '
               'no NaN) are encoded injectively as integers towards the model']
CHUNK = 400
CASE_TIMEOUT_S = 40
_x = None
_ws_tmp = None


def setup(ctx):
    global _x, _ws_tmp
    import xtuml
    _x = xtuml
    mc.bind(xtuml)
    _ws_tmp = str(ctx.ws.tmp('c11'))
    global _repo_copy
    _repo_copy = str(ctx.ws.repo)


_repo_copy = None
UID_SPELLINGS = ['unique_id', 'UNIQUE_ID', 'Unique_Id']
REAL_SPELLINGS = ['real', 'REAL', 'Real']
STRS = {'': 1000, 'a': 1001, 'b': 1002, 'A': 1003, 'a ': 1004, ' a': 1005, "a'": 1006}

# Family `close values` (the value dimension of the quantifier "all identifier sets with null and duplicate values"): the
# values written into identifying attributes are drawn, per type, from clusters of pairwise DIFFERENT values (under ==, which is
# all the statement's "repeating an earlier instance's identifier" speaks of) that coincide under a coarser reading somebody
# might compare by instead: the persisted text ('%f': six decimals), six significant digits ('%g'), two decimals, truncation /
# rounding to an integer, single precision, 2^53 (integers as floats), the low 32 / 64 bits of an integer, letter case and
# surrounding blanks of a string.  Reals are given as TEXT (what a model file holds, no exponent); the value is float(text).
REAL_CLUSTERS = [['0.0', '0.0000001', '0.0000004', '-0.0000002'],          # 0.0 is also the default of every new instance
                 ['1.0', '1.0000001', '1.0000002', '0.9999999'],
                 ['0.3333333', '0.33333334', '0.333'],
                 ['1.5', '1.7', '2.5'],
                 ['123456.7', '123456.8'],
                 ['16777216.0', '16777217.0'],
                 ['9007199254740992.0', '9007199254740994.0'],
                 ['-1.5', '-1.5000001']]
REAL_TEXTS = [t for c in REAL_CLUSTERS for t in c]
INT_VALUES = [0, 1, 2, -1, 2 ** 32 + 1, 2 ** 53, 2 ** 53 + 1, 2 ** 64 + 2]
UID_VALUES = [0, 1, 2, 2 ** 32 + 1, 2 ** 64 + 1, 2 ** 127 + 2]      # a UNIQUE_ID value has 128 bits
STR_VALUES = ['', 'a', 'b', 'A', 'a ', ' a', "a'"]


def real_value(r):
    """a real from one of the clusters (the first two twice as often), as a float"""
    c = r.choice(REAL_CLUSTERS + REAL_CLUSTERS[:2])
    return float(r.choice(c))


def make_schema(r, name):
    s = copy.deepcopy(mc.SHAPES[name])
    for c in s['classes']:
        uid = r.choice(UID_SPELLINGS)
        c['attrs'] = [(a, (uid if t == 'unique_id' else t)) for a, t in c['attrs']] + \
                     [('P', r.choice(['integer', 'INTEGER'])), ('U', uid), ('S', r.choice(['string', 'STRING'])),
                      ('X', r.choice(REAL_SPELLINGS))]
        c['uid_consumers'] = None
    idents = []
    for k, c in enumerate(s['classes']):
        names = [a for a, _ in c['attrs']]
        for j in range(r.choice([0, 1, 1, 2, 3])):
            attrs = r.sample(names, r.choice([1, 1, 2]))
            idents.append([k, 'I%d' % (j + 1), attrs])
    s['idents'] = idents
    return s


def generate(ctx):
    rng = ctx.rng.fork('c11')
    n = ctx.pick(2500, 40000)
    names = sorted(mc.SHAPES)
    for i in range(n):
        yield _api_case(rng.fork(i), names)
    # family `loaded` (construction route): the state after the first k ops of an API history is built by xtuml.ModelLoader
    # from SQL text (CREATE TABLE with the type spellings of the schema, CREATE ROP, CREATE UNIQUE INDEX for the
    # identifiers, rows with explicit ids and referential values); the rest (ops, unchecked connects, writes, checks) as before
    for i in range(ctx.pick(400, 5000)):
        r = rng.fork('loaded', i)
        case = _api_case(r, names)
        ops = case['ops']
        k = r.randint(len(case['schema']['classes']), len(ops))
        pre = mc.canonical_prefix(case['schema'], ops[:k])
        case['ops'] = pre + ops[k:]
        case['fam'], case['route'], case['prefix'] = 'loaded', 'sql', len(pre)
        yield case
    for _ in _rest_of_generate(ctx, rng):
        yield _


def _api_case(r, names):
    if True:
        name = r.choice(names)
        schema = make_schema(r, name)
        ncls = len(schema['classes'])
        ops = prop_C02.prelude(schema, r.randint(1, 3))
        kinds = [o[1] for o in ops]
        dead = set()
        for _ in range(r.randint(5, 60)):
            c = r.random()
            livei = [j for j in range(len(kinds)) if j not in dead]
            if c < 0.15 or len(livei) < 2:
                if len(kinds) < 5 * ncls:
                    k = r.randrange(ncls)
                    ops.append(['new', k])
                    kinds.append(k)
                continue
            if c < 0.2:
                x = r.choice(livei)
                ops.append(['delete', x])
                dead.add(x)
                continue
            a = r.choice(schema['assocs'])
            xs = [j for j in livei if kinds[j] == a['src']]
            ys = [j for j in livei if kinds[j] == a['tgt']]
            if not xs or not ys:
                continue
            x, y = r.choice(xs), r.choice(ys)
            ops.append([r.choice(['relate', 'relate', 'relate', 'unrelate']), x, y, a['rel'], a['sphrase']])
        livei = [j for j in range(len(kinds)) if j not in dead]
        forced = []
        for _ in range(r.choice([0, 0, 1, 2, 4])):
            ai = r.randrange(len(schema['assocs']))
            a = schema['assocs'][ai]
            xs = [j for j in livei if kinds[j] == a['src']]
            ys = [j for j in livei if kinds[j] == a['tgt']]
            if xs and ys:
                forced.append([ai, r.choice(xs), r.choice(ys)])
        writes = []
        for _ in range(r.choice([0, 1, 3, 6])):
            if not livei:
                break
            j = r.choice(livei)
            own = [a for a, _ in schema['classes'][kinds[j]]['attrs']]
            refs = set(k for a in schema['assocs'] if a['src'] == kinds[j] for k in a['skeys'])
            own = [a for a in own if a not in refs]
            if not own:
                continue
            # half of the writes go to an attribute of one of the class's identifiers (where there is one): that is where a
            # value decides a count
            inid = [a for a in own if any(k == kinds[j] and a in at for k, _, at in schema['idents'])]
            attr = r.choice(inid if inid and r.random() < 0.5 else own)
            ty = dict(schema['classes'][kinds[j]]['attrs'])[attr].upper()
            # two thirds of the values from the small pools (dense in nulls, genuine duplicates and permutations between
            # attributes), one third from the clusters of close values
            small = r.random() < 0.67
            if ty == 'STRING':
                v = r.choice([None, '', 'a', 'b'] if small else STR_VALUES)
            elif ty == 'REAL':
                v = r.choice([None, 0.0, 1.0, 2.0, 1.0, 2.0]) if small else real_value(r)
            elif ty == 'UNIQUE_ID':
                v = r.choice([None, 0, 1, 2, 1, 2] if small else UID_VALUES)
            else:
                v = r.choice([None, 0, 1, 2, 1, 2] if small else INT_VALUES)
            writes.append([j, attr, v])
        queries = [['assoc', None], ['uniq', None], ['consistent']]
        for rel in sorted(set(a['rel'] for a in schema['assocs'])) + ['R99']:
            queries.append(['assoc', rel])
        for k in range(ncls):
            queries.append(['uniq', k])
        if name == 'subsuper':
            queries.append(['subtype', 0, 'R4'])
        return {'fam': 'api', 'shape': name, 'schema': schema, 'ops': ops, 'forced': forced, 'writes': writes,
                'queries': queries}


def _rest_of_generate(ctx, rng):
    # loaded-from-text family through the main() functions
    m = ctx.pick(60, 600)
    for i in range(m):
        r = rng.fork('load', i)
        nb = r.randint(1, 3)
        na = r.randint(1, 4)
        brows = [[r.choice([1, 2, 3, 0]), r.choice([1, 2]), r.choice(r.choice(REAL_CLUSTERS[:3]))] for _ in range(nb)]
        arows = [[r.choice([1, 2, 3, 4, 0]), r.choice([0, 1, 2, 3, 7])] for _ in range(na)]
        card = r.choice([('1C', '1C'), ('MC', '1'), ('M', '1C'), ('1', '1')])
        opts = []
        for _ in range(r.choice([0, 1, 2, 3])):
            opts.append(r.choice([['-r', '1'], ['-r', '2'], ['-k', 'A'], ['-k', 'B'], ['-r', '1'], ['-R', '1']]))
        yield {'fam': 'load', 'brows': brows, 'arows': arows, 'card': list(card), 'opts': opts, 'queries': []}
    # the tool run as a PROCESS: the exit status is the observable of `python -m xtuml.consistency_check <file>`
    # (violation counts around the 8-bit boundary of an exit status included)
    for n in ([0, 1, 2, 255, 256, 257, 512] if ctx.quick() else [0, 1, 2, 3, 127, 128, 255, 256, 257, 511, 512, 513, 768, 1024]):
        for opts in ([], [['-r', '1']], [['-k', 'A']]):
            yield {'fam': 'proc', 'n': n, 'opts': opts, 'queries': []}
    # bridgepoint.consistency_check (the second command-line tool): main() against the statement evaluated on the loaded
    # ooaofooa population, for option combinations; and as a process (exit status), also where the count is a multiple of 256
    bp_opts = [[], [['-r', '8001']], [['-R', '25']], [['-k', 'S_SYNC']], [['-k', 'PE_PE']], [['-r', '8001'], ['-k', 'PE_PE']],
               [['-r', '1']], [['-g']], [['-r', '8001'], ['-r', '25']], [['-k', 'S_DT'], ['-g']], [['-v']], [['-k', 'S_SYNC'], ['-k', 'PE_PE']]]
    for n, dup in ((0, False), (1, False), (2, True), (3, False)) + (((64, True), (7, True)) if not ctx.quick() else ()):
        for opts in bp_opts:
            yield {'fam': 'bp', 'mode': 'main', 'n': n, 'dup': dup, 'opts': opts, 'queries': []}
    for n, dup in ((0, False), (1, False), (64, True)) + (((128, True), (65, False), (192, True)) if not ctx.quick() else ()):
        for opts in ([], [['-r', '1']], [['-k', 'S_SYNC']]) if n else ([], [['-g']]):
            yield {'fam': 'bp', 'mode': 'proc', 'n': n, 'dup': dup, 'opts': opts, 'queries': []}


# --------------------------------------------------------------------------- oracle

def enc(v):
    """identifying values towards the model and the recount: an integer per value, INJECTIVE within a type (two values get the
    same integer exactly when they are == ): strings by table (unknown ones by their bytes), reals by their IEEE-754 bit
    pattern (-0.0 == 0.0 normalised by + 0.0; no NaN is generated), integers as they are"""
    if v is None:
        return None
    if isinstance(v, str):
        if v in STRS:
            return STRS[v]
        return 10 ** 6 + int.from_bytes(v.encode('utf-8', 'surrogatepass'), 'big')
    if isinstance(v, float):
        return struct.unpack('>Q', struct.pack('>d', v + 0.0))[0]
    return int(v)


class Dump(object):
    """explicit state read from a built metamodel"""

    def __init__(self, schema, metaclasses, assocs, insts_in_order):
        self.schema = schema
        self.index = dict((id(i), n) for n, i in enumerate(insts_in_order))
        self.kinds = [metaclasses.index(_x.get_metaclass(i)) for i in insts_in_order]
        self.pools = [[self.index[id(i)] for i in mcl.storage] for mcl in metaclasses]
        self.links = []
        for a in assocs:
            pair = []
            for link in (a.source_link, a.target_link):
                pair.append(sorted([self.index[id(k)]] + [self.index[id(p)] for p in v] for k, v in link.items()))
            self.links.append(pair)
        self.vals = []
        for n, inst in enumerate(insts_in_order):
            mcl = metaclasses[self.kinds[n]]
            row = []
            for name, _ in mcl.attributes:
                try:
                    row.append([name, enc(getattr(inst, name))])
                except AttributeError:
                    row.append([name, None])
            self.vals.append(row)
        self.classes = []
        for mcl in metaclasses:
            # identifiers may be declared under another spelling of the attribute names (names are case-insensitive): the dump
            # speaks of the attributes by their declared spelling
            canon = dict((n.upper(), n) for n, _ in mcl.attributes)
            self.classes.append({'attrs': [[n, t.upper() == 'UNIQUE_ID'] for n, t in mcl.attributes],
                                 'idents': [[k, [canon.get(a.upper(), a) for a in v]] for k, v in mcl.indices.items()],
                                 'identifying': sorted(set(canon.get(a.upper(), a) for a in mcl.identifying_attributes))})

    def partners(self, ai, side, x):
        for e in self.links[ai][side]:
            if e[0] == x:
                return e[1:]
        return []

    def val(self, x, name):
        for n, v in self.vals[x]:
            if n == name:
                return v
        return None

    # the statement, by comprehension
    def assoc_violations(self, rel):
        n = 0
        for ai, a in enumerate(self.schema['assocs']):
            if rel is not None and a['rel'] != rel:
                continue
            # end seen from the target class: partners are source-class instances; bounds = source multiplicity
            for (frm, side, cond, many) in ((a['tgt'], 0, a['scond'], a['smany']), (a['src'], 1, a['tcond'], a['tmany'])):
                lo = 0 if cond else 1
                for x in self.pools[frm]:
                    c = len(self.partners(ai, side, x))
                    if c < lo or (c > 1 and not many):
                        n += 1
        return n

    def uniq_violations(self, kind):
        n = 0
        for k, c in enumerate(self.classes):
            if kind is not None and k != kind:
                continue
            pool = self.pools[k]
            for x in pool:
                for name, is_uid in c['attrs']:
                    if name in c['identifying']:
                        v = self.val(x, name)
                        if v is None or (is_uid and v == 0):
                            n += 1
            for ident, attrs in c['idents']:
                keys = [frozenset((a, self.val(x, a)) for a in attrs) for x in pool]
                n += sum(1 for i in range(len(pool)) if keys[i] in keys[:i])
        return n


def dump_sexp(d, queries):
    def q(x):
        if x[0] == 'assoc':
            return [Sym('assoc'), x[1] if x[1] is not None else Sym('none')]
        if x[0] == 'uniq':
            return [Sym('uniq'), x[1] if x[1] is not None else Sym('none')]
        if x[0] == 'subtype':
            return [Sym('subtype'), x[1], x[2]]
        if x[0] == 'consistent':
            return [Sym('consistent')]
        return [Sym('main'), list(x[1]), list(x[2])]
    return dumps([Sym('check'), mc.schema_sexp(d.schema), [Sym('kinds')] + d.kinds,
                  [Sym('pools')] + [list(p) for p in d.pools],
                  [Sym('links')] + [[list(map(list, s)), list(map(list, t))] for s, t in d.links],
                  [Sym('attrs')] + [[n] + [[a, (v if v is not None else Sym('none'))] for a, v in row]
                                    for n, row in enumerate(d.vals)],
                  [Sym('classes')] + [[[Sym('attrs')] + [[a, bool(u)] for a, u in c['attrs']],
                                       [Sym('idents')] + [[i, list(at)] for i, at in c['idents']],
                                       [Sym('identifying')] + list(c['identifying'])] for c in d.classes],
                  [Sym('queries')] + [q(x) for x in queries]])


LOAD_SCHEMA = {'classes': [mc.C('A', None, [('Id', 'UNIQUE_ID'), ('B_Id', 'UNIQUE_ID')]),
                           mc.C('B', None, [('Id', 'UNIQUE_ID'), ('N', 'INTEGER'), ('X', 'REAL')])],
               'assocs': [], 'idents': []}


def load_case_text(case):
    cs, ct = case['card']
    # rows of B carry a third column X REAL (its own identifier I3), spelled in the text as drawn (REAL_CLUSTERS); cases
    # stored before the column existed have two-element rows and get the text without it
    real = any(len(row) > 2 for row in case['brows'])
    t = 'CREATE TABLE A (Id UNIQUE_ID, B_Id UNIQUE_ID);\nCREATE TABLE B (Id UNIQUE_ID, N INTEGER%s);\n' % (', X REAL' if real else '')
    t += 'CREATE ROP REF_ID R1 FROM %s A (B_Id) TO %s B (Id);\n' % (cs, ct)
    t += 'CREATE UNIQUE INDEX I1 ON A (Id);\nCREATE UNIQUE INDEX I1 ON B (Id);\nCREATE UNIQUE INDEX I2 ON B (N);\n'
    if real:
        t += 'CREATE UNIQUE INDEX I3 ON B (X);\n'
    for row in case['brows']:
        i, n = row[0], row[1]
        t += 'INSERT INTO B VALUES ("%s", %d%s);\n' % ('00000000-0000-0000-0000-%012d' % i, n,
                                                      (', ' + (row[2] if len(row) > 2 else '0.0')) if real else '')
    for i, b in case['arows']:
        t += 'INSERT INTO A VALUES ("%s", "%s");\n' % ('00000000-0000-0000-0000-%012d' % i, '00000000-0000-0000-0000-%012d' % b)
    return t


def run_load(case):
    text = load_case_text(case)
    loader = _x.ModelLoader()
    loader.input(text)
    m = loader.build_metamodel()
    cs, ct = case['card']
    schema = {'classes': LOAD_SCHEMA['classes'],
              'assocs': [mc.A('R1', 0, ['B_Id'], 'M' in cs, 'C' in cs, '', 1, ['Id'], 'M' in ct, 'C' in ct, '')]}
    mcs = [m.find_metaclass('A'), m.find_metaclass('B')]
    insts = list(mcs[0].storage) + list(mcs[1].storage)
    d = Dump(schema, mcs, m.associations, insts)
    path = os.path.join(_ws_tmp, 'c11_%d_%d.sql' % (os.getpid(), abs(hash(text)) % 100000))
    with open(path, 'w') as f:
        f.write(text)
    import xtuml.consistency_check as cc
    try:
        args = [o for pair in case['opts'] for o in pair] + [path]
        errors = cc.main(list(args))
    finally:
        os.unlink(path)
    rels = ['R' + o[1] for o in case['opts'] if o[0].lower() == '-r']
    kinds = [['A', 'B'].index(o[1]) for o in case['opts'] if o[0] == '-k']
    queries = [['assoc', None], ['uniq', None], ['consistent'], ['main', rels, kinds]]
    return m, d, errors, queries, rels, kinds


def run_proc(case):
    """B(Id) and n rows of A whose referential value names no B (unconditional end): n association violations
    across R1, none elsewhere"""
    import subprocess
    import sys
    n = case['n']
    rows = ['CREATE TABLE A (Id INTEGER, B_Id INTEGER);', 'CREATE TABLE B (Id INTEGER);',
            'CREATE UNIQUE INDEX I1 ON A (Id);', 'CREATE UNIQUE INDEX I1 ON B (Id);',
            'CREATE ROP REF_ID R1 FROM MC A (B_Id) TO 1 B (Id);', 'INSERT INTO B VALUES (1);']
    rows += ['INSERT INTO A VALUES (%d, 99);' % (i + 1) for i in range(n)]
    path = os.path.join(_ws_tmp, 'c11_proc_%d_%d.sql' % (os.getpid(), n))
    with open(path, 'w') as f:
        f.write('\n'.join(rows) + '\n')
    want = n      # -k alone restricts the uniqueness part only: without -r every association is still checked (and vice versa)
    env = dict(os.environ)
    env['PYTHONPATH'] = _repo_copy
    try:
        p = subprocess.run([sys.executable, '-m', 'xtuml.consistency_check'] + [o for pair in case['opts'] for o in pair] + [path],
                           env=env, cwd=_ws_tmp, stdout=subprocess.PIPE, stderr=subprocess.PIPE, timeout=120)
    finally:
        os.unlink(path)
    fails = []
    if (p.returncode != 0) != (want > 0):
        fails.append({'sig': 'exit-status', 'what': 'python -m xtuml.consistency_check %s on a model with %d violation(s) in the selected '
                      'parts exited with status %d' % (case['opts'], want, p.returncode)})
    return {'obs': [], 'd_fail': fails, 'nontrivial': want > 0, 'key': 'proc/%d/%r' % (n, case['opts']),
            'stats': {'fam_proc': 1}, 'model_line': None}


_BP_NULL = '"00000000-0000-0000-0000-000000000000"'


def bp_text(n, dup):
    """a BridgePoint model text: n functions (S_SYNC) lacking their packageable element and return type and repeating a
    null second identifier, plus (dup) one packageable element stored twice"""
    t = ''
    for i in range(n):
        t += 'INSERT INTO S_SYNC VALUES ("00000000-0000-0000-0000-%012d", %s, \'f%d\', \'\', \'\', %s, 1, \'\', 0, %d);\n' \
             % (i + 1, _BP_NULL, i, _BP_NULL, i)
    if dup:
        for _ in range(2):
            t += 'INSERT INTO PE_PE VALUES ("00000000-0000-0000-0001-000000000001", 1, %s, %s, 7);\n' % (_BP_NULL, _BP_NULL)
    return t


def bp_oracle(m, rels, kinds):
    """the statement by comprehension over a loaded BridgePoint metamodel (any schema): violations in the selected parts"""
    def assoc(rel):
        n = 0
        for a in m.associations:
            if rel is not None and a.rel_id != rel:
                continue
            for link in (a.source_link, a.target_link):
                for inst in link.from_metaclass.storage:
                    c = len(link.get(inst, ()))
                    if (c == 0 and not link.conditional) or (c > 1 and not link.many):
                        n += 1
        return n

    def uniq(kind):
        n = 0
        for mcl in m.metaclasses.values():
            if kind is not None and mcl.kind.upper() != kind.upper():
                continue
            types = dict(mcl.attributes)
            rows = [dict((name, inst.__dict__.get(name)) for name in types) for inst in mcl.storage]
            # referential attributes read through their link; take what the instance answers
            for inst, row in zip(mcl.storage, rows):
                for name in types:
                    try:
                        row[name] = getattr(inst, name)
                    except Exception:
                        row[name] = None
            for row in rows:
                for name in mcl.identifying_attributes:
                    v = row[name]
                    if v is None or (types[name].upper() == 'UNIQUE_ID' and not v):
                        n += 1
            for ident, attrs in mcl.indices.items():
                keys = [frozenset((a, row[a]) for a in attrs) for row in rows]
                seen = set()
                for k in keys:
                    if k in seen:
                        n += 1
                    seen.add(k)
        return n
    return (sum(assoc('R%d' % r) for r in rels) if rels else assoc(None)) + \
           (sum(uniq(k) for k in kinds) if kinds else uniq(None))


def run_bp(case):
    """bridgepoint.consistency_check: main() in-process resp. `python -m bridgepoint.consistency_check` as a process"""
    import subprocess
    import sys
    import logging
    from bridgepoint import ooaofooa
    import bridgepoint.consistency_check as bcc
    text = bp_text(case['n'], case['dup'])
    path = os.path.join(_ws_tmp, 'c11_bp_%d_%d_%d.xtuml' % (os.getpid(), case['n'], int(case['dup'])))
    with open(path, 'w') as f:
        f.write(text)
    flat = [o for pair in case['opts'] for o in pair]
    rels = [int(o[1]) for o in case['opts'] if o[0].lower() == '-r']
    kinds = [o[1] for o in case['opts'] if o[0] == '-k']
    fails = []
    try:
        loader = ooaofooa.Loader(load_globals=['-g'] in case['opts'])
        loader.filename_input(path)
        m = loader.build_metamodel()
        want = bp_oracle(m, rels, kinds)
        what = 'a BridgePoint model of %d dangling functions%s' % (case['n'], ' and a packageable element stored twice' if case['dup'] else '')
        if case['mode'] == 'main':
            root = logging.getLogger()
            level = root.level
            try:
                got = bcc.main(flat + [path])
            finally:
                root.setLevel(level)
            if got != want:
                fails.append({'sig': 'bp-main-count', 'what': 'bridgepoint.consistency_check.main %s on %s reported %r, the model '
                              'has %d violations in the selected parts' % (flat, what, got, want)})
        else:
            env = dict(os.environ)
            env['PYTHONPATH'] = _repo_copy
            p = subprocess.run([sys.executable, '-m', 'bridgepoint.consistency_check'] + flat + [path], env=env, cwd=_ws_tmp,
                               stdout=subprocess.PIPE, stderr=subprocess.PIPE, timeout=300)
            if (p.returncode != 0) != (want > 0):
                fails.append({'sig': 'exit-status', 'what': 'python -m bridgepoint.consistency_check %s on %s (%d violation(s) in '
                              'the selected parts) exited with status %d' % (flat, what, want, p.returncode)})
    finally:
        os.unlink(path)
    return {'obs': [], 'd_fail': fails, 'nontrivial': want > 0, 'key': 'bp/%s/%d/%r/%r' % (case['mode'], case['n'], case['dup'], case['opts']),
            'stats': {'fam_bp_' + case['mode']: 1, 'bp_violations_%s' % ('0' if want == 0 else '1-255' if want < 256 else
                                                                          'multiple-of-256' if want % 256 == 0 else '256+'): 1},
            'model_line': None}


def run_impl(case):
    if case['fam'] == 'proc':
        return run_proc(case)
    if case['fam'] == 'bp':
        return run_bp(case)
    fails = []
    stats = {'fam_' + case['fam']: 1}
    if case['fam'] == 'load':
        m, d, errors, queries, rels, kinds = run_load(case)
        got_assoc = _x.check_association_integrity(m)
        got_uniq = _x.check_uniqueness_constraint(m)
        cons = m.is_consistent()
        want_main = (sum(d.assoc_violations(r) for r in rels) if rels else d.assoc_violations(None)) + \
                    (sum(d.uniq_violations(k) for k in kinds) if kinds else d.uniq_violations(None))
        obs = [got_assoc, got_uniq, Sym('T') if cons else Sym('F'), [errors, 1 if errors > 0 else 0]]
        if errors != want_main:
            fails.append({'sig': 'main-count', 'what': 'consistency_check.main %s reported %d, the model has %d violations in the '
                          'selected parts; input:\n%s' % (case['opts'], errors, want_main, load_case_text(case))})
        case_queries = queries
    else:
        schema = case['schema']
        k0 = case['prefix'] if case.get('route') == 'sql' else 0
        if k0:
            model = mc.Model.from_sql(schema, case['ops'][:k0], [tuple(i) for i in schema['idents']])
            stats['loaded_links'] = sum(1 for o in case['ops'][:k0] if o[0] == 'relate')
            # this property's K line is the dumped state itself, so the loader-built state is compared here with the state
            # the same prefix reaches through the API: pools, both link directions, referential reads, every attribute value
            ref = mc.Model(schema)
            for (k, name, attrs) in schema['idents']:
                ref.m.define_unique_identifier(schema['classes'][k]['name'], name, *attrs)
            for op in case['ops'][:k0]:
                ref.apply(op)
            for (i, key, v) in model.ref_copies():
                fails.append({'sig': 'referential-copy-in-dict', 'what': 'loaded instance %d keeps %r = %r in its own dictionary '
                              'although the attribute is referential' % (i, key, v)})
            d_api = Dump(schema, ref.metaclasses, ref.assocs, ref.insts)
            d_sql = Dump(schema, model.metaclasses, model.assocs, model.insts)
            for what in ('kinds', 'pools', 'links', 'vals', 'classes'):
                if getattr(d_api, what) != getattr(d_sql, what):
                    fails.append({'sig': 'loaded-state-differs', 'what': 'the %s of the model loaded from text differ from those of the '
                                  'model built through the API: %r vs %r; text: %s' % (what, getattr(d_sql, what), getattr(d_api, what),
                                                                                      ' '.join(model.sql.split('\n')))})
                    break
        else:
            model = mc.Model(schema)
            for n_id, (k, name, attrs) in enumerate(schema['idents']):
                # every other history declares its identifiers under respelled attribute names (docs/audit-round4.md, 1)
                how = (len(case['ops']) + n_id) % 4 if len(case['ops']) % 2 else 0
                spell = [lambda a: a, str.upper, str.lower, str.swapcase][how]
                model.m.define_unique_identifier(schema['classes'][k]['name'], name, *[spell(a) for a in attrs])
        for op in case['ops'][k0:]:
            model.apply(op)
        for (ai, x, y) in case['forced']:
            a = model.assocs[ai]
            a.source_link.connect(model.insts[y], model.insts[x], check=False)
            a.target_link.connect(model.insts[x], model.insts[y], check=False)
        for (j, attr, v) in case['writes']:
            setattr(model.insts[j], attr, v)
        d = Dump(schema, model.metaclasses, model.assocs, model.insts)
        m = model.m
        obs = []
        case_queries = case['queries']
        for q in case_queries:
            if q[0] == 'assoc':
                obs.append(_x.check_association_integrity(m, q[1]))
            elif q[0] == 'uniq':
                obs.append(_x.check_uniqueness_constraint(m, None if q[1] is None else schema['classes'][q[1]]['name']))
            elif q[0] == 'consistent':
                obs.append(Sym('T') if m.is_consistent() else Sym('F'))
            elif q[0] == 'subtype':
                obs.append(_x.check_subtype_integrity(m, schema['classes'][q[1]]['name'], q[2]))
        got_assoc, got_uniq, cons = obs[0], obs[1], (obs[2] == Sym('T'))
    want_assoc, want_uniq = d.assoc_violations(None), d.uniq_violations(None)
    if got_assoc != want_assoc:
        fails.append({'sig': 'assoc-count', 'what': 'check_association_integrity reports %d, %d (instance, end) pairs are out of bounds; links %s pools %s'
                      % (got_assoc, want_assoc, d.links, d.pools)})
    if got_uniq != want_uniq:
        fails.append({'sig': 'uniq-count', 'what': 'check_uniqueness_constraint reports %d, there are %d null/repeated identifying values; '
                      'classes %s values (as encoded by enc) %s%s' % (got_uniq, want_uniq, d.classes, d.vals,
                                                                   (' after the attribute writes %r' % (case['writes'],)) if case.get('writes') else
                                                                   (' rows of B %r' % (case['brows'],)) if case.get('brows') else '')})
    if cons != (want_assoc == 0 and want_uniq == 0):
        fails.append({'sig': 'consistent-iff', 'what': 'is_consistent gives %r with %d association and %d identifier violations' % (cons, want_assoc, want_uniq)})
    if case['fam'] in ('api', 'loaded'):
        for q, o in zip(case_queries, obs):
            if q[0] == 'assoc' and q[1] is not None and o != d.assoc_violations(q[1]):
                fails.append({'sig': 'assoc-restricted', 'what': 'restricted to %s: reported %d, present %d' % (q[1], o, d.assoc_violations(q[1]))})
            if q[0] == 'uniq' and q[1] is not None and o != d.uniq_violations(q[1]):
                fails.append({'sig': 'uniq-restricted', 'what': 'restricted to class %s: reported %d, present %d' % (q[1], o, d.uniq_violations(q[1]))})
            if q[0] == 'subtype':
                want = sum(1 for x in d.pools[0] if not any(d.partners(ai, 0, x) for ai in range(len(d.links))))
                if o != want:
                    fails.append({'sig': 'subtype-count', 'what': 'check_subtype_integrity reports %d, %d supertype instances lack a subtype' % (o, want)})
    nontrivial = (want_assoc + want_uniq) > 0
    stats['violating_states' if nontrivial else 'consistent_states'] = 1
    if case['fam'] in ('api', 'loaded'):
        stats.update(_value_stats(case['schema'], d))
    return {'obs': obs, 'd_fail': fails[:3], 'nontrivial': nontrivial, 'key': dumps([str(case)]), 'stats': stats,
            'model_line': dump_sexp(d, case_queries)}


def _value_stats(schema, d):
    """distribution of the value dimension: states in which two instances of a class differ in a REAL / INTEGER / STRING
    identifying attribute only beyond a coarser reading of the value (see REAL_CLUSTERS)"""
    out = {}
    for k, c in enumerate(schema['classes']):
        types = dict((n, t.upper()) for n, t in c['attrs'])
        for (kk, _, attrs) in schema['idents']:
            if kk != k:
                continue
            for a in attrs:
                vs = set(v for v in (d.val(x, a) for x in d.pools[k]) if v is not None)
                if len(vs) < 2:
                    continue
                if types.get(a) == 'REAL':
                    out['identifier_over_distinct_reals'] = 1
                    fl = [struct.unpack('>d', struct.pack('>Q', v))[0] for v in vs]
                    if len(set('%f' % f for f in fl)) < len(fl):
                        out['identifier_reals_equal_to_6_decimals'] = 1
                    if len(set(int(f) for f in fl)) < len(fl):
                        out['identifier_reals_equal_as_integers'] = 1
                elif types.get(a) == 'STRING':
                    inv = dict((n, t) for t, n in STRS.items())
                    if len(set(inv.get(v, '?').strip().upper() for v in vs)) < len(vs):
                        out['identifier_strings_equal_up_to_case_or_blanks'] = 1
                elif len(set(v % 2 ** 32 for v in vs)) < len(vs) or len(set(float(v) for v in vs)) < len(vs):
                    out['identifier_integers_equal_in_low_bits_or_as_floats'] = 1
    return out


def _without_instance(case, j):
    """the case without the j-th created instance: its `new` op and every op / connect / write naming it are dropped, later
    creation indices move down"""
    c = copy.deepcopy(case)
    seen, at = -1, None
    for n, o in enumerate(c['ops']):
        if o[0] == 'new':
            seen += 1
            if seen == j:
                at = n
                break
    if at is None:
        return None
    f = lambda i: i - 1 if i > j else i
    ops, dropped_in_prefix = [], 0
    for n, o in enumerate(c['ops']):
        gone = n == at or (o[0] == 'delete' and o[1] == j) or (o[0] in ('relate', 'unrelate') and j in (o[1], o[2]))
        if gone:
            if n < c.get('prefix', 0):
                dropped_in_prefix += 1
            continue
        if o[0] == 'delete':
            o = ['delete', f(o[1])]
        elif o[0] in ('relate', 'unrelate'):
            o = [o[0], f(o[1]), f(o[2])] + list(o[3:])
        ops.append(o)
    c['ops'] = ops
    if 'prefix' in c:
        c['prefix'] -= dropped_in_prefix
    c['forced'] = [[ai, f(x), f(y)] for ai, x, y in c['forced'] if j not in (x, y)]
    c['writes'] = [[f(i), a, v] for i, a, v in c['writes'] if i != j]
    return c


def shrink_candidates(case):
    """smaller cases of the state-recipe families: fewer writes / unchecked connects / identifiers / restricted queries / ops /
    instances (the first three queries are the unrestricted checks the verdict reads and stay)"""
    fam = case.get('fam')
    if fam == 'load':
        for key in ('arows', 'brows', 'opts'):
            for i in range(len(case[key])):
                if key == 'brows' and len(case[key]) == 1:
                    continue
                c = copy.deepcopy(case)
                del c[key][i]
                yield c
        return
    if fam not in ('api', 'loaded'):
        return
    k0 = case.get('prefix', 0) if case.get('route') == 'sql' else 0

    def drop(key, idxs):
        c = copy.deepcopy(case)
        c[key] = [e for n, e in enumerate(c[key]) if n not in idxs]
        if key == 'ops' and 'prefix' in c:
            c['prefix'] -= sum(1 for n in idxs if n < k0)
        return c
    rest = [n for n, o in enumerate(case['ops']) if o[0] != 'new' and n >= k0]
    if len(rest) > 1:
        yield drop('ops', set(rest))
        yield drop('ops', set(rest[len(rest) // 2:]))
        yield drop('ops', set(rest[:len(rest) // 2]))
    if len(case['forced']) > 1:
        yield drop('forced', set(range(len(case['forced']))))
    if len(case['queries']) > 3:
        yield drop('queries', set(range(3, len(case['queries']))))
    for key in ('writes', 'forced'):
        for i in range(len(case[key])):
            yield drop(key, {i})
    for i in range(len(case['schema']['idents'])):
        c = copy.deepcopy(case)
        del c['schema']['idents'][i]
        yield c
    for i in range(3, len(case['queries'])):
        yield drop('queries', {i})
    for n, o in enumerate(case['ops']):
        if o[0] != 'new':
            yield drop('ops', {n})
    for j in reversed(range(sum(1 for o in case['ops'] if o[0] == 'new'))):
        c = _without_instance(case, j)
        if c is not None:
            yield c


def model_obs(case, ans):
    return ans
