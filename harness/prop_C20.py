"""C20 — XSD generation mirrors the component's classes and data types.

A case is a BridgePoint population with a component name, an edit script and an entry point:

  synth   class diagrams from `ooa_encoder.gen_diagram` (half of them with names containing & < > " ' ,
          blanks and non-ASCII letters), encoded as .xtuml rows in a PRNG-permuted order
  real    tests/resources/Simple_Model.xtuml (component Comp), statements permuted; every single edit
          at every applicable site, plus random scripts

Edits (applied to the loaded ooaofooa population by setattr / new / relate / unrelate): rename / retype /
add attribute, add enumerator, permute enumerators, add user type, move class between containers.
Entry points: `gen_xsd_schema.build_schema(m, c_c)` (the ElementTree element) and `gen_xsd_schema.main`
(file output, parsed again with xml.dom.minidom and xml.etree.ElementTree).

  D  the tree (canonical: XML attributes sorted; types, classes and attribute declarations sorted — the
     generator iterates over unordered row sets —, enumerators in order) equals the specification
     `ooa_encoder.py_xsd` of the (edited) diagram: elements = classes contained in the component,
     attributes = the non-derived ones of a supported type with the (referred) base type's name, simple
     types = the core / enumeration / user types in scope, enumerators in modeled order, nothing else;
     the written file is well-formed for both parsers and denotes the same tree; an unknown component
     name makes `main` exit with status 1 and write nothing.
  K  the same canonical trees from the Lean model: `xsd d`, `xsd (applyXEdits es d)` and
     `render (specEdits (xresolveAll d es) (xsdSpec d))`.

Descriptions: about a third of the synthesised populations (and a quarter of the single-edit cases on the real model) carry
NON-EMPTY description texts (Descrip of C_C, EP_PKG, S_DT, S_ENUM, O_OBJ, O_ATTR, R_REL, O_REF: ` -- `, `-----`, `--retries`,
`-->`, `<!-- -->`, <, &, quotes, newlines, tabs, `]]>`, non-ASCII).  The property does not mention descriptions, so D demands the
same declarations as without them (comment nodes declare nothing and are ignored) and that the schema is WELL-FORMED: the element
returned by build_schema, written with ElementTree.tostring, parses with minidom and ElementTree to the same tree; main writes a
file that parses (an ExpatError inside main is reported as not-well-formed); the `text` entry still compares character by character.

Arrays and default values (owner-C20 round 8): a fifth to a third of the synthesised populations (`arrays` seed) and a fifth of
the single-edit cases on the real model dimension their attributes the three ways model files do - O_ATTR.Dimensions ('[4]',
'[2][3]', '[]') together with one S_DIM row per dimension across R120, the string only, the rows only - and give attributes and
data types default values; the add-attribute edit also adds ARRAY attributes, and the edit `redim` (re-)dimensions an attribute
or makes it scalar again.  The property counts "one attribute per non-derived attribute of a supported type ... typed by the base
data type": dimensions and defaults are no part of the diagram, so D and K demand the same declarations as without them (`redim`
is the identity on the diagram and is not sent to the model).

Family session (patterns memoisation / aliasing / routes / two of a kind): ONE loaded population - build_schema and main for
one component, then schemas of other components interleaved with edits of the population, mk_component (the SQL route) on the
same population and scribbling over the tree returned last, at the end the first component again by both routes; diagrams
with two classes of the same key letters in different components and twin identifiers.  D: every schema equals the
specification of the population as edited so far (main: of the file), build_schema leaves the population unchanged.
K: `xsd (applyXEdits es d)` per step.
"""
import hashlib
import itertools
import json
import os
import tempfile

import ooa_encoder as E
import prop_C14 as C14
from common import HarnessError
from sexp import Sym, dumps

PROP = 'C20'
RULE = ('random class diagrams as for C14, every second one with XML-special / non-ASCII characters in the names of '
        'components, data types, enumerators and attributes, x every component of the diagram x entry point '
        '(build_schema / main with file output) x random scripts of XSD-relevant edits (quick: length 0-3, thorough: '
        '0-6); on Simple_Model.xtuml every single edit at every site (rename each attribute, retype each base '
        'attribute to each data type, add a base / derived / referential / unsupported attribute to each class, add an '
        'enumerator, every permutation of the enumerators, add a user type of each base in each container, move each '
        'class to each container) and random scripts; plus same-named data types in different scopes (a type of the component named like a global one, of another kind) with edits on the inner one, and classes whose attributes are only partly on the R103 chain; plus the WRITTEN FILE character by character: for every third diagram (rows in modeled order, so the document order is defined) the text written by main equals the specified text (one element per line, four blanks per level, attribute order, the four replacements of minidom). Non-trivial: the component contains a class with a declared '
        'attribute and, if there are edits, they change the tree; distinct = distinct case content; plus sessions: 4-14 schemas '
        'by both routes from ONE loaded population interleaved with edits, mk_component on the same population and mutation of '
        'the returned tree, on diagrams with same-key-letter classes in different components; a third of all synthesised populations '
        'with non-empty description texts (--, -->, <, &, quotes, newlines) on every element kind, by both routes: same '
        'declarations, well-formed output; a fifth to a third of the populations with ARRAY attributes (O_ATTR.Dimensions and / '
        'or S_DIM rows across R120) and default values on attributes and data types, array attributes added by edits, '
        'attributes (re-)dimensioned by edits: same declarations')
EXHAUSTIVE = {'quick': False, 'thorough': False}
ASSUMPTIONS = [
    'EP_PKGREF package references (the `for ep_pkg in many(ep_pkg).EP_PKG[1402, ...]` loop of is_contained_in) are in the '
    'Lean model (ClassDiagram.pkgrefs); family pkgref is judged by D and compared by K (a data type of a global package referred '
    'to from the component is declared once: fixed finding, theorem xsd_global_contained_declared_once); acyclic containment + '
    'reference graph and acyclic user-type chains (XWF: TreeOk, DtChainOk) - Python does not terminate otherwise',
    'the EMPTY data type name is in the domain (modelled: omitted wherever Python tests the name for truthiness)',
    'domain: well-formed populations as for C14; data type names are unique (xs:simpleType names must be)',
    'the written text is modelled as minidom.toprettyxml of Python 3.12.1 writes it (attribute values: & < > " replaced); names with CR, LF or TAB are outside the domain (that version writes them raw and an XML parser then reads blanks)',
]
TRUSTED_EXTRA = ['harness/ooa_encoder.py: diagram -> ooaofooa rows, decode, the Python specification py_xsd (oracle of D), '
                 'canon_xml']
CHUNK = 400
CASE_TIMEOUT_S = 30
BUDGET_S = {'quick': 200, 'thorough': 1500}

_ctx = C14._ctx
_fresh = [10 ** 9]


def setup(ctx):
    C14.setup(ctx)
    from bridgepoint import gen_xsd_schema
    _ctx['gen_xsd'] = gen_xsd_schema


def _fresh_id():
    _fresh[0] += 1
    return _fresh[0]


def _xscript(rng, d, n):
    cur, out = d, []
    for _ in range(n):
        e = E.gen_xedit(rng, cur, _fresh_id)
        if e is None:
            break
        cur = E.py_apply_xedit(cur, e)
        out.append(e)
    return out


def _real_sites(d):
    parents = [None] + [['comp' if k['comp'] else 'pkg', k['id']] for k in d['containers']]
    some_base = next((c['id'], a['id']) for c in d['classes'] for a in c['attrs'] if a['kind'][0] == 'base')
    for c in d['classes']:
        for a in c['attrs']:
            yield [['rename', c['id'], a['id'], a['name'] + '&<renamed>"\'']]
            if a['kind'][0] != 'ref' and E.py_base_type_name(d, a['kind'][1]):
                for t in d['dts']:
                    if t['id'] != a['kind'][1] and E.py_base_type_name(d, t['id']):
                        yield [['retype', c['id'], a['id'], t['id']]]
            elif a['kind'][0] == 'ref':
                # the own R114 type of a referential attribute (each type of the model): the declaration must not move,
                # neither now nor after the referred base attribute is retyped
                for t in d['dts']:
                    yield [['retype', c['id'], a['id'], t['id']]]
                base = E._find(d['classes'], 'id', a['kind'][1])
                ba = E._find(base['attrs'], 'id', a['kind'][2]) if base else None
                if ba is not None and ba['kind'][0] == 'base' and E.py_base_type_name(d, ba['kind'][1]):
                    for t in d['dts']:
                        if t['id'] != ba['kind'][1] and E.py_base_type_name(d, t['id']):
                            yield [['retype', c['id'], a['id'], ba['kind'][1]], ['retype', base['id'], ba['id'], t['id']]]
        for t in d['dts']:
            yield [['add-attr', c['id'], {'id': _fresh_id(), 'name': 'Added_Attr', 'kind': ['base', t['id']]}]]
        # --- owner-C20 round 8: array attributes (string and S_DIM rows / string only / rows only), re-dimensioned ones
        for j, t in enumerate(d['dts']):
            counts = E.DIMENSIONS[j % len(E.DIMENSIONS)]
            dims = [[E._dims_text(counts), counts, '0'], [E._dims_text(counts), [], None], ['', counts, None]][j % 3]
            yield [['add-attr', c['id'], {'id': _fresh_id(), 'name': 'Added_Array', 'kind': ['base', t['id']], 'dims': dims}]]
        for j, a in enumerate(c['attrs']):
            for counts in E.DIMENSIONS[:2]:
                yield [['redim', c['id'], a['id'], E._dims_text(counts), counts]]
            yield [['redim', c['id'], a['id'], '[8]', []]]
            yield [['redim', c['id'], a['id'], '', [5]], ['rename', c['id'], a['id'], a['name'] + '_arr']]
            yield [['redim', c['id'], a['id'], '[2]', [2]], ['redim', c['id'], a['id'], '', []]]
        # --- end owner-C20 round 8
        yield [['add-attr', c['id'], {'id': _fresh_id(), 'name': 'Added_Derived',
                                       'kind': ['derived', E.GLOBAL_DT_BASE + 2]}]]
        yield [['add-attr', c['id'], {'id': _fresh_id(), 'name': 'Added_Ref', 'kind': ['ref', some_base[0], some_base[1]]}]]
        for p in parents:
            if p != c['parent']:
                yield [['move-class', c['id'], p]]
                yield [['move-class', c['id'], p], ['move-class', c['id'], c['parent']]]
    for t in d['dts']:
        if t['kind'][0] == 'enum':
            yield [['add-enum', t['id'], 'E_added', _fresh_id()]]
            n = len(t['kind']) - 1
            for perm in itertools.permutations(range(n)):
                if list(perm) != list(range(n)):
                    yield [['perm-enums', t['id'], list(perm)]]
            yield [['add-enum', t['id'], 'E_added', _fresh_id()], ['perm-enums', t['id'], list(range(n, -1, -1))]]
        for p in parents:
            yield [['add-type', {'id': _fresh_id(), 'name': 'Added_Type_of_%s' % t['name'], 'kind': ['user', t['id']],
                                 'parent': p, 'predef': False}]]


def generate(ctx):
    rng = ctx.rng.fork('gen')
    d = _ctx['real']['simple']['diagram']
    i = 0
    for entry in ('build', 'main'):
        yield {'src': 'real', 'model': 'simple', 'comp': 'Comp', 'edits': [], 'entry': entry,
               'perm': rng.randint(1, 1 << 30)}
    yield {'src': 'real', 'model': 'simple', 'comp': 'NoSuchComponent', 'edits': [], 'entry': 'main', 'perm': None}
    yield {'src': 'real', 'model': 'interp', 'comp': 'NoSuchComponent', 'edits': [], 'entry': 'main', 'perm': None}
    # ---- targeted: classes without any declarable attribute (no attribute, only current_state, only derived or
    #      unsupported ones) and attributes typed by instance reference / structured / subtype-less data types
    for j in range(ctx.pick(24, 200)):
        r = rng.fork('targeted', j)
        dd = E.gen_diagram(r, max_classes=4, special_names=(j % 4 == 0), ensure_bare=True, ensure_unsupported=True,
                           ensure_empty_name=(j % 2 == 0), ensure_dangling_parent=(j % 3 == 0), empty_enum=True)
        comps = [k['name'] for k in dd['containers'] if k['comp']]
        if not comps:
            continue
        # a component that really holds a bare class, if there is one
        def bare(c):
            return not any(a['kind'][0] != 'derived' and E.py_base_type_name(dd, E.py_attr_dt(dd, a) or 0) for a in c['attrs'])
        good = [k['name'] for k in dd['containers'] if k['comp'] and
                any(bare(c) and E.py_contained(dd, k['id'], c['parent']) for c in dd['classes'])]
        if j % 3 == 1:
            dd['descr'] = r.randint(1, 1 << 30)
        if j % 4 == 1:                                  # --- owner-C20 round 8
            dd['arrays'] = r.randint(1, 1 << 30)
        script = _xscript(r, dd, r.randint(0, 2))
        yield {'src': 'synth', 'diagram': dd, 'comp': r.choice(good or comps), 'edits': script if j % 6 != 1 else [],
               'entry': 'build' if j % 6 != 1 else 'main', 'perm': r.randint(1, 1 << 30)}
    # ---- two data types with the same name in scope (a component's type named like a global one), followed by edits on
    #      the inner one; classes whose attributes are only partly on the R103 chain.  The edit theorems assume unique type
    #      names and fully chained classes, so for these cases only the trees are compared (`nospec`), not the predicted
    #      declaration edit.
    for j in range(ctx.pick(30, 240)):
        r = rng.fork('scoped', j)
        dd = E.gen_diagram(r, max_classes=4, empty_enum=True, dup_type_names=(j % 2 == 0), loose_attrs=(j % 3 != 0))
        comps = [k for k in dd['containers'] if k['comp']]
        if not comps:
            continue
        if j % 2 == 1:
            dd['descr'] = r.randint(1, 1 << 30)
        if j % 3 == 1:                                  # --- owner-C20 round 8
            dd['arrays'] = r.randint(1, 1 << 30)
        twins = [t for t in dd['dts'] if sum(1 for u in dd['dts'] if u['name'] == t['name']) > 1 and not t.get('predef')]
        inside = [k['name'] for k in comps if any(E.py_contained(dd, k['id'], t['parent']) for t in twins)]
        loose_cls = {x[0] for x in dd.get('loose', [])}
        inside += [k['name'] for k in comps if any(c['id'] in loose_cls and E.py_contained(dd, k['id'], c['parent'])
                                                   for c in dd['classes'])]
        name = r.choice(inside or [k['name'] for k in comps])
        edits = []
        cur = dd
        for t in twins:
            if t['kind'][0] == 'enum' and r.random() < 0.8:
                e = ['add-enum', t['id'], 'Added_%d' % r.randint(1, 99), _fresh_id()] if r.random() < 0.5 else \
                    ['perm-enums', t['id'], list(reversed(range(len(t['kind']) - 1)))]
                edits.append(e)
                cur = E.py_apply_xedit(cur, e)
        edits += _xscript(r, cur, r.randint(0, 2))
        yield {'src': 'synth', 'diagram': dd, 'comp': name, 'edits': edits, 'entry': 'build',
               'perm': r.randint(1, 1 << 30), 'nospec': True, 'audit': j % 5 == 0}
        if j % 4 == 0:
            yield {'src': 'synth', 'diagram': dd, 'comp': name, 'edits': [], 'entry': 'main',
                   'perm': r.randint(1, 1 << 30), 'nospec': True}
    # ---- package references (EP_PKGREF, R1402): classes and data types of a package REFERRED to from inside the component
    #      belong to its scope.  D and K (the Lean model follows the EP_PKGREF rows).  The referred package may be a GLOBAL one:
    #      its data types are then both "global" and "contained" and must still be declared once (fixed finding: build_schema
    #      declared them twice).
    for j in range(ctx.pick(120, 800)):
        r = rng.fork('pkgref', j)
        base = E.gen_diagram(r, max_classes=4, empty_enum=True)
        ids = iter(range(2 * 10 ** 7 + 10 * j, 2 * 10 ** 7 + 10 * (j + 1)))
        dd, gained = E.add_package_references(r, base, lambda: next(ids), to_global=PKGREF_TO_GLOBAL)
        if not gained:
            continue
        yield {'src': 'synth', 'diagram': dd, 'comp': r.choice(gained), 'edits': [], 'entry': r.choice(['build', 'main']),
               'perm': r.randint(1, 1 << 30), 'audit': j % 3 == 0}
        # --- pkgref-in-model: no 'nomodel' any more - the Lean model has the EP_PKGREF rows (ClassDiagram.pkgrefs), K compares
    # ---- the command line of gen_xsd_schema: long / joined / = spellings, -v, several model paths, usage errors
    styles = ['long', 'eq', 'joined', 'verbose', 'split', 'split', 'no-component', 'no-output', 'no-model']
    for j in range(ctx.pick(36, 360)):
        r = rng.fork('cli', j)
        dd = E.gen_diagram(r, max_classes=4, special_names=(j % 4 == 0), empty_enum=True)
        comps = [k['name'] for k in dd['containers'] if k['comp']]
        if not comps:
            continue
        yield {'src': 'synth', 'diagram': dd, 'comp': r.choice(comps), 'edits': [], 'entry': 'main',
               'cli': styles[j % len(styles)], 'perm': r.randint(1, 1 << 30)}
    # ---- sessions: several schemas generated in ONE process from ONE loaded population - both routes on the untouched
    #      model, then schemas of different components interleaved with edits of the population, SQL components built from
    #      the same population (mk_component) and mutation of the tree returned last; plus two classes with the same key
    #      letters in different components and twin identifiers
    for j in range(ctx.pick(60, 700)):
        r = rng.fork('session', j)
        dd = E.gen_diagram(r, max_classes=4, special_names=(j % 4 == 0), empty_enum=True, dup_key_letters=(j % 3 != 2),
                           twin_idents=(j % 5 == 0))
        comps = [k['name'] for k in dd['containers'] if k['comp']]
        if not comps:
            continue
        if j % 2 == 0:
            dd['descr'] = r.randint(1, 1 << 30)
        if j % 3 == 1:                                  # --- owner-C20 round 8
            dd['arrays'] = r.randint(1, 1 << 30)
        nm0 = r.choice(comps)
        steps = [['xsd', 'build', nm0], ['xsd', 'main', nm0]]
        cur = dd
        for _ in range(r.randint(4, ctx.pick(7, 10))):
            x = r.random()
            if x < 0.4:
                steps.append(['xsd', 'build', r.choice(comps)])
            elif x < 0.55:
                steps.append(['sql', r.choice(comps + [None]), r.random() < 0.5])
            elif x < 0.7:
                steps.append(['mutate'])
            else:
                e = E.gen_xedit(r, cur, _fresh_id)
                if e is None:
                    continue
                cur = E.py_apply_xedit(cur, e)
                steps.append(['edit', e])
                if r.random() < 0.7:
                    steps.append(['xsd', 'build', nm0 if r.random() < 0.5 else r.choice(comps)])
        steps += [['xsd', 'build', nm0], ['xsd', 'main', nm0]]
        yield {'src': 'synth', 'family': 'session', 'diagram': dd, 'comp': nm0, 'edits': [], 'entry': 'session',
               'steps': steps, 'perm': r.randint(1, 1 << 30), 'audit': j % 3 == 0}
    for edits in _real_sites(d):
        i += 1
        yield {'src': 'real', 'model': 'simple', 'comp': 'Comp', 'edits': edits, 'entry': 'build',
               'perm': rng.randint(1, 1 << 30) if i % 3 == 0 else None,
               'descr': rng.randint(1, 1 << 30) if i % 4 == 0 else None,
               'arrays': rng.randint(1, 1 << 30) if i % 5 == 1 else None}      # --- owner-C20 round 8
    for j in range(ctx.pick(60, 800)):
        r = rng.fork('real', j)
        yield {'src': 'real', 'model': 'simple', 'comp': 'Comp', 'edits': _xscript(r, d, r.randint(2, ctx.pick(4, 8))),
               'entry': 'build', 'perm': r.randint(1, 1 << 30)}
    n = ctx.pick(350, 5000)
    for i in range(n):
        r = rng.fork('synth', i)
        d = E.gen_diagram(r, max_classes=ctx.pick(5, 7), special_names=(i % 2 == 0), empty_enum=True)
        if i % 3 == 0:
            # referential attributes with a data type of their own across R114 (not same_as<Base_Attribute>)
            d['ref_types'] = r.randint(1, 1 << 30)
        if i % 4 in (1, 2):
            # NON-EMPTY descriptions on every element kind (with --, <, &, quotes, newlines): no part of what is mirrored
            d['descr'] = r.randint(1, 1 << 30)
        if i % 5 in (1, 3):
            # --- owner-C20 round 8: array attributes (Dimensions / S_DIM rows), default values: no part of what is mirrored
            d['arrays'] = r.randint(1, 1 << 30)
        comps = [k['name'] for k in d['containers'] if k['comp']]
        if not comps or r.random() < 0.03:
            yield {'src': 'synth', 'diagram': d, 'comp': 'NoSuchComponent', 'edits': [], 'entry': 'main',
                   'perm': r.randint(1, 1 << 30)}
            continue
        name = r.choice(comps)
        entry = r.choice(['build', 'build', 'build', 'main'])
        edits = _xscript(r, d, r.randint(1, ctx.pick(3, 6))) if (entry == 'build' and r.random() < 0.75) else []
        yield {'src': 'synth', 'diagram': d, 'comp': name, 'edits': edits, 'entry': entry,
               'perm': r.randint(1, 1 << 30), 'audit': i % 5 == 0}
        if i % 3 == 0:
            # the written file, character by character (rows in modeled order: the document order is then defined)
            yield {'src': 'synth', 'diagram': d, 'comp': r.choice(comps), 'edits': [], 'entry': 'text', 'perm': None}


def _serialised_ok(el, got, fail, when=''):
    """the schema returned by build_schema, written out with ElementTree, is well-formed for both parsers and denotes the
    same declarations (comments declare nothing)"""
    import xml.dom.minidom
    import xml.etree.ElementTree as ET
    try:
        data = ET.tostring(el)
        t1 = E.canon_xml(E.tree_of_minidom(xml.dom.minidom.parseString(data).documentElement))
        t2 = E.canon_xml(E.tree_of_etree_parsed(ET.fromstring(data)))
    except Exception as ex:
        fail('not-well-formed', '%sthe schema returned by build_schema, written with ElementTree.tostring, does not parse: '
             '%s: %s' % (when, type(ex).__name__, ex))
        return
    if t1 != got or t2 != got:
        fail('file-differs', '%sthe serialised schema reads back as %s / %s, build_schema returned %s'
             % (when, json.dumps(t1), json.dumps(t2), json.dumps(got)))


PKGREF_TO_GLOBAL = True
USAGE_ERRORS = ('no-component', 'no-output', 'no-model')


def _xsd_argv(style, out, name, path, tmpdir, seed):
    """command lines of gen_xsd_schema: every spelling of the options, several model paths, usage errors"""
    if style == 'long':
        return ['--output', out, '--component', name, path]
    if style == 'eq':
        return [path, '--component=' + name, '--output=' + out]
    if style == 'joined':
        return ['-c' + name, '-o' + out, path]
    if style == 'verbose':
        return ['-vv', '-c', name, '-o', out, '-v', path]
    if style == 'split':
        return ['-c', name, '-o', out] + C14._split_file(path, tmpdir, seed)
    if style == 'no-component':
        return ['-o', out, path]
    if style == 'no-output':
        return ['-c', name, path]
    if style == 'no-model':
        return ['-c', name, '-o', out]
    return ['-c', name, '-o', out, path]


def _call_main(gen_xsd, argv, fail):
    """gen_xsd_schema.main; an exception of the XML machinery means the document it built is not well-formed"""
    import logging
    import xml.parsers.expat
    import contextlib
    import io
    try:
        with contextlib.redirect_stdout(io.StringIO()), contextlib.redirect_stderr(io.StringIO()):
            gen_xsd.main(argv)
        outs = [a for a in argv if a.endswith('.xsd')]
        given = outs[-1].split('=')[-1] if outs else None
        given = given[2:] if given and given.startswith('-o') else given
        if given and not os.path.exists(given):
            fail('output-missing', 'main returned normally but did not write %r' % (given,))
            return False
        return True
    except (xml.parsers.expat.ExpatError, SyntaxError, ValueError) as ex:
        fail('not-well-formed', 'main fails while writing the schema: %s: %s' % (type(ex).__name__, ex))
        return False
    finally:
        logging.disable(logging.CRITICAL)


def _arrays_note(case, d):
    """--- owner-C20 round 8: which attributes of the input are arrays (for the text of a finding)"""
    if case.get('arrays') is not None:
        return ' [attributes of the loaded population dimensioned by pop_set_arrays(seed %r)]' % (case['arrays'],)
    if d.get('arrays') is None:
        return ''
    rows = E._with_arrays(E.rows_of(d), d['arrays'])
    cols = [c[0] for c in E.tables()['O_ATTR']]
    dims = {}
    for t, v in rows:
        if t == 'S_DIM':
            x = dict(zip([c[0] for c in E.tables()['S_DIM']], v))
            dims.setdefault((x['Obj_ID'], x['Attr_ID']), []).append(x['elementCount'])
    out = ['%s: Dimensions %r, S_DIM rows %s' % (v[cols.index('Name')], v[cols.index('Dimensions')], dims.get((v[1], v[0]), []))
           for t, v in rows if t == 'O_ATTR' and (v[cols.index('Dimensions')] or (v[1], v[0]) in dims)]
    return ' [array attributes: %s]' % '; '.join(out)


def _comp_id(d, name):
    return next((k['id'] for k in d['containers'] if k['comp'] and k['name'] == name), None)


def run_impl(case):
    import xml.dom.minidom
    import xml.etree.ElementTree as ET
    xtuml, gen_xsd = _ctx['xtuml'], _ctx['gen_xsd']
    d0 = C14._diagram_of(case)
    name, edits, entry = case['comp'], case['edits'], case['entry']
    fails = []
    stats = {'src_' + case['src']: 1, 'entry_' + entry: 1, 'edits': len(edits)}
    # --- pkgref-in-model begin
    if d0.get('pkgrefs'):
        stats['pkgref_rows'] = len(d0['pkgrefs'])
        stats['pkgref_cases_model_compared'] = 0 if case.get('nomodel') else 1
        _cid = _comp_id(d0, name)
        if _cid is not None:
            stats['pkgref_global_and_contained_types'] = sum(
                1 for t in d0['dts'] if E.py_global(d0, t['parent']) and E.py_contained(d0, _cid, t['parent']))
    # --- pkgref-in-model end
    for e in edits:
        stats['edit_' + e[0]] = stats.get('edit_' + e[0], 0) + 1
    if case.get('arrays') is not None or d0.get('arrays') is not None:     # --- owner-C20 round 8
        stats['arrays'] = 1
    stats['edit_add-array'] = sum(1 for e in edits if e[0] == 'add-attr' and e[2].get('dims') and (e[2]['dims'][0] or e[2]['dims'][1]))

    def fail(sig, what):
        fails.append({'sig': sig, 'what': '%s [component=%r entry=%s edits=%s]%s'
                      % (what, name, entry, json.dumps(edits), _arrays_note(case, d0))})

    if case.get('family') == 'session':
        return _run_session(case, stats)
    d1 = d0
    for e in edits:
        d1 = E.py_apply_xedit(d1, e)
    comp = _comp_id(d0, name)
    want0 = E.py_xsd(d0, comp) if comp is not None else None
    want1 = E.py_xsd(d1, comp) if comp is not None else None

    with tempfile.TemporaryDirectory(dir=_ctx['tmp']) as tmpdir:
        loader, path = C14._loader_for(case, tmpdir)
        if entry == 'text':
            out = os.path.join(tmpdir, 'schema.xsd')
            text = open(out, encoding='utf-8').read() if _call_main(gen_xsd, ['-c', name, '-o', out, path], fail) else ''
            want = E.py_file_text(E.py_xsd_tree(d0, comp), lambda tag: E.XSD_ATTR_ORDER.get(tag, []))
            if text != want:
                k = next((j for j in range(min(len(text), len(want))) if text[j] != want[j]), min(len(text), len(want)))
                fail('file-text', 'the written file differs from the specified text at offset %d: written %r, specified %r'
                     % (k, text[max(0, k - 40):k + 40], want[max(0, k - 40):k + 40]))
            try:
                if not fails:
                    xml.dom.minidom.parseString(text.encode('utf-8'))
                    ET.fromstring(text.encode('utf-8'))
            except Exception as ex:
                fail('not-well-formed', 'the written file does not parse: %s: %s' % (type(ex).__name__, ex))
            key = hashlib.sha1(json.dumps(case, sort_keys=True, default=str).encode()).hexdigest()
            stats['chars'] = len(text)
            return {'obs': ['text', text], 'd_fail': fails[:3], 'nontrivial': 'xs:attribute' in text, 'key': key,
                    'stats': stats}
        if entry == 'build':
            m = loader.build_metamodel()
            if case.get('audit'):
                C14._audit(m, d0)
            c_c = m.select_any('C_C', xtuml.where_eq(Name=name))
            if c_c is None:
                raise HarnessError('build entry needs an existing component')
            if case.get('descr') is not None:
                E.pop_set_descriptions(m, case['descr'])
            if case.get('arrays') is not None:          # --- owner-C20 round 8
                E.pop_set_arrays(m, case['arrays'])
            el = gen_xsd.build_schema(m, c_c)
            got0 = E.canon_xml(E.tree_of_element(el))
            _serialised_ok(el, got0, fail)
            got1 = got0
            if edits:
                for e in edits:
                    E.pop_apply_xedit(m, e)
                el = gen_xsd.build_schema(m, c_c)
                got1 = E.canon_xml(E.tree_of_element(el))
                if not fails:
                    _serialised_ok(el, got1, fail, 'after the edits ')
            obs = ['ok', got0, got1]
        else:
            out = os.path.join(tmpdir, 'schema.xsd')
            try:
                ok = _call_main(gen_xsd, _xsd_argv(case.get('cli'), out, name, path, tmpdir, case.get('perm')), fail)
                text = open(out, encoding='utf-8').read() if ok else ''
                try:
                    if not ok:
                        raise ValueError('nothing written')
                    t1 = E.canon_xml(E.tree_of_minidom(xml.dom.minidom.parseString(text.encode('utf-8')).documentElement))
                    t2 = E.canon_xml(E.tree_of_etree_parsed(ET.fromstring(text.encode('utf-8'))))
                except Exception as ex:     # not well-formed
                    if ok:
                        fail('not-well-formed', 'the written file does not parse: %s: %s' % (type(ex).__name__, ex))
                    t1 = t2 = ['unparseable', [], []]
                if t1 != t2:
                    fail('parsers-disagree', 'minidom reads %s, ElementTree reads %s' % (json.dumps(t1), json.dumps(t2)))
                m = loader.build_metamodel()
                c_c = m.select_any('C_C', xtuml.where_eq(Name=name))
                direct = E.canon_xml(E.tree_of_element(gen_xsd.build_schema(m, c_c))) if c_c is not None else None
                if direct is not None and direct != t1:
                    fail('file-differs', 'the written file denotes %s, build_schema returns %s'
                         % (json.dumps(t1), json.dumps(direct)))
                obs = ['ok', t1, t1]
            except SystemExit as ex:
                obs = ['error', 'no-component']
                if ex.code != 1:
                    fail('exit-status', 'main exits with status %r for an unknown component' % (ex.code,))
                if os.path.exists(out):
                    fail('output-on-error', 'main wrote an output file although the component does not exist')

    if obs[0] == 'ok' and want0 is not None:
        for tree, dd, when in ((obs[1], d0, ''), (obs[2], d1, 'after the edits ')):
            for sig, what in _independent(tree, dd, comp):
                fail(sig, when + what)
            if fails:
                break
    if fails:
        pass
    elif obs[0] == 'ok':
        if want0 is None:
            fail('unknown-component-accepted', 'component %r does not exist but a schema was written' % (name,))
        elif obs[1] != want0:
            fail(_diff(obs[1], want0), 'the generated schema is %s, the class model specifies %s'
                 % (json.dumps(obs[1]), json.dumps(want0)))
        elif obs[2] != want1:
            fail('edit:' + _diff(obs[2], want1), 'after the edits the generated schema is %s, the edited class model '
                 'specifies %s (before: %s)' % (json.dumps(obs[2]), json.dumps(want1), json.dumps(obs[1])))
    elif case.get('cli') in USAGE_ERRORS:
        pass        # a usage error: exit status 1 and no output (checked above), nothing else is demanded
    elif want0 is not None:
        fail('component-rejected', 'main exits although component %r exists' % (name,))
    if case.get('cli') in USAGE_ERRORS and obs[0] != 'error':
        fail('usage-error-accepted', 'main ran although the command line is incomplete (%s)' % case['cli'])
    has_attr = want1 is not None and '"xs:attribute"' in json.dumps(want1)
    nontrivial = bool(has_attr and (not edits or want0 != want1))
    key = hashlib.sha1(json.dumps(case, sort_keys=True, default=str).encode()).hexdigest()
    out = {'obs': obs, 'd_fail': fails[:3], 'nontrivial': nontrivial, 'key': key, 'stats': stats}
    if case.get('cli') in USAGE_ERRORS:
        out['model_line'] = None
    return out


def _session_model_steps(case):
    out, edits = [], []
    for st in case['steps']:
        if st[0] == 'edit':
            if st[1][0] != 'redim':                     # --- owner-C20 round 8: the identity on the diagram
                edits.append(st[1])
        elif st[0] == 'xsd':
            out.append([st[2], list(edits) if st[1] == 'build' else []])
    return out


def _mutate_tree(el):
    """scribble over a returned ElementTree element"""
    for sub in list(el.iter()):
        sub.attrib['name'] = 'Zz'
        sub.attrib['type'] = 'Zz'
        sub.tag = 'mutated'
    for sub in list(el):
        el.remove(sub)


def _run_session(case, stats):
    import logging
    import xml.dom.minidom
    xtuml, gen_xsd, ooaofooa = _ctx['xtuml'], _ctx['gen_xsd'], _ctx['ooaofooa']
    d0 = case['diagram']
    fails, answers = [], []

    def fail(sig, what, i):
        fails.append({'sig': sig, 'what': '%s [step %d of %s]%s' % (what, i, json.dumps(case['steps']), _arrays_note(case, d0))})

    with tempfile.TemporaryDirectory(dir=_ctx['tmp']) as tmpdir:
        loader, path = C14._loader_for(case, tmpdir)
        m = loader.build_metamodel()
        if case.get('audit'):
            C14._audit(m, d0)
        cur, last = d0, None
        for i, st in enumerate(case['steps']):
            tag = 'step_' + st[0] + ('_' + st[1] if st[0] == 'xsd' else '')
            stats[tag] = stats.get(tag, 0) + 1
            if st[0] == 'edit':
                E.pop_apply_xedit(m, st[1])
                cur = E.py_apply_xedit(cur, st[1])
                continue
            if st[0] == 'sql':
                c_c = m.select_any('C_C', xtuml.where_eq(Name=st[1])) if st[1] is not None else None
                try:
                    ooaofooa.mk_component(m, c_c, st[2])
                except (xtuml.MetaModelException, ValueError):
                    pass            # an open scope / an enumeration named '' : not this property's business
                continue
            if st[0] == 'mutate':
                if last is not None:
                    _mutate_tree(last)
                    last = None
                continue
            _, route, name = st
            dd = cur if route == 'build' else d0
            comp = _comp_id(dd, name)
            want = E.py_xsd(dd, comp)
            if route == 'build':
                before = E.normal_diagram(E.decode(m)) if case.get('audit') else None
                c_c = m.select_any('C_C', xtuml.where_eq(Name=name))
                last = gen_xsd.build_schema(m, c_c)
                got = E.canon_xml(E.tree_of_element(last))
                _serialised_ok(last, got, lambda sig, what: fail(sig, what, i))
                if before is not None and E.normal_diagram(E.decode(m)) != before:
                    fail('population-modified', 'build_schema changed the ooaofooa population it was given', i)
            else:
                out = os.path.join(tmpdir, 'schema%d.xsd' % i)
                if not _call_main(gen_xsd, ['-c', name, '-o', out, path], lambda sig, what: fail(sig, what, i)):
                    break
                text = open(out, encoding='utf-8').read()
                got = E.canon_xml(E.tree_of_minidom(xml.dom.minidom.parseString(text.encode('utf-8')).documentElement))
            answers.append(['ok', got])
            for sig, what in _independent(got, dd, comp):
                fail(sig, what, i)
            if not fails and got != want:
                fail('session:' + _diff(got, want), 'route %s, component %r: the generated schema is %s, the class model (as '
                     'edited so far) specifies %s' % (route, name, json.dumps(got), json.dumps(want)), i)
            if fails:
                break
    stats['session_schemas'] = len(answers)
    key = hashlib.sha1(json.dumps(case, sort_keys=True, default=str).encode()).hexdigest()
    return {'obs': ['session', answers], 'd_fail': fails[:3], 'key': key, 'stats': stats,
            'nontrivial': len({json.dumps(a) for a in answers}) > 1}


def _independent(tree, d, comp):
    """two oracles that need no type mapping at all: (1) exactly one element per class contained in the component,
    also for a class without any declarable attribute; (2) every declared attribute is typed by the name of a core
    type 1..5 or an enumeration of the model (never by an instance reference, structured, user or void type)"""
    try:
        _, _, classes = _decls(tree)
    except Exception:
        return
    want = sorted(c['kl'] for c in d['classes'] if E.py_contained(d, comp, c['parent']))
    got = sorted(k for k in classes if k is not None)
    elems = [cl for c in tree[2] if c[0] == 'xs:element' for ct in c[2] for sq in ct[2] for cl in sq[2]]
    if len(elems) != len(want) or got != sorted(set(want)):
        yield ('element-per-class', 'the schema declares the class elements %s, the component contains the classes %s'
               % (json.dumps(sorted(dict(map(tuple, e[1])).get('name') for e in elems)), json.dumps(want)))
    usable = {t['name'] for t in d['dts'] if (t['kind'][0] == 'core' and 1 <= t['kind'][1] <= 5) or t['kind'][0] == 'enum'}
    for k in sorted(classes, key=repr):
        for name, ty in classes[k]:
            if ty not in usable:
                yield ('attribute-type-not-a-base-type', 'attribute %s.%s is declared with type %r, which is not the name of '
                       'a core or enumeration data type of the model (usable: %s)' % (k, name, ty, json.dumps(sorted(usable))))
                return


def _decls(t):
    """(simple type names, enumerations, class names, attributes per class) of a canonical schema tree"""
    types, enums, classes = [], {}, {}
    for c in t[2]:
        nm = dict(map(tuple, c[1])).get('name')
        if c[0] == 'xs:simpleType':
            types.append(nm)
            for r in c[2]:
                enums[nm] = [dict(map(tuple, r[1])).get('base')] + [dict(map(tuple, e[1])).get('value') for e in r[2]]
        elif c[0] == 'xs:element':
            for ct in c[2]:
                for sq in ct[2]:
                    for cl in sq[2]:
                        classes[dict(map(tuple, cl[1])).get('name')] = sorted(
                            (dict(map(tuple, a[1])).get('name'), dict(map(tuple, a[1])).get('type'))
                            for x in cl[2] for a in x[2])
    return sorted(types, key=repr), enums, classes


def _diff(got, want):
    try:
        g, w = _decls(got), _decls(want)
    except Exception:
        return 'tree-shape'
    if g[0] != w[0]:
        return 'simple-type-set'
    if g[1] != w[1]:
        return 'restriction-or-enumerators'
    gl, wl = _class_decls(got), _class_decls(want)         # lists: two classes may carry the same key letters
    if [n for n, _ in gl] != [n for n, _ in wl]:
        return 'class-set'
    if sorted((n, [a[0] for a in al]) for n, al in gl) != sorted((n, [a[0] for a in al]) for n, al in wl):
        return 'attribute-set'
    if gl != wl:
        return 'attribute-type'
    return 'other'


def _class_decls(t):
    """[(class name, sorted [(attribute name, type)])] of a canonical schema tree, one entry per class element"""
    out = []
    for c in t[2]:
        if c[0] == 'xs:element':
            for ct in c[2]:
                for sq in ct[2]:
                    for cl in sq[2]:
                        out.append((dict(map(tuple, cl[1])).get('name'), sorted(
                            (dict(map(tuple, a[1])).get('name'), dict(map(tuple, a[1])).get('type'))
                            for x in cl[2] for a in x[2])))
    return sorted(out, key=repr)


def model_line(case):
    if case.get('nomodel'):
        return None
    d = C14._diagram_of(case)
    if case.get('family') == 'session':
        return dumps([Sym('c20-session'), E.diagram_sexp(d),
                      [[nm, [E.xedit_sexp(e) for e in es]] for nm, es in _session_model_steps(case)]])
    if case['entry'] == 'text':
        return dumps([Sym('c20-text'), E.diagram_sexp(d), case['comp']])
    return dumps([Sym('c20'), E.diagram_sexp(d), case['comp'],
                  [E.xedit_sexp(e) for e in case['edits'] if e[0] != 'redim']])     # --- owner-C20 round 8 (redim)


def model_obs(case, ans):
    if case.get('family') == 'session':
        return ['session', [['ok', E.canon_xml(E.tree_of_sexp(a[1]))] if a[0] == 'ok' else ['error', str(a[1])]
                            for a in ans]]
    if ans[0] == 'error':
        return ['error', str(ans[1])]
    if case['entry'] == 'text':
        return ['text', ans[1]]
    t0, t1, t2 = (E.canon_xml(E.tree_of_sexp(x)) for x in ans[1:4])
    if case.get('nospec'):
        return ['ok', t0, t1]           # outside the hypotheses of the edit theorems: the trees only
    if t1 != t2:
        return ['model-inconsistent', t1, t2]
    return ['ok', t0, t1]


def case_from_json(c):
    return c


def shrink_candidates(case):
    edits = case['edits']
    for i in range(len(edits)):
        c = dict(case)
        c['edits'] = edits[:i] + edits[i + 1:]
        yield c
    # --- owner-C20 round 8: drop the decorations that are no part of the diagram (descriptions, own types of referential
    #     attributes, arrays / defaults) one at a time
    for k in ('descr', 'ref_types', 'arrays'):
        if case.get(k) is not None:
            yield dict(case, **{k: None})
        if case['src'] == 'synth' and case['diagram'].get(k) is not None:
            yield dict(case, diagram={x: y for x, y in case['diagram'].items() if x != k})
    if case['src'] != 'synth':
        return
    if case.get('family') == 'session':
        steps = case['steps']
        for i in range(len(steps)):
            if steps[i][0] != 'edit':
                c = dict(case)
                c['steps'] = steps[:i] + steps[i + 1:]
                yield c
        return
    for c in C14.shrink_candidates(dict(case, edits=[e for e in edits if e[0] in ('rename', 'retype', 'move-class')])):
        if c.get('diagram') is not case.get('diagram'):
            c = dict(c)
            c['edits'] = edits
            ids = {x['id'] for k in c['diagram']['classes'] for x in k['attrs']} | {k['id'] for k in c['diagram']['classes']} \
                | {t['id'] for t in c['diagram']['dts']}
            ok = True
            for e in edits:
                refs = [e[1]] if e[0] != 'add-type' else [e[1]['kind'][1]]
                if e[0] in ('rename', 'retype', 'redim'):       # --- owner-C20 round 8 (redim)
                    refs.append(e[2])
                if e[0] == 'retype':
                    refs.append(e[3])
                if e[0] == 'add-attr':
                    refs += [x for x in e[2]['kind'][1:]]
                if any(r not in ids for r in refs):
                    ok = False
            if ok:
                yield c
